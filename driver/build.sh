#!/bin/sh
# build the model driver: extract from Coq (ExtrOcamlBasic only), compile with ocamlfind
set -e
here="$(cd "$(dirname "$0")" && pwd)"
coqdir="$here/../coq"
out="${1:-$here/_build}"
mkdir -p "$out"
cd "$out"
rm -f *.ml *.mli *.cm* *.o
coqc -Q "$coqdir" LLG "$coqdir/Extract.v" > extract.log 2>&1 || { cat extract.log; exit 1; }
cp "$here/sexp.ml" "$here/main.ml" .
files=$(ocamlfind ocamldep -sort *.mli *.ml)
ocamlfind ocamlopt -w -a -o driver $files
echo "driver built: $out/driver"
