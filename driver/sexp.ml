module String = Stdlib.String
module Char = Stdlib.Char
module Buffer = Stdlib.Buffer
module Printf = Stdlib.Printf
module Sys = Stdlib.Sys
(* minimal s-expressions, same canonical syntax as the Rust harness *)
type t = A of string | L of t list

let tokenize (s : string) : string list =
  let out = ref [] and cur = Buffer.create 16 in
  let flush () = if Buffer.length cur > 0 then (out := Buffer.contents cur :: !out; Buffer.clear cur) in
  String.iter (fun c -> match c with
    | '(' | ')' -> flush (); out := String.make 1 c :: !out
    | ' ' | '\t' | '\n' | '\r' -> flush ()
    | c -> Buffer.add_char cur c) s;
  flush (); Stdlib.List.rev !out

let parse (s : string) : t =
  let toks = ref (tokenize s) in
  let next () = match !toks with [] -> failwith "sexp: eof" | x :: r -> toks := r; x in
  let rec go () =
    match next () with
    | "(" ->
      let items = ref [] in
      let rec loop () =
        match !toks with
        | ")" :: r -> toks := r
        | _ -> items := go () :: !items; loop () in
      loop (); L (Stdlib.List.rev !items)
    | ")" -> failwith "sexp: unexpected )"
    | a -> A a in
  go ()

let rec print (b : Buffer.t) (x : t) : unit =
  match x with
  | A s -> Buffer.add_string b s
  | L items ->
    Buffer.add_char b '(';
    Stdlib.List.iteri (fun i y -> if i > 0 then Buffer.add_char b ' '; print b y) items;
    Buffer.add_char b ')'

let to_string x = let b = Buffer.create 256 in print b x; Buffer.contents b
