module String = Stdlib.String
module Char = Stdlib.Char
module Buffer = Stdlib.Buffer
module Printf = Stdlib.Printf
module Sys = Stdlib.Sys
(* driver: reads "<id>\t<sexp>" lines, runs the extracted model runner for the
   property named on the command line, prints "<id>\t<sexp>" *)
open BinNums

let rec pos_of_int (i : int) : positive =
  if i = 1 then Coq_xH
  else if i land 1 = 0 then Coq_xO (pos_of_int (i lsr 1))
  else Coq_xI (pos_of_int (i lsr 1))
let n_of_int (i : int) : coq_N = if i = 0 then N0 else Npos (pos_of_int i)
let z_of_int (i : int) : coq_Z =
  if i = 0 then Z0 else if i > 0 then Zpos (pos_of_int i) else Zneg (pos_of_int (-i))
let rec int_of_pos (p : positive) : int =
  match p with Coq_xH -> 1 | Coq_xO q -> 2 * int_of_pos q | Coq_xI q -> 2 * int_of_pos q + 1
let int_of_n (n : coq_N) : int = match n with N0 -> 0 | Npos p -> int_of_pos p
let int_of_z (z : coq_Z) : int =
  match z with Z0 -> 0 | Zpos p -> int_of_pos p | Zneg p -> - (int_of_pos p)

let bytes_of_string (s : string) : coq_N list =
  Stdlib.List.init (String.length s) (fun i -> n_of_int (Char.code s.[i]))
let string_of_bytes (l : coq_N list) : string =
  String.concat "" (Stdlib.List.map (fun n -> String.make 1 (Char.chr (int_of_n n))) l)

let is_int (s : string) : bool =
  let n = String.length s in
  n > 0 && (let st = if s.[0] = '-' then 1 else 0 in
            n > st && (let ok = ref true in
                       for i = st to n - 1 do if s.[i] < '0' || s.[i] > '9' then ok := false done; !ok))
let is_hex (s : string) : bool =
  let n = String.length s in
  n >= 1 && s.[0] = 'x' && n mod 2 = 1 &&
  (let ok = ref true in
   for i = 1 to n - 1 do
     (match s.[i] with '0'..'9' | 'a'..'f' -> () | _ -> ok := false) done; !ok)

let rec to_sx (x : Sexp.t) : Sx.sx =
  match x with
  | Sexp.L l -> Sx.SL (Stdlib.List.map to_sx l)
  | Sexp.A s ->
    if is_int s then Sx.SI (z_of_int (int_of_string s))
    else if is_hex s then
      let n = (String.length s - 1) / 2 in
      Sx.SX (Stdlib.List.init n (fun i -> n_of_int (int_of_string ("0x" ^ String.sub s (1 + 2 * i) 2))))
    else Sx.SY (bytes_of_string s)

let rec of_sx (x : Sx.sx) : Sexp.t =
  match x with
  | Sx.SI z -> Sexp.A (string_of_int (int_of_z z))
  | Sx.SX b ->
    let buf = Buffer.create 16 in
    Buffer.add_char buf 'x';
    Stdlib.List.iter (fun n -> Buffer.add_string buf (Printf.sprintf "%02x" (int_of_n n))) b;
    Sexp.A (Buffer.contents buf)
  | Sx.SY b -> Sexp.A (string_of_bytes b)
  | Sx.SL l -> Sexp.L (Stdlib.List.map of_sx l)

let () =
  let prop = bytes_of_string Sys.argv.(1) in
  (try
     while true do
       let line = input_line stdin in
       match String.index_opt line '\t' with
       | None -> ()
       | Some i ->
         let id = String.sub line 0 i in
         let body = String.sub line (i + 1) (String.length line - i - 1) in
         let out =
           try Sexp.to_string (of_sx (Run.run_case prop (to_sx (Sexp.parse body))))
           with Stack_overflow -> "(driver-stack-overflow)"
              | Failure m -> "(driver-failure " ^ m ^ ")" in
         print_string id; print_char '\t'; print_string out; print_newline ()
     done
   with End_of_file -> ())
