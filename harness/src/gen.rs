//! Generators: vocabularies, byte-level DFAs.
use crate::rng::Rng;
use crate::sexp::*;

pub const ALPHA: &[u8] = b"abcde";

/// random word over a small alphabet (mostly), sometimes with high / non-UTF-8 bytes
pub fn gen_word(rng: &mut Rng, maxlen: usize) -> Vec<u8> {
    let len = 1 + rng.below(maxlen);
    (0..len)
        .map(|_| {
            if rng.chance(1, 12) {
                *rng.pick(&[0u8, 0x20, 0x7f, 0x80, 0xc3, 0xa9, 0xe2, 0xfe])
            } else {
                *rng.pick(ALPHA)
            }
        })
        .collect()
}

#[derive(Clone, Copy, PartialEq, Eq, Debug)]
pub enum VocabKind {
    /// random words, duplicates, empty entries, prefix chains, long runs
    Wild,
    /// all 256 single bytes first, then random words (byte complete)
    ByteComplete,
}

pub fn gen_vocab(rng: &mut Rng, kind: VocabKind, target: usize) -> Vec<Vec<u8>> {
    let mut ws: Vec<Vec<u8>> = vec![];
    if kind == VocabKind::ByteComplete {
        for b in 0..=255u8 {
            ws.push(vec![b]);
        }
    }
    let n = target;
    while ws.len() < n + if kind == VocabKind::ByteComplete { 256 } else { 0 } {
        let r = rng.below(100);
        if r < 8 && !ws.is_empty() {
            // duplicate of an existing entry
            let w = rng.pick(&ws).clone();
            ws.push(w);
        } else if r < 13 && kind == VocabKind::Wild {
            ws.push(vec![]);
        } else if r < 28 && !ws.is_empty() {
            // extension of an existing entry (prefix chains)
            let mut w = rng.pick(&ws).clone();
            let ext = gen_word(rng, 3);
            w.extend_from_slice(&ext);
            ws.push(w);
        } else if r < 32 {
            // long run
            let c = *rng.pick(ALPHA);
            let len = rng.range(5, 40);
            ws.push(vec![c; len]);
        } else if r < 36 {
            // special token
            let mut w = vec![0xffu8];
            w.extend_from_slice(b"<|");
            w.extend_from_slice(&gen_word(rng, 3));
            w.extend_from_slice(b"|>");
            ws.push(w);
        } else {
            ws.push(gen_word(rng, 5));
        }
    }
    ws
}

/// vocabulary sizes near 32-bit word boundaries
pub fn boundary_size(rng: &mut Rng, max_words: usize) -> usize {
    let w = rng.range(1, max_words);
    let base = 32 * w;
    (base as i64 + rng.range(0, 4) as i64 - 2).max(1) as usize
}

#[derive(Clone, Debug)]
pub struct Dfa {
    /// per state: (lo, hi, target), first match wins; no match = reject
    pub trans: Vec<Vec<(u8, u8, u32)>>,
}

impl Dfa {
    pub fn step(&self, s: u32, b: u8) -> Option<u32> {
        for &(lo, hi, t) in &self.trans[s as usize] {
            if lo <= b && b <= hi {
                return Some(t);
            }
        }
        None
    }
    pub fn run(&self, mut s: u32, w: &[u8]) -> Option<u32> {
        for &b in w {
            s = self.step(s, b)?;
        }
        Some(s)
    }
    pub fn to_sx(&self) -> Sx {
        list(
            self.trans
                .iter()
                .map(|t| {
                    list(
                        t.iter()
                            .map(|&(lo, hi, tg)| ints(&[lo as u32, hi as u32, tg]))
                            .collect(),
                    )
                })
                .collect(),
        )
    }
}

pub fn gen_dfa(rng: &mut Rng) -> Dfa {
    let n = rng.range(1, 6);
    let permissive = rng.chance(1, 4);
    let mut trans = vec![];
    for _ in 0..n {
        let mut t = vec![];
        let k = rng.range(0, 4);
        for _ in 0..k {
            let (lo, hi) = if rng.chance(2, 3) {
                let a = ALPHA[rng.below(ALPHA.len())];
                let b = ALPHA[rng.below(ALPHA.len())];
                (a.min(b), a.max(b))
            } else {
                let a = rng.below(256) as u8;
                let b = rng.below(256) as u8;
                (a.min(b), a.max(b))
            };
            t.push((lo, hi, rng.below(n) as u32));
        }
        if permissive {
            t.push((0, 255, rng.below(n) as u32));
        }
        trans.push(t);
    }
    Dfa { trans }
}
