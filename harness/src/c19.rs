//! C19: special tokens are allowed only where the grammar names them.
use crate::eng::*;
use crate::out::Out;
use crate::rng::Rng;
use crate::sexp::*;
use llguidance::toktrie::TokenizerEnv;

fn special_vocab(rng: &mut Rng) -> (Vec<Vec<u8>>, u32, Vec<u32>) {
    let mut ws: Vec<Vec<u8>> = (0..=255u8).map(|b| vec![b]).collect();
    // ordinary tokens spelling pieces of special names, and whole names as plain text
    for w in ["<|", "|>", "tool", "<|tool|>", "<|user|>", "user", "ab", "cd", "<", ">", "[", "]", "<[", "]>", "12", "<[12]>"] {
        ws.push(w.as_bytes().to_vec());
    }
    for _ in 0..rng.range(5, 25) {
        let n = rng.range(2, 4);
        let mut w = vec![];
        for _ in 0..n {
            w.extend_from_slice(rng.pick(&["a", "b", "c", "d", "<", "|", ">", "é"]).as_bytes());
        }
        ws.push(w);
    }
    let mut specials = vec![];
    for name in ["<|tool|>", "<|user|>", "<think>", "<|eos|>"] {
        let mut w = vec![0xFFu8];
        w.extend_from_slice(name.as_bytes());
        specials.push(ws.len() as u32);
        ws.push(w);
    }
    let eos = (ws.len() - 1) as u32;
    (ws, eos, specials)
}

#[derive(Clone, Debug)]
enum Piece {
    Text(String),
    TextRx(String),
    Name(String),
    Ranges(Vec<(u32, u32)>, bool),
    Wild,
}

fn feed_text(m: &mut llguidance::Matcher, text: &[u8]) -> bool {
    for &b in text {
        if m.is_stopped() || m.consume_token(b as u32).is_err() {
            return false;
        }
    }
    true
}

pub fn ref_case(rng: &mut Rng, out: &mut Out) {
    let (ws, eos, specials) = special_vocab(rng);
    let v = ws.len() as u32;
    let env = make_env(&ws, eos, false);
    let texts = ["ab", "cd", "<|tool|>", "x<|user|>y", "<think>", "<[12]>", "é"];
    let mut pieces: Vec<Piece> = vec![];
    for _ in 0..rng.range(2, 5) {
        pieces.push(match rng.below(8) {
            0 | 1 | 2 => Piece::Text(rng.pick(&texts).to_string()),
            3 => Piece::Text(rng.pick(&texts).to_string()),
            4 => Piece::Name(rng.pick(&["<|tool|>", "<|user|>", "<think>"]).to_string()),
            5 | 6 => {
                let mut rs = vec![];
                for _ in 0..rng.range(1, 3) {
                    let a = rng.below(v as usize) as u32;
                    let b = (a + rng.below(6) as u32).min(v - 1);
                    rs.push((a, b));
                }
                Piece::Ranges(rs, rng.chance(1, 2))
            }
            _ => Piece::Wild,
        });
    }
    // never two token references in a row without text (keeps positions unambiguous), start with text
    if !matches!(pieces[0], Piece::Text(_)) {
        pieces.insert(0, Piece::Text("ab".into()));
    }
    let mut lark = String::from("start: ");
    for (i, p) in pieces.iter().enumerate() {
        if i > 0 {
            lark.push(' ');
        }
        match p {
            Piece::Text(t) => {
                let mut s = String::new();
                Rx::Lit(t.clone()).to_lark_term(&mut s);
                lark.push_str(&s);
            }
            Piece::TextRx(r) => lark.push_str(&format!("/{r}/")),
            Piece::Name(n) => lark.push_str(n),
            Piece::Ranges(rs, neg) => {
                let body: Vec<String> = rs.iter().map(|(a, b)| if a == b { format!("{a}") } else { format!("{a}-{b}") }).collect();
                lark.push_str(&format!("<[{}{}]>", if *neg { "^" } else { "" }, body.join(",")));
            }
            Piece::Wild => lark.push_str("<[*]>"),
        }
    }
    lark.push('\n');
    let Ok(mut m) = new_matcher(&env, &lark, &[]) else {
        out.count("grammar_rejected", 1);
        return;
    };
    let special_set: Vec<u32> = specials.clone();
    let marker_tok = 255u32;
    for (i, p) in pieces.iter().enumerate() {
        let Ok(mask) = m.compute_mask() else { break };
        let ml = mask_list(&mask);
        match p {
            Piece::Text(_) | Piece::TextRx(_) => {
                // text position: no special token, no bare marker
                let leaked: Vec<u32> = ml.iter().cloned().filter(|t| special_set.contains(t) || *t == marker_tok).collect();
                let leaked: Vec<u32> = leaked.into_iter().filter(|&t| !(t == eos && m.is_accepting().unwrap_or(false))).collect();
                if !leaked.is_empty() {
                    out.violation(&format!("text position {i} allows special / marker tokens {:?}", leaked), lark.clone());
                }
                let text: Vec<u8> = match p {
                    Piece::Text(t) => t.as_bytes().to_vec(),
                    _ => b"a<".to_vec(),
                };
                // inside the text too
                let mut ok = true;
                for &b in &text {
                    if let Ok(mk) = m.compute_mask() {
                        let l2 = mask_list(&mk);
                        if l2.iter().any(|t| (special_set.contains(t) && *t != eos) || *t == marker_tok) {
                            out.violation(&format!("inside text of piece {i} a special / marker token is allowed"), lark.clone());
                        }
                    }
                    if m.consume_token(b as u32).is_err() {
                        ok = false;
                        break;
                    }
                }
                out.count("text_positions", 1);
                if !ok {
                    break;
                }
                // a regex piece may continue: move on only if the next mask allows leaving it
                if let Piece::TextRx(_) = p {
                    // the following piece decides; nothing to do
                }
            }
            Piece::Name(_) | Piece::Ranges(_, _) | Piece::Wild => {
                let denoted: Vec<u32> = match p {
                    Piece::Name(n) => {
                        let mut w = vec![0xFFu8];
                        w.extend_from_slice(n.as_bytes());
                        ws.iter().position(|x| x == &w).map(|x| vec![x as u32]).unwrap_or_default()
                    }
                    Piece::Ranges(rs, neg) => (0..v).filter(|t| rs.iter().any(|(a, b)| a <= t && t <= b) != *neg).collect(),
                    _ => (0..v).collect(),
                };
                // previous piece could be an unfinished regex: then text tokens are allowed as well
                let prev_open = i > 0 && matches!(pieces[i - 1], Piece::TextRx(_));
                let got_special: Vec<u32> = ml.iter().cloned().filter(|t| denoted.contains(t) || special_set.contains(t)).collect();
                let want: Vec<u32> = denoted.clone();
                let exact_ok = if prev_open { want.iter().all(|t| ml.contains(t)) && got_special.iter().all(|t| denoted.contains(t) || !special_set.contains(t)) } else { ml == want };
                if !exact_ok {
                    out.violation(
                        &format!("token reference at piece {i} ({:?}): mask {:?} but it denotes {:?}", p, ml.iter().take(40).collect::<Vec<_>>(), want.iter().take(40).collect::<Vec<_>>()),
                        lark.clone(),
                    );
                }
                if let Piece::Ranges(rs, true) = p {
                    out.case(
                        tagged("negranges", vec![int(v), list(rs.iter().map(|(a, b)| ints(&[*a, *b])).collect())]),
                        tagged("ok", vec![ints(&denoted)]),
                        true,
                    );
                }
                out.count("token_ref_positions", 1);
                let Some(&t) = denoted.get(rng.below(denoted.len().max(1))) else { break };
                if m.consume_token(t).is_err() {
                    out.violation(&format!("token {t} denoted by piece {i} was rejected"), lark.clone());
                    break;
                }
            }
        }
    }
    out.count("ref_cases", 1);
}

/// text that merely spells a special token's name is tokenised as ordinary text; with the marker
/// byte it becomes the special token
pub fn tokenize_case(rng: &mut Rng, out: &mut Out) {
    let (ws, eos, specials) = special_vocab(rng);
    let env = make_env(&ws, eos, true);
    let trie = env.tok_trie();
    let names = ["<|tool|>", "<|user|>", "<think>", "<|eos|>", "<[12]>", "<|nosuch|>"];
    let mut text: Vec<u8> = vec![];
    for _ in 0..rng.range(1, 6) {
        match rng.below(4) {
            0 => text.extend_from_slice(rng.pick(&names).as_bytes()),
            1 => {
                text.push(0xFF);
                text.extend_from_slice(rng.pick(&names).as_bytes());
            }
            2 => {
                text.push(0xFF);
                text.extend_from_slice(format!("[{}]", rng.below(ws.len() + 5)).as_bytes());
            }
            _ => text.extend_from_slice(rng.pick(&["ab", "cd", "a<", "|>b", "é"]).as_bytes()),
        }
    }
    // plain tokenisation of the text without marker bytes
    let plain: Vec<u8> = text.iter().cloned().filter(|&b| b != 0xFF).collect();
    let toks = env.tokenize_bytes(&plain);
    if toks.iter().any(|t| specials.contains(t)) {
        out.violation("text spelling a special token's name was tokenised into the special token", format!("{:?}", String::from_utf8_lossy(&plain)));
    }
    let back: Vec<u8> = toks.iter().flat_map(|&t| ws[t as usize].clone()).collect();
    if back != plain {
        out.violation("tokenize_bytes does not decode back to the text", format!("{:?}", String::from_utf8_lossy(&plain)));
    }
    let (mtoks, nfixed) = env.tokenize_bytes_marker(&text);
    let _ = trie;
    out.case(
        tagged("tokmarker", vec![tagged("vocab", ws.iter().map(|w| hex(w)).collect()), hex(&text)]),
        tagged("ok", vec![ints(&mtoks), int(nfixed)]),
        true,
    );
    out.count("tokenize_cases", 1);
}


/// a position where only token references are possible, written as an alternative of several
/// references with pairwise disjoint denotations: exactly their union is allowed — under a canonical
/// tokenizer too, where the engine forces bytes (and the marker byte) ahead of the mask
pub fn alt_refs_case(rng: &mut Rng, out: &mut Out) {
    let (ws, eos, specials) = special_vocab(rng);
    let v = ws.len() as u32;
    let canonical = rng.chance(2, 3);
    let env = make_env(&ws, eos, canonical);
    // candidate references with their denotations
    let mut cands: Vec<(String, Vec<u32>)> = vec![];
    for (name, id) in [("<|tool|>", specials[0]), ("<|user|>", specials[1]), ("<think>", specials[2])] {
        cands.push(if rng.chance(1, 2) { (name.to_string(), vec![id]) } else { (format!("<[{id}]>"), vec![id]) });
    }
    let o = 256 + rng.below(10) as u32;
    cands.push((format!("<[{o}]>"), vec![o]));
    let a = 270 + rng.below(4) as u32;
    let b = (a + 1 + rng.below(3) as u32).min(specials[0] - 1);
    if a < b {
        cands.push((format!("<[{a}-{b}]>"), (a..=b).collect()));
    }
    // a random subset in a random order
    let n = rng.range(2, cands.len().min(4));
    let mut chosen: Vec<(String, Vec<u32>)> = vec![];
    while chosen.len() < n {
        let c = rng.pick(&cands).clone();
        if !chosen.iter().any(|x| x.0 == c.0 || x.1.iter().any(|t| c.1.contains(t))) {
            chosen.push(c);
        }
    }
    let text = *rng.pick(&["ab", "cd", "a", "x<|"]);
    let tail = if rng.chance(2, 3) { " \"!\"" } else { "" };
    let mut lit = String::new();
    Rx::Lit(text.to_string()).to_lark_term(&mut lit);
    let alts: Vec<String> = chosen.iter().map(|c| c.0.clone()).collect();
    let lark = match rng.below(3) {
        0 => format!("start: {lit} ( {} ){tail}\n", alts.join(" | ")),
        1 => format!("start: {lit} r{tail}\nr: {}\n", alts.join(" | ")),
        _ => format!("start: {}\n", alts.iter().map(|a| format!("{lit} {a}{tail}")).collect::<Vec<_>>().join(" | ")),
    };
    let Ok(mut m) = new_matcher(&env, &lark, &[]) else {
        out.count("grammar_rejected", 1);
        return;
    };
    let toks = env.tokenize_bytes(text.as_bytes());
    for &t in &toks {
        if m.consume_token(t).is_err() {
            out.violation(&format!("the tokens {toks:?} of the text {text:?} were rejected"), lark.clone());
            return;
        }
    }
    let mut want: Vec<u32> = chosen.iter().flat_map(|c| c.1.clone()).collect();
    want.sort();
    let ff = m.compute_ff_tokens();
    if !ff.is_empty() {
        out.violation(&format!("tokens {ff:?} are forced where the grammar offers the choice {want:?} (canonical = {canonical})"), lark.clone());
    }
    let ml = match m.compute_mask() {
        Ok(mask) => mask_list(&mask),
        Err(e) => {
            out.violation(&format!("no mask at the position of the token references: {}", e.to_string().lines().next().unwrap_or("")), lark.clone());
            return;
        }
    };
    if ml != want {
        out.violation(&format!("alternative of token references {alts:?}: mask {ml:?} but the references denote {want:?} (canonical = {canonical})"), lark.clone());
    }
    for &t in &want {
        let mut c = m.deep_clone();
        if c.consume_token(t).is_err() {
            out.violation(&format!("token {t} denoted by one of {alts:?} was rejected (canonical = {canonical})"), lark.clone());
            continue;
        }
        if !tail.is_empty() {
            let ok = !c.is_accepting().unwrap_or(true) && feed_text(&mut c, b"!");
            if !ok || !c.is_accepting().unwrap_or(false) {
                out.violation(&format!("after token {t} the rest of the rule is not as written (canonical = {canonical})"), lark.clone());
            }
        } else if !c.is_accepting().unwrap_or(false) {
            out.violation(&format!("after token {t} the grammar is complete but the engine is not accepting (canonical = {canonical})"), lark.clone());
        }
    }
    let _ = v;
    out.count("alt_ref_cases", 1);
    if canonical {
        out.count("alt_ref_cases_canonical", 1);
    }
}

/// canonical tokenizer (forced bytes, token healing): forced text followed by a choice between more
/// text and a token reference; every token the mask offers — special or not — must be committable,
/// and special tokens are offered only at the position of the reference
pub fn canon_case(rng: &mut Rng, out: &mut Out) {
    let (mut ws, _, _) = special_vocab(rng);
    ws.pop(); // the EOS entry goes last again
    for w in ["abc", "abcd", "cdx", "abx", "b<", "c<|"] {
        ws.push(w.as_bytes().to_vec());
    }
    ws.push(b"\xFF<|eos|>".to_vec());
    let eos = (ws.len() - 1) as u32;
    let specials: Vec<u32> = ws.iter().enumerate().filter(|(_, w)| w.first() == Some(&0xFF)).map(|(i, _)| i as u32).collect();
    let env = make_env(&ws, eos, true);
    let text = *rng.pick(&["ab", "cd", "xab", "a"]);
    let more = *rng.pick(&["c", "x", "cd", "<", "d"]);
    let reference = match rng.below(4) {
        0 => "<|tool|>".to_string(),
        1 => "<think>".to_string(),
        2 => format!("<[{}-{}]>", 256 + rng.below(10), 270 + rng.below(10)),
        _ => "<[*]>".to_string(),
    };
    let tail = if rng.chance(1, 2) { " \"!\"" } else { "" };
    let lark = match rng.below(3) {
        0 => format!("start: \"{text}\" ( \"{more}\" | {reference} ){tail}\n"),
        1 => format!("start: \"{text}\" {reference} \"{more}\"{tail}\n"),
        _ => format!("start: \"{text}\" ( {reference} | \"{more}\" {reference} ){tail}\n"),
    };
    let Ok(mut m) = new_matcher(&env, &lark, &[]) else {
        out.count("grammar_rejected", 1);
        return;
    };
    let mut hist: Vec<u32> = vec![];
    for _ in 0..6 {
        if m.is_stopped() {
            break;
        }
        let Ok(mask) = m.compute_mask() else { break };
        let ml = mask_list(&mask);
        for &t in &ml {
            let mut c = m.deep_clone();
            if c.consume_token(t).is_err() {
                out.violation(
                    &format!("canonical tokenizer: the mask offers token {t} ({:?}) but committing it fails, after {:?}", String::from_utf8_lossy(&ws[t as usize]), hist),
                    lark.clone(),
                );
                return;
            }
        }
        out.count("canonical_mask_tokens", ml.len() as u64);
        let Some(t) = pick_token(rng, &ml, &ws, eos) else { break };
        if m.consume_token(t).is_err() {
            break;
        }
        hist.push(t);
        let _ = &specials;
    }
    out.count("canonical_cases", 1);
}

/// text positions written with the complement / intersection operators: a complement may match
/// invalid UTF-8, but never a special token or the bare marker
pub fn complement_case(rng: &mut Rng, out: &mut Out) {
    let (ws, eos, specials) = special_vocab(rng);
    let env = make_env(&ws, eos, rng.chance(1, 3));
    let t = *rng.pick(&[
        "~\"a\"",
        "~/[a-z]*/",
        "/[a-z<|>]+/ & ~\"bb\"",
        "~(~\"ab\")",
        "~/(?s:.*)x(?s:.*)/",
        "(~\"a\")+",
        "\"<\" ~\"|tool|>\"",
        "~/[a-c]/ | \"c\"",
    ]);
    let lark = match rng.below(3) {
        0 => format!("start: T\nT: {t}\n"),
        1 => format!("start: \"ab\" T \"!\"\nT: {t}\n"),
        _ => format!("start: T <|user|> T\nT: {t}\n"),
    };
    let names_user = lark.contains("<|user|>");
    let Ok(mut m) = new_matcher(&env, &lark, &[]) else {
        out.count("grammar_rejected", 1);
        return;
    };
    let user: Option<u32> = ws.iter().position(|w| w == b"\xFF<|user|>").map(|i| i as u32);
    for step in 0..6 {
        if m.is_stopped() {
            break;
        }
        let Ok(mask) = m.compute_mask() else { break };
        let ml = mask_list(&mask);
        let acc = m.is_accepting().unwrap_or(false);
        let leaked: Vec<u32> = ml
            .iter()
            .cloned()
            .filter(|t| (specials.contains(t) || *t == 255) && !(*t == eos && acc) && !(names_user && Some(*t) == user))
            .collect();
        if !leaked.is_empty() {
            out.violation(
                &format!("a text position written with ~ / & allows special / marker tokens {:?} at step {step}", leaked.iter().map(|t| String::from_utf8_lossy(&ws[*t as usize]).to_string()).collect::<Vec<_>>()),
                lark.clone(),
            );
            return;
        }
        let plain: Vec<u32> = ml.iter().cloned().filter(|t| !specials.contains(t)).collect();
        let Some(t) = pick_token(rng, &plain, &ws, eos) else { break };
        if m.consume_token(t).is_err() {
            break;
        }
    }
    out.count("complement_cases", 1);
}

/// two shapes recorded as known findings (known_findings.json): they are exercised on every run so
/// that the findings stay visible and any other failure of the same positions is still reported
pub fn known_shape_cases(rng: &mut Rng, out: &mut Out) {
    // (a) alternatives whose token ranges overlap: a token denoted by both references must keep
    //     both alternatives alive (ParserState::flush_and_check_numeric takes the first match only)
    for _ in 0..3 {
        let a = 97 + rng.below(3) as u32;
        let b = a + 1 + rng.below(2) as u32;
        let (ws, eos) = single_byte_vocab();
        let env = make_env(&ws, eos, false);
        let lark = format!("start: <[{}-{}]> \"x\" | <[{}-{}]> \"y\"\n", a, b, a + 1, b + 2);
        let Ok(mut m) = new_matcher(&env, &lark, &[]) else { continue };
        let shared = a + 1;
        if m.consume_token(shared).is_ok() {
            if let Ok(mask) = m.compute_mask() {
                let ml = mask_list(&mask);
                if !(ml.contains(&(b'x' as u32)) && ml.contains(&(b'y' as u32))) {
                    out.violation(
                        "overlapping token ranges: after a token denoted by both references only one alternative continues",
                        format!("call site ParserState::flush_and_check_numeric; token {shared}; mask {:?}; {lark}", ml),
                    );
                }
            }
        }
    }
    // (b) a special token literally named "[N]": the byte pattern of token-range lexemes
    //     (marker "[" digits "]") matches its bytes, so it is offered at a <[N]> reference
    let n = 100 + rng.below(100) as u32;
    let mut ws: Vec<Vec<u8>> = (0..=255u8).map(|b| vec![b]).collect();
    ws.push(format!("\u{ff}[{n}]").chars().map(|c| c as u8).collect());
    ws.push(b"\xFF<|eos|>".to_vec());
    let env = make_env(&ws, 257, false);
    let lark = format!("start: \"a\" <[{n}]> \"b\"\n");
    if let Ok(mut m) = new_matcher(&env, &lark, &[]) {
        if m.consume_token(b'a' as u32).is_ok() {
            if let Ok(mask) = m.compute_mask() {
                let ml = mask_list(&mask);
                if ml != vec![n] {
                    out.violation(
                        "a special token literally named [N] is offered at the reference <[N]> under its own (different) id",
                        format!("call site LexerSpec::add_lexeme_spec special_token_rx; mask {:?} expected [{n}]; {lark}", ml),
                    );
                }
            }
        }
    }
    out.count("known_shape_cases", 1);
}

pub fn run(rng: &mut Rng, out: &mut Out, tier: &str) {
    let mut r0 = rng.fork(0xC19);
    known_shape_cases(&mut r0, out);
    let n = if tier == "thorough" { 8000 } else { 800 };
    for i in 0..n {
        let mut r = rng.fork(i as u64);
        ref_case(&mut r, out);
        let mut r = rng.fork(0x7000_0000 + i as u64);
        tokenize_case(&mut r, out);
        let mut r = rng.fork(0x7100_0000 + i as u64);
        canon_case(&mut r, out);
        let mut r = rng.fork(0x7200_0000 + i as u64);
        complement_case(&mut r, out);
        let mut r = rng.fork(0x7300_0000 + i as u64);
        alt_refs_case(&mut r, out);
    }
}
