//! Case / result files shared with the OCaml driver, statistics and violations.
use crate::sexp::Sx;
use std::collections::{BTreeMap, BTreeSet};
use std::fs::File;
use std::io::{BufWriter, Write};
use std::path::{Path, PathBuf};

pub struct Out {
    pub dir: PathBuf,
    cases: BufWriter<File>,
    imp: BufWriter<File>,
    pub n: usize,
    pub stats: BTreeMap<String, u64>,
    pub samples: Vec<String>,
    pub violations: Vec<(String, String)>,
    pub nontrivial: BTreeSet<u64>,
    pub seed: u64,
    pub tier: String,
    /// (schema, output) pairs for a second, external judge (python jsonschema)
    pub ext_pairs: Vec<(String, String)>,
}

pub fn hash64(s: &str) -> u64 {
    let mut h: u64 = 0xcbf29ce484222325;
    for b in s.as_bytes() {
        h ^= *b as u64;
        h = h.wrapping_mul(0x100000001b3);
    }
    h
}

impl Out {
    pub fn new(dir: &Path, seed: u64, tier: &str) -> Self {
        std::fs::create_dir_all(dir).unwrap();
        let _ = std::fs::remove_file(dir.join("ext_pairs.jsonl"));
        Out {
            dir: dir.to_path_buf(),
            cases: BufWriter::new(File::create(dir.join("cases.txt")).unwrap()),
            imp: BufWriter::new(File::create(dir.join("impl.txt")).unwrap()),
            n: 0,
            stats: BTreeMap::new(),
            samples: vec![],
            violations: vec![],
            nontrivial: BTreeSet::new(),
            seed,
            tier: tier.to_string(),
            ext_pairs: vec![],
        }
    }
    /// one correspondence case: `input` goes to the model driver, `output` is what the implementation did
    pub fn case(&mut self, input: Sx, output: Sx, nontrivial: bool) {
        let i = input.to_string();
        let o = output.to_string();
        writeln!(self.cases, "{}\t{}", self.n, i).unwrap();
        writeln!(self.imp, "{}\t{}", self.n, o).unwrap();
        if nontrivial {
            self.nontrivial.insert(hash64(&i));
        }
        if self.samples.len() < 3 && nontrivial {
            let mut s = format!("{i} => {o}");
            if s.len() > 600 {
                s.truncate(600);
                s.push_str("...");
            }
            self.samples.push(s);
        }
        self.n += 1;
    }
    pub fn count(&mut self, key: &str, n: u64) {
        *self.stats.entry(key.to_string()).or_insert(0) += n;
    }
    /// a failure of the property observed on the implementation alone
    pub fn violation(&mut self, what: &str, replay: String) {
        if self.violations.len() < 20 {
            self.violations.push((what.to_string(), replay));
        }
        self.count("impl_violations", 1);
    }
    pub fn finish(mut self) {
        if !self.ext_pairs.is_empty() {
            let lines: Vec<String> = self.ext_pairs.iter().map(|(s, o)| serde_json::json!({"schema": s, "output": o}).to_string()).collect();
            std::fs::write(self.dir.join("ext_pairs.jsonl"), lines.join("\n") + "\n").unwrap();
        }
        self.cases.flush().unwrap();
        self.imp.flush().unwrap();
        let viol: Vec<serde_json::Value> = self
            .violations
            .iter()
            .map(|(w, r)| serde_json::json!({"what": w, "replay": r}))
            .collect();
        let meta = serde_json::json!({
            "seed": self.seed,
            "tier": self.tier,
            "cases": self.n,
            "distinct_nontrivial": self.nontrivial.len(),
            "stats": self.stats,
            "samples": self.samples,
            "violations": viol,
        });
        std::fs::write(
            self.dir.join("meta.json"),
            serde_json::to_string_pretty(&meta).unwrap(),
        )
        .unwrap();
    }
}
