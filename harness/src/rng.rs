//! Deterministic PRNG: every random choice of the harness derives from one state.
#[derive(Clone)]
pub struct Rng(pub u64);
impl Rng {
    pub fn new(seed: u64) -> Self {
        let mut r = Rng(seed ^ 0x9E37_79B9_7F4A_7C15);
        r.next();
        r.next();
        r
    }
    pub fn fork(&mut self, tag: u64) -> Rng {
        Rng::new(self.next() ^ tag.wrapping_mul(0xD1B5_4A32_D192_ED03))
    }
    pub fn next(&mut self) -> u64 {
        // splitmix64
        self.0 = self.0.wrapping_add(0x9E37_79B9_7F4A_7C15);
        let mut z = self.0;
        z = (z ^ (z >> 30)).wrapping_mul(0xBF58_476D_1CE4_E5B9);
        z = (z ^ (z >> 27)).wrapping_mul(0x94D0_49BB_1331_11EB);
        z ^ (z >> 31)
    }
    /// uniform in 0..n (n > 0)
    pub fn below(&mut self, n: usize) -> usize {
        (self.next() % (n as u64)) as usize
    }
    pub fn range(&mut self, lo: usize, hi: usize) -> usize {
        lo + self.below(hi - lo + 1)
    }
    pub fn chance(&mut self, num: usize, den: usize) -> bool {
        self.below(den) < num
    }
    pub fn pick<'a, T>(&mut self, v: &'a [T]) -> &'a T {
        &v[self.below(v.len())]
    }
    pub fn shuffle<T>(&mut self, v: &mut [T]) {
        for i in (1..v.len()).rev() {
            let j = self.below(i + 1);
            v.swap(i, j);
        }
    }
}
