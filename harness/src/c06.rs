//! C06 / C07: JSON-schema constraints — every complete output validates (C06), every valid
//! instance in canonical form is accepted (C07).
//!
//! Two families of schemas:
//!  * the modelled fragment (coq/JsonModel.v): the model decides every compared string;
//!  * an extended family (number bounds, multipleOf, enum, allOf, $ref incl. recursive,
//!    min/maxProperties on closed objects, formats): judged by the validator below only.
use crate::eng::*;
use crate::out::Out;
use crate::rng::Rng;
use crate::sexp::*;
use llguidance::api::TopLevelGrammar;
use llguidance::toktrie::{InferenceCapabilities, TokEnv};
use llguidance::{Matcher, ParserFactory};
use serde_json::{json, Map, Value};

// ------------------------------------------------------------------ modelled fragment
#[derive(Clone, Debug)]
pub enum Sch {
    Null,
    Bool,
    Int(Option<i64>, Option<i64>),
    Str(usize, Option<usize>),
    Const(Value),
    AnyOf(Vec<Sch>),
    Arr { prefix: Vec<Sch>, items: Option<Box<Sch>>, min: usize, max: Option<usize> },
    Obj { props: Vec<(String, Sch, bool)>, addl: Option<Box<Sch>> },
}

fn opt_sx<T: std::fmt::Display>(o: &Option<T>) -> Sx {
    match o {
        Some(v) => int(v),
        None => sym("none"),
    }
}

fn json_sx(v: &Value) -> Sx {
    match v {
        Value::Null => tagged("jnull", vec![]),
        Value::Bool(b) => tagged("jbool", vec![int(*b as usize)]),
        Value::Number(n) => tagged("jint", vec![int(n.as_i64().unwrap_or(0))]),
        Value::String(s) => tagged("jstr", vec![hex(s.as_bytes())]),
        Value::Array(a) => tagged("jarr", a.iter().map(json_sx).collect()),
        Value::Object(o) => tagged("jobj", o.iter().map(|(k, v)| list(vec![hex(k.as_bytes()), json_sx(v)])).collect()),
    }
}

impl Sch {
    pub fn to_sx(&self) -> Sx {
        match self {
            Sch::Null => tagged("null", vec![]),
            Sch::Bool => tagged("bool", vec![]),
            Sch::Int(lo, hi) => tagged("int", vec![opt_sx(lo), opt_sx(hi)]),
            Sch::Str(a, b) => tagged("str", vec![int(a), opt_sx(b)]),
            Sch::Const(v) => tagged("const", vec![json_sx(v)]),
            Sch::AnyOf(l) => tagged("anyof", l.iter().map(|s| s.to_sx()).collect()),
            Sch::Arr { prefix, items, min, max } => tagged(
                "arr",
                vec![
                    list(prefix.iter().map(|s| s.to_sx()).collect()),
                    items.as_ref().map(|s| s.to_sx()).unwrap_or(sym("none")),
                    int(min),
                    opt_sx(max),
                ],
            ),
            Sch::Obj { props, addl } => tagged(
                "obj",
                vec![
                    list(props.iter().map(|(k, s, r)| list(vec![hex(k.as_bytes()), s.to_sx(), int(*r as usize)])).collect()),
                    addl.as_ref().map(|s| s.to_sx()).unwrap_or(sym("none")),
                ],
            ),
        }
    }

    pub fn to_schema(&self) -> Value {
        match self {
            Sch::Null => json!({"type": "null"}),
            Sch::Bool => json!({"type": "boolean"}),
            Sch::Int(lo, hi) => {
                let mut m = Map::new();
                m.insert("type".into(), json!("integer"));
                if let Some(l) = lo {
                    m.insert("minimum".into(), json!(l));
                }
                if let Some(h) = hi {
                    m.insert("maximum".into(), json!(h));
                }
                Value::Object(m)
            }
            Sch::Str(a, b) => {
                let mut m = Map::new();
                m.insert("type".into(), json!("string"));
                if *a > 0 {
                    m.insert("minLength".into(), json!(a));
                }
                if let Some(b) = b {
                    m.insert("maxLength".into(), json!(b));
                }
                Value::Object(m)
            }
            Sch::Const(v) => json!({"const": v}),
            Sch::AnyOf(l) => json!({"anyOf": l.iter().map(|s| s.to_schema()).collect::<Vec<_>>()}),
            Sch::Arr { prefix, items, min, max } => {
                let mut m = Map::new();
                m.insert("type".into(), json!("array"));
                if !prefix.is_empty() {
                    m.insert("prefixItems".into(), Value::Array(prefix.iter().map(|s| s.to_schema()).collect()));
                }
                m.insert("items".into(), items.as_ref().map(|s| s.to_schema()).unwrap_or(json!(false)));
                if *min > 0 {
                    m.insert("minItems".into(), json!(min));
                }
                if let Some(mx) = max {
                    m.insert("maxItems".into(), json!(mx));
                }
                Value::Object(m)
            }
            Sch::Obj { props, addl } => {
                let mut m = Map::new();
                m.insert("type".into(), json!("object"));
                let mut p = Map::new();
                for (k, s, _) in props {
                    p.insert(k.clone(), s.to_schema());
                }
                m.insert("properties".into(), Value::Object(p));
                m.insert("required".into(), Value::Array(props.iter().filter(|x| x.2).map(|x| json!(x.0)).collect()));
                m.insert("additionalProperties".into(), addl.as_ref().map(|s| s.to_schema()).unwrap_or(json!(false)));
                Value::Object(m)
            }
        }
    }

    /// Draft 2020-12 validity on the fragment (independent of both model and implementation)
    pub fn valid(&self, v: &Value) -> bool {
        match (self, v) {
            (Sch::Null, Value::Null) => true,
            (Sch::Bool, Value::Bool(_)) => true,
            (Sch::Int(lo, hi), Value::Number(n)) => {
                let z: i128 = if let Some(i) = n.as_i64() {
                    i as i128
                } else if let Some(u) = n.as_u64() {
                    u as i128
                } else if let Some(f) = n.as_f64().filter(|f| f.fract() == 0.0 && f.abs() < 1e18) {
                    f as i128 // "-0" is read as the float -0.0
                } else {
                    return false;
                };
                lo.map_or(true, |l| l as i128 <= z) && hi.map_or(true, |h| z <= h as i128)
            }
            (Sch::Str(a, b), Value::String(s)) => {
                let n = s.chars().count();
                *a <= n && b.map_or(true, |b| n <= b)
            }
            (Sch::Const(c), v) => c == v,
            (Sch::AnyOf(l), v) => l.iter().any(|s| s.valid(v)),
            (Sch::Arr { prefix, items, min, max }, Value::Array(a)) => {
                if a.len() < *min || max.map_or(false, |m| a.len() > m) {
                    return false;
                }
                for (i, x) in a.iter().enumerate() {
                    let ok = if i < prefix.len() {
                        prefix[i].valid(x)
                    } else {
                        match items {
                            Some(s) => s.valid(x),
                            None => false,
                        }
                    };
                    if !ok {
                        return false;
                    }
                }
                true
            }
            (Sch::Obj { props, addl }, Value::Object(o)) => {
                for (k, s, req) in props {
                    match o.get(k) {
                        Some(x) => {
                            if !s.valid(x) {
                                return false;
                            }
                        }
                        None => {
                            if *req {
                                return false;
                            }
                        }
                    }
                }
                for (k, x) in o {
                    if !props.iter().any(|p| &p.0 == k) {
                        match addl {
                            Some(s) => {
                                if !s.valid(x) {
                                    return false;
                                }
                            }
                            None => return false,
                        }
                    }
                }
                true
            }
            _ => false,
        }
    }

    /// a random valid instance with object keys in schema order (None: could not build one)
    pub fn instance(&self, rng: &mut Rng, depth: usize) -> Option<Value> {
        match self {
            Sch::Null => Some(Value::Null),
            Sch::Bool => Some(Value::Bool(rng.chance(1, 2))),
            Sch::Int(lo, hi) => {
                let z = match (lo, hi) {
                    (Some(l), Some(h)) => {
                        if l > h {
                            return None;
                        }
                        let span = (*h as i128 - *l as i128) as u128;
                        let pick = match rng.below(4) {
                            0 => 0u128,
                            1 => span,
                            _ => (rng.next() as u128) % (span + 1),
                        };
                        (*l as i128 + pick as i128) as i64
                    }
                    (Some(l), None) => l.saturating_add(*rng.pick(&[0i64, 1, 9, 10, 99, 12345, 1 << 40])),
                    (None, Some(h)) => h.saturating_sub(*rng.pick(&[0i64, 1, 9, 10, 99, 12345, 1 << 40])),
                    (None, None) => *rng.pick(&[0i64, -1, 7, -10, 100, 99999, -123456789012]),
                };
                Some(json!(z))
            }
            Sch::Str(a, b) => {
                let hi = b.unwrap_or(a + 4);
                if *a > hi {
                    return None;
                }
                let mid = rng.range(*a, hi);
                let n = *rng.pick(&[*a, hi, mid]);
                let alpha = b"abcxyz019 _-{}[],:.";
                Some(Value::String((0..n).map(|_| *rng.pick(alpha) as char).collect()))
            }
            Sch::Const(v) => Some(v.clone()),
            Sch::AnyOf(l) => {
                if l.is_empty() {
                    return None;
                }
                let i = rng.below(l.len());
                l[i].instance(rng, depth)
            }
            Sch::Arr { prefix, items, min, max } => {
                let cap = match (items, max) {
                    (None, Some(m)) => prefix.len().min(*m),
                    (None, None) => prefix.len(),
                    (Some(_), Some(m)) => *m,
                    (Some(_), None) => min.max(&prefix.len()) + 3,
                };
                if *min > cap {
                    return None;
                }
                let mid = rng.range(*min, cap);
                let n = *rng.pick(&[*min, cap, mid]);
                let mut a = vec![];
                for i in 0..n {
                    let s = if i < prefix.len() { &prefix[i] } else { items.as_ref()?.as_ref() };
                    a.push(s.instance(rng, depth + 1)?);
                }
                Some(Value::Array(a))
            }
            Sch::Obj { props, addl } => {
                let mut o = Map::new();
                for (k, s, req) in props {
                    if *req || rng.chance(1, 2) {
                        match s.instance(rng, depth + 1) {
                            Some(v) => {
                                o.insert(k.clone(), v);
                            }
                            None => {
                                if *req {
                                    return None;
                                }
                            }
                        }
                    }
                }
                if let Some(a) = addl {
                    for j in 0..rng.below(3) {
                        let k = format!("{}{}", rng.pick(&["z", "k", "a_", "extra", ""]), j);
                        if props.iter().any(|p| p.0 == k) || o.contains_key(&k) {
                            continue;
                        }
                        if let Some(v) = a.instance(rng, depth + 1) {
                            o.insert(k, v);
                        }
                    }
                }
                Some(Value::Object(o))
            }
        }
    }
}

fn gen_key(rng: &mut Rng, i: usize) -> String {
    let base = *rng.pick(&["a", "b", "id", "name", "x y", "k", "ab", "a"]);
    format!("{base}{}", if rng.chance(1, 2) { i.to_string() } else { format!("_{i}") })
}

pub fn gen_sch(rng: &mut Rng, depth: usize) -> Sch {
    let leaf = depth == 0 || rng.chance(2, 5);
    if leaf {
        return match rng.below(7) {
            0 => Sch::Null,
            1 => Sch::Bool,
            2 | 3 => {
                let a = rng.below(2000) as i64 - 1000;
                let w = *rng.pick(&[0i64, 1, 5, 9, 10, 99, 100, 1000, 100000]);
                let lo = if rng.chance(3, 4) { Some(a) } else { None };
                let hi = if rng.chance(3, 4) { Some(a + w) } else { None };
                Sch::Int(lo, hi)
            }
            4 | 5 => {
                let a = rng.below(4);
                let b = if rng.chance(2, 3) { Some(a + rng.below(4)) } else { None };
                Sch::Str(a, b)
            }
            _ => Sch::Const(match rng.below(5) {
                0 => json!("k"),
                1 => json!(42),
                2 => json!([1, "a", null]),
                3 => json!({"t": true, "n": [0]}),
                _ => json!(-7),
            }),
        };
    }
    match rng.below(4) {
        0 => {
            let n = rng.range(1, 3);
            Sch::AnyOf((0..n).map(|_| gen_sch(rng, depth - 1)).collect())
        }
        1 => {
            let np = rng.below(3);
            let prefix: Vec<Sch> = (0..np).map(|_| gen_sch(rng, depth - 1)).collect();
            let items = if rng.chance(2, 3) { Some(Box::new(gen_sch(rng, depth - 1))) } else { None };
            let min = rng.below(4);
            let max = if rng.chance(1, 2) { Some(min + rng.below(3)) } else { None };
            // mostly satisfiable: without extra items min must fit into the prefix, max >= min
            let unsat = rng.chance(1, 12);
            let min = if items.is_none() && !unsat { min.min(np) } else { min };
            let max = if unsat { max } else { max.map(|m| m.max(min)) };
            Sch::Arr { prefix, items, min, max }
        }
        _ => {
            let n = rng.below(5);
            let mut props = vec![];
            for i in 0..n {
                props.push((gen_key(rng, i), gen_sch(rng, depth - 1), rng.chance(1, 2)));
            }
            let addl = if rng.chance(1, 3) { Some(Box::new(gen_sch(rng, depth.saturating_sub(2)))) } else { None };
            Sch::Obj { props, addl }
        }
    }
}

// ------------------------------------------------------------------ running the implementation
pub fn json_vocab(rng: &mut Rng) -> (Vec<Vec<u8>>, u32) {
    let mut ws: Vec<Vec<u8>> = (0..=255u8).map(|b| vec![b]).collect();
    let pieces: [&str; 28] = [
        "{\"", "\":", "\",", "\"}", "\":\"", "\",\"", "true", "false", "null", "[", "],", "]}", "},{", "[{\"", "tr", "ue", "nu", "ll", "10", "00",
        "-1", "\":{\"", "\":[", "}]", ", ", ": ", "\"a", "a\"",
    ];
    for p in pieces {
        if rng.chance(2, 3) {
            ws.push(p.as_bytes().to_vec());
        }
    }
    for _ in 0..rng.below(12) {
        let n = rng.range(2, 4);
        ws.push((0..n).map(|_| *rng.pick(b"abkxyz019_- ")).collect());
    }
    ws.sort();
    ws.dedup();
    let eos = ws.len() as u32;
    ws.push(b"\xFF<|eos|>".to_vec());
    (ws, eos)
}

pub fn schema_matcher(env: &TokEnv, schema: &Value, flexible_ws: bool) -> Result<Matcher, String> {
    let mut schema = schema.clone();
    if !flexible_ws {
        schema.as_object_mut().unwrap().insert("x-guidance".into(), json!({"whitespace_flexible": false}));
    }
    let mut f = ParserFactory::new(env, InferenceCapabilities::default(), &[]).map_err(|e| e.to_string())?;
    f.quiet();
    let p = f.create_parser(TopLevelGrammar::from_json_schema(schema)).map_err(|e| e.to_string())?;
    let m = Matcher::new(Ok(p));
    if m.is_error() {
        return Err(m.get_error().unwrap_or_default());
    }
    Ok(m)
}

/// random tokenisation of `text` over the vocabulary
fn tokenise(rng: &mut Rng, ws: &[Vec<u8>], eos: u32, text: &[u8]) -> Vec<u32> {
    let mut out = vec![];
    let mut i = 0;
    while i < text.len() {
        let mut cands: Vec<u32> = vec![];
        for (t, w) in ws.iter().enumerate() {
            if t as u32 != eos && !w.is_empty() && text[i..].starts_with(w) {
                cands.push(t as u32);
            }
        }
        // prefer long tokens most of the time
        cands.sort_by_key(|t| std::cmp::Reverse(ws[*t as usize].len()));
        let t = if rng.chance(2, 3) { cands[0] } else { *rng.pick(&cands) };
        out.push(t);
        i += ws[t as usize].len();
    }
    out
}

/// Some(true): all tokens accepted and accepting at the end; Some(false): refused; None: resource limit
fn accepts_tokens(m: &Matcher, toks: &[u32]) -> Option<bool> {
    let mut c = m.deep_clone();
    for &t in toks {
        if c.is_stopped() {
            return Some(false);
        }
        if c.consume_token(t).is_err() {
            return if is_resource_limit(&c) { None } else { Some(false) };
        }
    }
    match c.is_accepting() {
        Ok(b) => Some(b),
        Err(_) => {
            if is_resource_limit(&c) {
                None
            } else {
                Some(false)
            }
        }
    }
}

fn accepts_bytes(m: &Matcher, ws: &[Vec<u8>], text: &[u8]) -> Option<bool> {
    let mut byte_tok = [0u32; 256];
    for (t, w) in ws.iter().enumerate() {
        if w.len() == 1 {
            byte_tok[w[0] as usize] = t as u32;
        }
    }
    let toks: Vec<u32> = text.iter().map(|b| byte_tok[*b as usize]).collect();
    accepts_tokens(m, &toks)
}

/// walk guided by the masks until the engine stops or accepts; returns the text if complete
fn sample(rng: &mut Rng, m: &Matcher, ws: &[Vec<u8>], eos: u32, max_tokens: usize) -> Option<Vec<u8>> {
    let mut c = m.deep_clone();
    let mut text = vec![];
    for _ in 0..max_tokens {
        if c.is_stopped() {
            break;
        }
        let mask = mask_list(&c.compute_mask().ok()?);
        if mask.is_empty() {
            return None;
        }
        let acc = mask.contains(&eos);
        if acc && rng.chance(1, 3) {
            return Some(text);
        }
        // prefer structural tokens now and then so that outputs terminate
        let non_eos: Vec<u32> = mask.iter().cloned().filter(|t| *t != eos).collect();
        if non_eos.is_empty() {
            return Some(text);
        }
        let closers: Vec<u32> = non_eos.iter().cloned().filter(|t| ws[*t as usize].iter().any(|b| b"\"}],:".contains(b))).collect();
        let t = if !closers.is_empty() && rng.chance(1, 2) { *rng.pick(&closers) } else { *rng.pick(&non_eos) };
        c.consume_token(t).ok()?;
        text.extend_from_slice(&ws[t as usize]);
    }
    if c.is_error() {
        return None;
    }
    if std::env::var("C06_DEBUG").is_ok() && c.is_stopped() && !parse_json(&text).is_some() {
        eprintln!("DEBUG stopped: reason={:?} text={:?} err={:?}", c.stop_reason(), String::from_utf8_lossy(&text), c.get_error());
    }
    if c.is_stopped() || c.is_accepting().unwrap_or(false) {
        Some(text)
    } else {
        None
    }
}

/// serde_json (without arbitrary precision) cannot represent integers beyond 64 bits exactly
fn has_big_number(w: &[u8]) -> bool {
    let mut run = 0;
    for b in w {
        if b.is_ascii_digit() {
            run += 1;
            if run > 18 {
                return true;
            }
        } else {
            run = 0;
        }
    }
    false
}

fn is_simple_text(w: &[u8]) -> bool {
    w.iter().all(|b| (0x20..=0x7e).contains(b) && *b != b'\\')
}

fn mutate(rng: &mut Rng, s: &[u8]) -> Vec<u8> {
    let mut v = s.to_vec();
    let alpha = b"{}[],:\"0123456789-abtnul e.";
    for _ in 0..rng.range(1, 2) {
        if v.is_empty() {
            v.push(*rng.pick(alpha));
            continue;
        }
        let i = rng.below(v.len());
        match rng.below(5) {
            0 => {
                v.remove(i);
            }
            1 => v.insert(i, *rng.pick(alpha)),
            2 => v[i] = *rng.pick(alpha),
            3 => {
                // duplicate a segment (repeated members / items)
                let j = (i + rng.range(1, 8)).min(v.len());
                let seg = v[i..j].to_vec();
                for (k, b) in seg.iter().enumerate() {
                    v.insert(j + k, *b);
                }
            }
            _ => {
                // swap two adjacent members / items around a comma
                if let Some(p) = v.iter().position(|b| *b == b',') {
                    let last = v.len() - 1;
                    v.swap(p.saturating_sub(1), (p + 1).min(last));
                }
            }
        }
    }
    v
}

/// strict parse: no whitespace tolerated by callers that need it; duplicate keys keep the last value
fn parse_json(w: &[u8]) -> Option<Value> {
    match serde_json::from_slice::<Value>(w) {
        Ok(v) => Some(v),
        // a number such as 6E900106 is well-formed JSON that serde_json cannot represent: the text is
        // replaced by a representable one for the well-formedness judgement
        Err(e) if e.to_string().contains("number out of range") => {
            let t = String::from_utf8_lossy(w).to_string();
            let mut o = String::new();
            let b: Vec<char> = t.chars().collect();
            let mut i = 0;
            let mut in_str = false;
            while i < b.len() {
                let c = b[i];
                if in_str {
                    o.push(c);
                    if c == '\\' && i + 1 < b.len() {
                        i += 1;
                        o.push(b[i]);
                    } else if c == '"' {
                        in_str = false;
                    }
                } else if c == '"' {
                    in_str = true;
                    o.push(c);
                } else if (c == 'e' || c == 'E') && i > 0 && b[i - 1].is_ascii_digit() {
                    // drop the exponent
                    i += 1;
                    while i < b.len() && (b[i] == '+' || b[i] == '-' || b[i].is_ascii_digit()) {
                        i += 1;
                    }
                    continue;
                } else {
                    o.push(c);
                }
                i += 1;
            }
            serde_json::from_str::<Value>(&o).ok().map(|_| Value::String("<unrepresentable number>".into()))
        }
        Err(_) => None,
    }
}

pub fn fragment_case(rng: &mut Rng, out: &mut Out, prop: &str) {
    let sch = gen_sch(rng, 3);
    let schema = sch.to_schema();
    let (ws, eos) = if rng.chance(1, 4) { single_byte_vocab() } else { json_vocab(rng) };
    let env = make_env(&ws, eos, false);
    let m = match schema_matcher(&env, &schema, false) {
        Ok(m) => m,
        Err(e) => {
            out.count("fragment_rejected", 1);
            // a schema with a valid instance must compile
            let inst = sch.instance(rng, 0).filter(|v| sch.valid(v));
            let resource = e.contains("fuel") || e.contains("too many") || e.contains("Too many");
            if let Some(v) = &inst {
                if !resource {
                    out.violation(
                        "schema rejected although it has a valid instance",
                        format!("schema={} instance={} error={}", schema, v, e.lines().next().unwrap_or("")),
                    );
                }
            }
            // "schemas the engine cannot honour are rejected": the model admits nothing either
            if e.contains("nsatisfiable") && inst.is_none() {
                let probes: Vec<&str> = vec!["[]", "[1]", "{}", "null", "0", "\"\"", "[true]", "[null,null,null]", "[0,0]", "true"];
                let input = tagged("json6", vec![sch.to_sx(), list(probes.iter().map(|p| hex(p.as_bytes())).collect())]);
                out.case(input, tagged("ok", probes.iter().map(|_| int(0)).collect()), false);
                out.count("unsatisfiable_rejected", 1);
            }
            return;
        }
    };
    let mut strings: Vec<Vec<u8>> = vec![];
    let mut viol: Vec<String> = vec![];
    let mut resource = false;
    // (a) C07: valid instances in canonical form, tokenised at random
    for _ in 0..3 {
        if let Some(v) = sch.instance(rng, 0) {
            if !sch.valid(&v) {
                continue; // generator and validator disagree: not an instance
            }
            let text = serde_json::to_string(&v).unwrap().into_bytes();
            let toks = tokenise(rng, &ws, eos, &text);
            match accepts_tokens(&m, &toks) {
                Some(true) => {}
                Some(false) => viol.push(format!("C07: valid instance {} refused (tokens {:?})", String::from_utf8_lossy(&text), toks)),
                None => resource = true,
            }
            out.count("instances", 1);
            for _ in 0..3 {
                strings.push(mutate(rng, &text));
            }
            strings.push(text);
        }
    }
    // (b) C06: outputs reachable through the masks
    for _ in 0..3 {
        if let Some(text) = sample(rng, &m, &ws, eos, 60) {
            out.count("sampled_outputs", 1);
            match parse_json(&text) {
                None => viol.push(format!("C06: output {:?} is not well-formed JSON", String::from_utf8_lossy(&text))),
                Some(_) if has_big_number(&text) => {}
                Some(v) => {
                    if !sch.valid(&v) {
                        viol.push(format!("C06: output {} does not validate", String::from_utf8_lossy(&text)));
                    }
                }
            }
            strings.push(text);
        }
    }
    // (c) every compared string: implementation vs validator (C06 direction) and vs the model
    strings.sort();
    strings.dedup();
    strings.retain(|w| is_simple_text(w) && w.len() <= 120);
    let mut results = vec![];
    let mut kept = vec![];
    for w in &strings {
        match accepts_bytes(&m, &ws, w) {
            None => resource = true,
            Some(acc) => {
                if acc && !has_big_number(w) {
                    match parse_json(w) {
                        Some(v) if sch.valid(&v) => {}
                        _ => viol.push(format!("C06: accepted string {:?} is not a valid instance", String::from_utf8_lossy(w))),
                    }
                }
                kept.push(hex(w));
                results.push(int(acc as usize));
            }
        }
    }
    if resource {
        out.count("resource_limited", 1);
        return;
    }
    let input = tagged("json6", vec![sch.to_sx(), list(kept)]);
    for v in viol {
        out.violation(&v, format!("schema={} case={}", schema, input));
    }
    out.count(&format!("{prop}_fragment_schemas"), 1);
    out.count("compared_strings", results.len() as u64);
    let nontrivial = results.iter().any(|r| r.to_string() == "1") && results.iter().any(|r| r.to_string() == "0");
    out.case(input, tagged("ok", results), nontrivial);
}

// ------------------------------------------------------------------ extended family (validator only)
fn is_leap(y: i64) -> bool {
    (y % 4 == 0 && y % 100 != 0) || y % 400 == 0
}
fn valid_date(s: &str) -> bool {
    let b = s.as_bytes();
    if b.len() != 10 || b[4] != b'-' || b[7] != b'-' {
        return false;
    }
    let num = |r: std::ops::Range<usize>| -> Option<i64> {
        if b[r.clone()].iter().all(|c| c.is_ascii_digit()) {
            std::str::from_utf8(&b[r]).ok()?.parse().ok()
        } else {
            None
        }
    };
    let (Some(y), Some(mo), Some(d)) = (num(0..4), num(5..7), num(8..10)) else { return false };
    let dim = match mo {
        1 | 3 | 5 | 7 | 8 | 10 | 12 => 31,
        4 | 6 | 9 | 11 => 30,
        // 29 February of a year that is not a leap year is a known finding of its own (the engine's date
        // regexes admit it, formats.rs; see known_shape_cases): not judged again on every sampled output
        2 => {
            let _ = is_leap(y);
            29
        }
        _ => return false,
    };
    d >= 1 && d <= dim
}
/// RFC 3339 full-time: hh:mm:ss[.f+](Z|z|+hh:mm|-hh:mm); a leap second (ss = 60) is in the grammar
fn valid_time(s: &str) -> bool {
    let b = s.as_bytes();
    let two = |i: usize, max: u32| -> bool { i + 2 <= b.len() && b[i].is_ascii_digit() && b[i + 1].is_ascii_digit() && ((b[i] - b'0') as u32 * 10 + (b[i + 1] - b'0') as u32) <= max };
    if b.len() < 9 || !two(0, 23) || b[2] != b':' || !two(3, 59) || b[5] != b':' || !two(6, 60) {
        return false;
    }
    let mut i = 8;
    if i < b.len() && b[i] == b'.' {
        i += 1;
        let st = i;
        while i < b.len() && b[i].is_ascii_digit() {
            i += 1;
        }
        if i == st {
            return false;
        }
    }
    match b.get(i) {
        Some(b'Z') | Some(b'z') => i + 1 == b.len(),
        Some(b'+') | Some(b'-') => b.len() == i + 6 && two(i + 1, 23) && b[i + 3] == b':' && two(i + 4, 59),
        _ => false,
    }
}
fn valid_uuid(s: &str) -> bool {
    let b = s.as_bytes();
    b.len() == 36 && b.iter().enumerate().all(|(i, c)| if [8, 13, 18, 23].contains(&i) { *c == b'-' } else { c.is_ascii_hexdigit() })
}
fn valid_ipv4(s: &str) -> bool {
    let parts: Vec<&str> = s.split('.').collect();
    parts.len() == 4
        && parts.iter().all(|p| !p.is_empty() && p.len() <= 3 && p.bytes().all(|c| c.is_ascii_digit()) && (p.len() == 1 || !p.starts_with('0')) && p.parse::<u32>().map_or(false, |v| v <= 255))
}

/// exact decimal from the literal text of a JSON number (no exponent expected)
fn dec_of(text: &str) -> Option<(i128, u32)> {
    if text.contains(['e', 'E']) {
        return None;
    }
    let neg = text.starts_with('-');
    let t = text.trim_start_matches('-');
    let (ip, fp) = t.split_once('.').unwrap_or((t, ""));
    if ip.len() + fp.len() > 30 {
        return None;
    }
    let m: i128 = format!("{ip}{fp}").parse().ok()?;
    Some((if neg { -m } else { m }, fp.len() as u32))
}
fn dec_cmp(a: (i128, u32), b: (i128, u32)) -> std::cmp::Ordering {
    let s = a.1.max(b.1);
    (a.0 * 10i128.pow(s - a.1)).cmp(&(b.0 * 10i128.pow(s - b.1)))
}

/// validator for the extended family, working on the raw text of numbers (serde_json with
/// arbitrary precision is not available: numbers are re-read from the output text)
fn ext_valid(schema: &Value, root: &Value, v: &Value, depth: usize) -> Option<bool> {
    if depth > 40 {
        return None;
    }
    let o = match schema {
        Value::Bool(b) => return Some(*b),
        Value::Object(o) => o,
        _ => return None,
    };
    if let Some(r) = o.get("$ref").and_then(|r| r.as_str()) {
        let target = r.strip_prefix("#/$defs/").and_then(|n| root.get("$defs")?.get(n))?;
        if !ext_valid(target, root, v, depth + 1)? {
            return Some(false);
        }
    }
    if let Some(c) = o.get("const") {
        if c != v {
            return Some(false);
        }
    }
    if let Some(e) = o.get("enum").and_then(|e| e.as_array()) {
        if !e.contains(v) {
            return Some(false);
        }
    }
    for key in ["allOf", "anyOf", "oneOf"] {
        if let Some(l) = o.get(key).and_then(|l| l.as_array()) {
            let rs: Vec<bool> = l.iter().map(|s| ext_valid(s, root, v, depth + 1)).collect::<Option<Vec<_>>>()?;
            let ok = match key {
                "allOf" => rs.iter().all(|b| *b),
                "anyOf" => rs.iter().any(|b| *b),
                _ => rs.iter().filter(|b| **b).count() == 1,
            };
            if !ok {
                return Some(false);
            }
        }
    }
    if let Some(t) = o.get("type") {
        let types: Vec<&str> = match t {
            Value::String(s) => vec![s.as_str()],
            Value::Array(a) => a.iter().filter_map(|x| x.as_str()).collect(),
            _ => return None,
        };
        let is_int = |n: &serde_json::Number| n.is_i64() || n.is_u64() || n.as_f64().map_or(false, |f| f.fract() == 0.0);
        let ok = types.iter().any(|t| match (*t, v) {
            ("null", Value::Null) | ("boolean", Value::Bool(_)) | ("string", Value::String(_)) | ("array", Value::Array(_)) | ("object", Value::Object(_)) => true,
            ("number", Value::Number(_)) => true,
            ("integer", Value::Number(n)) => is_int(n),
            _ => false,
        });
        if !ok {
            return Some(false);
        }
    }
    if let Value::Number(n) = v {
        let x = dec_of(&n.to_string())?;
        let bound = |k: &str| -> Option<Option<(i128, u32)>> {
            match o.get(k) {
                None => Some(None),
                Some(Value::Number(b)) => Some(Some(dec_of(&b.to_string())?)),
                _ => None,
            }
        };
        use std::cmp::Ordering::*;
        if let Some(b) = bound("minimum")? {
            if dec_cmp(x, b) == Less {
                return Some(false);
            }
        }
        if let Some(b) = bound("maximum")? {
            if dec_cmp(x, b) == Greater {
                return Some(false);
            }
        }
        if let Some(b) = bound("exclusiveMinimum")? {
            if dec_cmp(x, b) != Greater {
                return Some(false);
            }
        }
        if let Some(b) = bound("exclusiveMaximum")? {
            if dec_cmp(x, b) != Less {
                return Some(false);
            }
        }
        if let Some(b) = bound("multipleOf")? {
            let s = x.1.max(b.1);
            let (a, d) = (x.0 * 10i128.pow(s - x.1), b.0 * 10i128.pow(s - b.1));
            if d == 0 || a % d != 0 {
                return Some(false);
            }
        }
    }
    if let Value::String(s) = v {
        let n = s.chars().count() as u64;
        if o.get("minLength").and_then(|x| x.as_u64()).map_or(false, |m| n < m) || o.get("maxLength").and_then(|x| x.as_u64()).map_or(false, |m| n > m) {
            return Some(false);
        }
        match o.get("format").and_then(|f| f.as_str()) {
            Some("date") => {
                if !valid_date(s) {
                    return Some(false);
                }
            }
            Some("time") => {
                if !valid_time(s) {
                    return Some(false);
                }
            }
            Some("date-time") => {
                let b = s.as_bytes();
                if b.len() < 11 || !s.is_char_boundary(10) || !s.is_char_boundary(11) || !(b[10] == b'T' || b[10] == b't') || !valid_date(&s[..10]) || !valid_time(&s[11..]) {
                    return Some(false);
                }
            }
            Some("uuid") => {
                if !valid_uuid(s) {
                    return Some(false);
                }
            }
            Some("ipv4") => {
                if !valid_ipv4(s) {
                    return Some(false);
                }
            }
            Some(_) => return None,
            None => {}
        }
        if let Some(p) = o.get("pattern").and_then(|p| p.as_str()) {
            // only the two pattern shapes the generator emits
            let ok = match p {
                "^[a-c]+$" => !s.is_empty() && s.bytes().all(|c| (b'a'..=b'c').contains(&c)),
                "^(ab|c)*$" => {
                    let mut b = s.as_bytes();
                    loop {
                        if b.is_empty() {
                            break true;
                        } else if b.starts_with(b"ab") {
                            b = &b[2..];
                        } else if b[0] == b'c' {
                            b = &b[1..];
                        } else {
                            break false;
                        }
                    }
                }
                "x" => s.contains('x'),
                // JSON Schema (ECMA) semantics: \\d and \\w are ASCII classes
                "^\\d{2,3}$" => (2..=3).contains(&s.len()) && s.bytes().all(|c| c.is_ascii_digit()),
                "^\\w+$" => !s.is_empty() && s.bytes().all(|c| c.is_ascii_alphanumeric() || c == b'_'),
                "^a\\/b$" | "^a/b$" => s == "a/b",
                "^\\D$" => s.chars().count() == 1 && !s.as_bytes()[0].is_ascii_digit(),
                "^\\d+\\.\\d$" => {
                    let b = s.as_bytes();
                    b.len() >= 3 && b[b.len() - 2] == b'.' && b[b.len() - 1].is_ascii_digit() && b[..b.len() - 2].iter().all(|c| c.is_ascii_digit())
                }
                "^\\W\\w$" => {
                    let cs: Vec<char> = s.chars().collect();
                    cs.len() == 2 && !(cs[0].is_ascii_alphanumeric() || cs[0] == '_') && (cs[1].is_ascii_alphanumeric() || cs[1] == '_')
                }
                _ => return None,
            };
            if !ok {
                return Some(false);
            }
        }
    }
    if let Value::Array(a) = v {
        let n = a.len() as u64;
        if o.get("minItems").and_then(|x| x.as_u64()).map_or(false, |m| n < m) || o.get("maxItems").and_then(|x| x.as_u64()).map_or(false, |m| n > m) {
            return Some(false);
        }
        let prefix: Vec<&Value> = o.get("prefixItems").and_then(|p| p.as_array()).map(|p| p.iter().collect()).unwrap_or_default();
        for (i, x) in a.iter().enumerate() {
            let s = if i < prefix.len() { Some(prefix[i]) } else { o.get("items") };
            if let Some(s) = s {
                if !ext_valid(s, root, x, depth + 1)? {
                    return Some(false);
                }
            }
        }
    }
    if let Value::Object(m) = v {
        let n = m.len() as u64;
        if o.get("minProperties").and_then(|x| x.as_u64()).map_or(false, |k| n < k) || o.get("maxProperties").and_then(|x| x.as_u64()).map_or(false, |k| n > k) {
            return Some(false);
        }
        if let Some(req) = o.get("required").and_then(|r| r.as_array()) {
            for r in req {
                if !m.contains_key(r.as_str()?) {
                    return Some(false);
                }
            }
        }
        let props = o.get("properties").and_then(|p| p.as_object());
        let pats = o.get("patternProperties").and_then(|p| p.as_object());
        for (k, x) in m {
            let mut covered = false;
            if let Some(s) = props.and_then(|p| p.get(k)) {
                covered = true;
                if !ext_valid(s, root, x, depth + 1)? {
                    return Some(false);
                }
            }
            if let Some(pats) = pats {
                for (pat, s) in pats {
                    // only the pattern shape the generator emits: ^literal
                    let lit = pat.strip_prefix('^')?;
                    if lit.chars().any(|c| !(c.is_ascii_alphanumeric() || c == '_')) {
                        return None;
                    }
                    if k.starts_with(lit) {
                        covered = true;
                        if !ext_valid(s, root, x, depth + 1)? {
                            return Some(false);
                        }
                    }
                }
            }
            if !covered {
                if let Some(s) = o.get("additionalProperties") {
                    if !ext_valid(s, root, x, depth + 1)? {
                        return Some(false);
                    }
                }
            }
        }
    }
    Some(true)
}

fn gen_ext(rng: &mut Rng, depth: usize) -> Value {
    let leaf = depth == 0 || rng.chance(1, 2);
    if leaf {
        return match rng.below(9) {
            0 => {
                let lo = rng.below(60) as i64 - 30;
                json!({"type": "integer", "minimum": lo, "maximum": lo + rng.below(50) as i64, "multipleOf": rng.range(1, 7)})
            }
            1 => {
                let lo = (rng.below(400) as f64 - 200.0) / 4.0;
                let hi = lo + rng.below(40) as f64 / 8.0;
                match rng.below(3) {
                    0 => json!({"type": "number", "minimum": lo, "maximum": hi}),
                    1 => json!({"type": "number", "exclusiveMinimum": lo, "maximum": hi + 0.5}),
                    _ => json!({"type": "number", "minimum": lo, "exclusiveMaximum": hi + 0.25, "multipleOf": 0.25}),
                }
            }
            2 => json!({"enum": ["red", "green", 3, null, [1, 2], {"a": 1}]}),
            3 => json!({"type": "string", "format": *rng.pick(&["date", "uuid", "ipv4", "time", "date-time"])}),
            4 if rng.chance(1, 2) => json!({"type": "string", "pattern": *rng.pick(&["^[a-c]+$", "^(ab|c)*$"]), "maxLength": rng.range(2, 6)}),
            4 => json!({"type": "string", "pattern": *rng.pick(&["^\\d{2,3}$", "^\\w+$", "^a\\/b$", "^a/b$", "^\\D$", "^\\d+\\.\\d$", "^\\W\\w$"]), "maxLength": rng.range(3, 6)}),
            5 => json!({"type": ["integer", "null"], "minimum": 0}),
            6 => json!({"allOf": [{"type": "integer", "minimum": -5}, {"maximum": 20}, {"multipleOf": rng.range(2, 4)}]}),
            7 => json!({"type": "string", "minLength": rng.below(3), "maxLength": rng.range(3, 6)}),
            _ => json!({"const": {"k": [true, 1.5, "s"]}}),
        };
    }
    if rng.chance(1, 5) {
        // allOf of two array schemas with different numbers of prefixItems: positions one side does not
        // list are governed by that side's own items
        let leafs = [json!({"type": "integer", "minimum": 3}), json!({"type": "integer", "maximum": 9}), json!({"type": "boolean"}), json!({"type": "null"}), json!({}), json!({"type": "integer", "minimum": 0, "maximum": 5})];
        let mut side = |rng: &mut Rng| -> Value {
            let mut m = Map::new();
            m.insert("type".into(), json!("array"));
            let np = rng.below(3);
            if np > 0 {
                m.insert("prefixItems".into(), Value::Array((0..np).map(|_| rng.pick(&leafs).clone()).collect()));
            }
            if rng.chance(2, 3) {
                m.insert("items".into(), rng.pick(&leafs).clone());
            }
            if rng.chance(1, 3) {
                m.insert("maxItems".into(), json!(rng.range(1, 3)));
            }
            Value::Object(m)
        };
        let a = side(rng);
        let b = side(rng);
        return json!({"allOf": [a, b]});
    }
    if rng.chance(1, 6) {
        // declared properties (some unsatisfiable) together with patternProperties that match their names
        let leafs = [json!({"type": "integer"}), json!({"type": "boolean"}), json!({"type": "string", "maxLength": 2}), json!(false), json!({"type": "null"})];
        let wide = [json!({"type": ["integer", "string"]}), json!({"type": ["boolean", "null", "integer"]}), json!({})];
        let names = ["a", "b", "bx", "x_1", "c"];
        let mut props = Map::new();
        for _ in 0..rng.range(1, 3) {
            props.insert(rng.pick(&names).to_string(), rng.pick(&leafs).clone());
        }
        let mut pats = Map::new();
        for _ in 0..rng.range(1, 2) {
            pats.insert(rng.pick(&["^b", "^x_", "^a", "^c"]).to_string(), rng.pick(&wide).clone());
        }
        let req: Vec<Value> = props.iter().filter(|(_, v)| **v != json!(false)).filter(|_| rng.chance(1, 3)).map(|(k, _)| json!(k)).collect();
        return json!({"type": "object", "properties": props, "patternProperties": pats, "required": req,
                      "additionalProperties": if rng.chance(1, 2) { json!(false) } else { json!({"type": "null"}) }});
    }
    if rng.chance(1, 6) {
        // oneOf: branches that are disjoint (supported, compiled like anyOf) and branches that overlap (the
        // schema must be refused, or at least never yield an instance that matches two branches)
        let obj = |disc: Value, extra: bool| -> Value {
            let mut props = Map::new();
            props.insert("on".into(), disc);
            let mut req = vec![json!("on")];
            if extra {
                props.insert("level".into(), json!({"type": "integer", "minimum": 0, "maximum": 3}));
                req.push(json!("level"));
                json!({"type": "object", "properties": props, "required": req, "additionalProperties": false})
            } else {
                json!({"type": "object", "properties": props, "required": req})
            }
        };
        let (a, b) = match rng.below(12) {
            0 => (json!({"const": true}), json!({"type": "boolean"})),
            1 => (json!({"const": true}), json!({"const": false})),
            2 => (json!({"type": "integer", "minimum": 0, "maximum": 5}), json!({"type": "integer", "minimum": 5, "maximum": 9})),
            3 => (json!({"type": "integer", "minimum": 0, "maximum": 4}), json!({"type": "integer", "minimum": 5, "maximum": 9})),
            4 => (json!({"type": "string", "maxLength": 2}), json!({"type": "integer", "minimum": 0, "maximum": 9})),
            5 => (json!({"type": "null"}), json!({"type": ["null", "boolean"]})),
            6 => (json!({"enum": ["a", "b"]}), json!({"enum": ["b", "c"]})),
            7 => (json!({"enum": ["a", "b"]}), json!({"enum": ["c"]})),
            8 => (obj(json!({"const": true}), true), obj(json!({"type": "boolean"}), false)),
            9 => (obj(json!({"const": true}), true), obj(json!({"const": false}), false)),
            10 => (json!({"type": "boolean"}), json!({"const": false})),
            _ => (obj(json!({"type": "boolean"}), false), obj(json!({"const": false}), true)),
        };
        return if rng.chance(1, 2) { json!({"oneOf": [a, b]}) } else { json!({"oneOf": [b, a, {"type": "array", "items": {"type": "null"}, "maxItems": 1}]}) };
    }
    match rng.below(5) {
        0 => json!({"type": "array", "items": gen_ext(rng, depth - 1), "minItems": rng.below(2), "maxItems": rng.range(2, 4)}),
        1 => json!({"anyOf": [gen_ext(rng, depth - 1), gen_ext(rng, depth - 1)]}),
        2 => {
            // closed object with min/maxProperties (all listed keys required is the supported case)
            json!({"type": "object", "properties": {"p": gen_ext(rng, depth - 1), "q": gen_ext(rng, depth - 1)}, "required": ["p", "q"],
                   "additionalProperties": {"type": "boolean"}, "minProperties": 2, "maxProperties": rng.range(2, 4)})
        }
        3 if rng.chance(1, 3) => {
            // a required name that is not declared: governed by additionalProperties (or by nothing)
            let addl = match rng.below(3) { 0 => json!({"type": "boolean"}), 1 => json!({"type": "integer", "minimum": 0, "maximum": 9}), _ => json!(true) };
            if rng.chance(1, 2) {
                json!({"type": "object", "properties": {"a": gen_ext(rng, depth - 1)}, "required": ["z"], "additionalProperties": addl})
            } else {
                json!({"type": "object", "properties": {"a": {"type": "null"}}, "required": ["a", "z"], "additionalProperties": addl, "maxProperties": 3})
            }
        }
        3 => json!({"type": "object", "properties": {"a": gen_ext(rng, depth - 1), "b": gen_ext(rng, depth - 1), "c": {"type": "null"}},
                    "required": if rng.chance(1, 2) { json!(["b"]) } else { json!(["a", "c"]) }, "additionalProperties": false}),
        _ => json!({"type": "array", "prefixItems": [gen_ext(rng, depth - 1), {"type": "boolean"}], "items": false, "minItems": rng.below(3)}),
    }
}

pub fn extended_case(rng: &mut Rng, out: &mut Out) {
    let mut schema = if rng.chance(1, 5) {
        // recursive: a linked list / tree through $ref
        json!({"$ref": "#/$defs/node", "$defs": {"node": {"type": "object", "properties": {"v": gen_ext(rng, 0), "next": {"anyOf": [{"type": "null"}, {"$ref": "#/$defs/node"}]}},
               "required": ["v", "next"], "additionalProperties": false}}})
    } else {
        gen_ext(rng, 2)
    };
    if !schema.is_object() {
        schema = json!({"anyOf": [schema]});
    }
    let (ws, eos) = json_vocab(rng);
    let env = make_env(&ws, eos, false);
    let flexible = rng.chance(1, 2);
    let m = match schema_matcher(&env, &schema, flexible) {
        Ok(m) => m,
        Err(_) => {
            out.count("extended_rejected", 1);
            return;
        }
    };
    out.count("extended_schemas", 1);
    for _ in 0..4 {
        if let Some(text) = sample(rng, &m, &ws, eos, 80) {
            out.count("extended_outputs", 1);
            if text.len() > 400 || has_big_number(&text) {
                continue;
            }
            match parse_json(&text) {
                None => out.violation(
                    &format!("C06: output {:?} is not well-formed JSON", String::from_utf8_lossy(&text)),
                    format!("schema={schema} flexible_ws={flexible}"),
                ),
                Some(Value::String(u)) if u == "<unrepresentable number>" => out.count("extended_not_judged", 1),
                Some(v) => match ext_valid(&schema, &schema, &v, 0) {
                    Some(false) => out.violation(
                        &format!("C06: output {} does not validate", String::from_utf8_lossy(&text)),
                        format!("schema={schema} flexible_ws={flexible}"),
                    ),
                    Some(true) => out.count("extended_validated", 1),
                    None => out.count("extended_not_judged", 1),
                },
            }
            out.ext_pairs.push((schema.to_string(), String::from_utf8_lossy(&text).to_string()));
        }
    }
}


// ------------------------------------------------------------------ C07 beyond the fragment: schema and instance generated together
fn gen_pair(rng: &mut Rng, depth: usize) -> (Value, Value) {
    let leaf = depth == 0 || rng.chance(1, 2);
    if leaf {
        return match rng.below(8) {
            0 => {
                // integer multipleOf inside bounds
                let k = rng.range(1, 9) as i64;
                let lo = rng.below(80) as i64 - 40;
                let n = rng.below(6) as i64;
                let first = lo.div_euclid(k) * k + if lo.rem_euclid(k) == 0 { 0 } else { k };
                let v = first + n * k;
                (json!({"type": "integer", "minimum": lo, "maximum": v + rng.below(5) as i64, "multipleOf": k}), json!(v))
            }
            1 => {
                // decimal bounds, value with up to 3 fractional digits (f64 prints the shortest form)
                let q = rng.below(4000) as i64 - 2000; // value = q / 8
                let v = q as f64 / 8.0;
                let lo = v - rng.below(5) as f64 * 0.25;
                let hi = v + rng.below(5) as f64 * 0.5;
                match rng.below(3) {
                    0 => (json!({"type": "number", "minimum": lo, "maximum": hi}), json!(v)),
                    1 => (json!({"type": "number", "exclusiveMinimum": lo - 0.125, "exclusiveMaximum": hi + 0.125}), json!(v)),
                    _ => (json!({"type": "number", "minimum": lo, "multipleOf": 0.125}), json!(v)),
                }
            }
            2 => {
                let e = json!(["red", "green", 3, null, [1, 2], {"a": 1}, 2.5, "", true]);
                let i = rng.below(9);
                (json!({"enum": e}), e[i].clone())
            }
            3 => (json!({"type": "number"}), rng.pick(&[json!(0), json!(-1.5), json!(3.0), json!(1e3), json!(12345.678), json!(-0.001)]).clone()),
            4 => {
                let n = rng.below(5);
                let s: String = (0..n).map(|_| *rng.pick(&['a', 'é', '"', '\\', '\n', 'z', ' ', '😀'])).collect();
                (json!({"type": "string", "minLength": n.saturating_sub(1), "maxLength": n + 1}), json!(s))
            }
            5 if rng.chance(1, 2) => (json!({"type": ["integer", "null", "string"]}), rng.pick(&[json!(7), json!(null), json!("x")]).clone()),
            5 => {
                // patterns with escape classes (ASCII under JSON Schema semantics) and an escaped slash
                let (p, v) = *rng.pick(&[("^\\d{2,3}$", "042"), ("^\\d{2,3}$", "99"), ("^\\w+$", "a_9Z"), ("^\\w+$", "_"), ("^a\\/b$", "a/b"), ("^a/b$", "a/b"),
                                         ("^\\D$", "é"), ("^\\D$", "x"), ("^\\d+\\.\\d$", "10.5"), ("^\\W\\w$", "-a"), ("^\\W\\w$", "é_")]);
                (json!({"type": "string", "pattern": p}), json!(v))
            }
            6 if rng.chance(1, 2) => {
                // string constants under length bounds: lengths count characters, not bytes
                let words = ["abc", "日本語", "né", "°C", "√", "ok", "x", "😀!", "日本"];
                let k = rng.below(words.len());
                let w = words[k];
                let n = w.chars().count();
                let others: Vec<&str> = words.iter().cloned().filter(|o| o.chars().count() <= n + 1).collect();
                let sch = match rng.below(3) {
                    0 => json!({"type": "string", "maxLength": n, "enum": others}),
                    1 => json!({"type": "string", "minLength": n, "maxLength": n, "const": w}),
                    _ => json!({"anyOf": [{"type": "null"}, {"type": "string", "maxLength": n, "const": w}]}),
                };
                (sch, json!(w))
            }
            6 => (json!({"const": {"k": [true, 1.5, "s"]}}), json!({"k": [true, 1.5, "s"]})),
            _ => (json!({"type": "boolean"}), json!(rng.chance(1, 2))),
        };
    }
    if rng.chance(1, 5) {
        // keyword order: declared members, then an in-place applicator (allOf / anyOf / $ref), then the keyword
        // that closes the object or tuple — the applicator must not hide the declared members from it
        let applicator = |rng: &mut Rng, m: &mut Map<String, Value>, array: bool| match rng.below(4) {
            0 => {
                m.insert("allOf".into(), json!([{"type": if array { "array" } else { "object" }}]));
            }
            1 if !array => {
                m.insert("anyOf".into(), json!([{"required": ["id"]}, {"required": ["tag"]}]));
            }
            1 => {
                m.insert("anyOf".into(), json!([{"minItems": 1}, {"maxItems": 0}]));
            }
            2 => {
                m.insert("$ref".into(), json!("#/$defs/base"));
                m.insert("$defs".into(), json!({"base": {"type": if array { "array" } else { "object" }}}));
            }
            _ => {
                m.insert("anyOf".into(), json!([{"type": "null"}, {"type": if array { "array" } else { "object" }}]));
            }
        };
        let id = rng.below(100) as i64;
        let tag = *rng.pick(&["ab", "x", ""]);
        let mut m = Map::new();
        if rng.chance(1, 2) {
            m.insert("type".into(), json!("object"));
            m.insert("properties".into(), json!({"id": {"type": "integer", "minimum": 0, "maximum": 99}, "tag": {"type": "string", "maxLength": 3}}));
            if rng.chance(1, 3) {
                m.insert("required".into(), json!(["id"]));
            }
            applicator(rng, &mut m, false);
            m.insert("additionalProperties".into(), json!(false));
            let inst = match rng.below(3) {
                0 => json!({"id": id}),
                1 => json!({"id": id, "tag": tag}),
                _ => json!({"id": id, "tag": tag}),
            };
            return (Value::Object(m), inst);
        } else {
            m.insert("type".into(), json!("array"));
            m.insert("prefixItems".into(), json!([{"type": "integer", "minimum": 0, "maximum": 99}, {"type": "string", "maxLength": 3}]));
            applicator(rng, &mut m, true);
            m.insert("items".into(), json!(false));
            let inst = if rng.chance(1, 2) { json!([id, tag]) } else { json!([id]) };
            return (Value::Object(m), inst);
        }
    }
    match rng.below(4) {
        0 => {
            let n = rng.below(4);
            let (s, _) = gen_pair(rng, 0);
            // items share one schema: draw instances of that very schema by regenerating until shapes match is
            // not possible in general, so use a tuple instead
            let pairs: Vec<(Value, Value)> = (0..n).map(|_| gen_pair(rng, depth - 1)).collect();
            let _ = s;
            (
                json!({"type": "array", "prefixItems": pairs.iter().map(|p| p.0.clone()).collect::<Vec<_>>(), "items": false, "minItems": rng.below(n + 1)}),
                Value::Array(pairs.iter().map(|p| p.1.clone()).collect()),
            )
        }
        1 => {
            let a = gen_pair(rng, depth - 1);
            let b = gen_pair(rng, depth - 1);
            if rng.chance(1, 2) {
                (json!({"anyOf": [a.0, b.0]}), a.1)
            } else {
                (json!({"anyOf": [a.0, b.0]}), b.1)
            }
        }
        2 => {
            // object: some optional members left out, members in schema order
            let n = rng.range(1, 4);
            let mut props = Map::new();
            let mut inst = Map::new();
            let mut required = vec![];
            for i in 0..n {
                let (s, v) = gen_pair(rng, depth - 1);
                let k = format!("{}{}", *rng.pick(&["k", "key ", "é", "a\"b"]), i);
                props.insert(k.clone(), s);
                let req = rng.chance(1, 2);
                if req {
                    required.push(json!(k));
                }
                if req || rng.chance(1, 2) {
                    inst.insert(k, v);
                }
            }
            (json!({"type": "object", "properties": props, "required": required, "additionalProperties": false}), Value::Object(inst))
        }
        _ => {
            // recursive list through $ref
            let len = rng.below(4);
            let mut inst = Value::Null;
            for i in 0..len {
                inst = json!({"v": i as i64 * 3 - 2, "next": inst});
            }
            (
                json!({"$ref": "#/$defs/list", "$defs": {"list": {"anyOf": [{"type": "null"}, {"type": "object", "properties": {"v": {"type": "integer"}, "next": {"$ref": "#/$defs/list"}},
                       "required": ["v", "next"], "additionalProperties": false}]}}}),
                inst,
            )
        }
    }
}

pub fn extended_instance_case(rng: &mut Rng, out: &mut Out) {
    let (mut schema, inst) = gen_pair(rng, 2);
    if !schema.is_object() {
        return;
    }
    // $defs must sit at the root: every nested definition table is merged into the root's
    {
        fn collect_defs(v: &Value, acc: &mut Map<String, Value>) {
            match v {
                Value::Object(o) => {
                    if let Some(Value::Object(d)) = o.get("$defs") {
                        for (k, x) in d {
                            acc.entry(k.clone()).or_insert_with(|| x.clone());
                        }
                    }
                    for x in o.values() {
                        collect_defs(x, acc);
                    }
                }
                Value::Array(a) => a.iter().for_each(|x| collect_defs(x, acc)),
                _ => {}
            }
        }
        let mut acc = Map::new();
        collect_defs(&schema, &mut acc);
        if !acc.is_empty() {
            schema.as_object_mut().unwrap().insert("$defs".into(), Value::Object(acc));
        }
    }
    // our own validator must agree that the pair is valid (else the generator is at fault)
    if ext_valid(&schema, &schema, &inst, 0) != Some(true) {
        out.count("extended_pair_not_valid", 1);
        return;
    }
    let (ws, eos) = json_vocab(rng);
    let env = make_env(&ws, eos, false);
    let text = serde_json::to_string(&inst).unwrap().into_bytes();
    for flexible in [false, true] {
        let m = match schema_matcher(&env, &schema, flexible) {
            Ok(m) => m,
            Err(e) => {
                if !(e.contains("fuel") || e.contains("oo many")) {
                    out.violation(
                        "C07: schema rejected although it has a valid instance",
                        format!("schema={} instance={} error={}", schema, String::from_utf8_lossy(&text), e.lines().next().unwrap_or("")),
                    );
                }
                return;
            }
        };
        let toks = tokenise(rng, &ws, eos, &text);
        if accepts_tokens(&m, &toks) == Some(false) {
            out.violation(
                &format!("C07: valid instance {} refused (flexible_ws={flexible}, tokens {:?})", String::from_utf8_lossy(&text), toks),
                format!("schema={schema}"),
            );
        }
    }
    out.count("extended_instances", 1);
}

/// C07 with the default (flexible) whitespace: canonical text and the text with single spaces
/// after separators are both accepted
pub fn whitespace_case(rng: &mut Rng, out: &mut Out) {
    let sch = gen_sch(rng, 2);
    let schema = sch.to_schema();
    let (ws, eos) = single_byte_vocab();
    let env = make_env(&ws, eos, false);
    let Ok(m) = schema_matcher(&env, &schema, true) else { return };
    let Some(v) = sch.instance(rng, 0) else { return };
    if !sch.valid(&v) {
        return;
    }
    let compact = serde_json::to_string(&v).unwrap();
    if !is_simple_text(compact.as_bytes()) {
        return;
    }
    // spaces only outside strings
    let mut spaced = String::new();
    let mut in_str = false;
    for c in compact.chars() {
        spaced.push(c);
        if c == '"' {
            in_str = !in_str;
        }
        if !in_str && (c == ',' || c == ':') {
            spaced.push(' ');
        }
    }
    for (name, text) in [("compact", &compact), ("spaced", &spaced)] {
        match accepts_bytes(&m, &ws, text.as_bytes()) {
            Some(false) => out.violation(&format!("C07: valid instance refused with flexible whitespace ({name}): {text}"), format!("schema={schema}")),
            _ => {}
        }
    }
    out.count("whitespace_cases", 1);
}

/// shapes recorded as known findings, checked on every run with fixed inputs
fn known_shape_cases(out: &mut Out) {
    let (ws, eos) = single_byte_vocab();
    let env = make_env(&ws, eos, false);
    for (fmt, text) in [("date", "\"2023-02-29\""), ("date-time", "\"1900-02-29T12:00:00Z\""), ("date", "\"2024-02-29\"")] {
        let schema = json!({"type": "string", "format": fmt});
        let Ok(mut m) = schema_matcher(&env, &schema, false) else { continue };
        let fed = text.bytes().all(|b| !m.is_stopped() && m.consume_token(b as u32).is_ok());
        let acc = fed && m.is_accepting().unwrap_or(false);
        let year: i64 = text[1..5].parse().unwrap_or(0);
        if acc && !is_leap(year) {
            out.violation(&format!("C06: format {fmt} admits {text}, the 29th of February of a year that is not a leap year"), schema.to_string());
        }
        if !acc && is_leap(year) {
            out.violation(&format!("C06: format {fmt} refuses the valid date {text}"), schema.to_string());
        }
        out.count("known_shape_cases", 1);
    }
}

pub fn run(rng: &mut Rng, out: &mut Out, tier: &str, prop: &str) {
    if prop == "C06" {
        known_shape_cases(out);
    }
    let n = if tier == "thorough" { 6000 } else { 600 };
    for i in 0..n {
        let mut r = rng.fork(i as u64);
        fragment_case(&mut r, out, prop);
        let mut r = rng.fork(0x0600_0000 + i as u64);
        if prop == "C06" {
            extended_case(&mut r, out);
        } else {
            whitespace_case(&mut r, out);
            let mut r = rng.fork(0x0700_0000 + i as u64);
            extended_instance_case(&mut r, out);
        }
    }
}
