//! C09: repetition counts and length bounds are exact.
use crate::eng::*;
use crate::out::Out;
use crate::rng::Rng;
use crate::sexp::*;
use llguidance::api::TopLevelGrammar;
use llguidance::toktrie::{InferenceCapabilities, TokEnv};
use llguidance::{Matcher, ParserFactory};

fn matcher_for(env: &TokEnv, g: TopLevelGrammar) -> Result<Matcher, String> {
    let mut f = ParserFactory::new(env, InferenceCapabilities::default(), &[]).map_err(|e| e.to_string())?;
    f.quiet();
    let p = f.create_parser(g).map_err(|e| e.to_string())?;
    let m = Matcher::new(Ok(p));
    if m.is_error() {
        return Err(m.get_error().unwrap_or_default());
    }
    Ok(m)
}

/// feed `prefix`, then up to `max` copies of `elt` (then `suffix` on a clone to test acceptance);
/// returns the accepted counts and the largest count that is still a viable prefix
fn accepted_counts(m: &mut Matcher, prefix: &[u8], elt: &[u8], sep: &[u8], suffix: &[u8], max: usize) -> (Vec<usize>, usize) {
    let feed = |m: &mut Matcher, bs: &[u8]| -> bool {
        for &b in bs {
            if m.is_stopped() || m.consume_token(b as u32).is_err() {
                return false;
            }
        }
        true
    };
    let mut acc = vec![];
    if !feed(m, prefix) {
        return (acc, 0);
    }
    let mut viable = 0;
    for c in 0..=max {
        // acceptance of exactly c elements
        let mut cl = m.deep_clone();
        if feed(&mut cl, suffix) && cl.is_accepting().unwrap_or(false) {
            acc.push(c);
        }
        viable = c;
        if c == max {
            break;
        }
        if c > 0 && !feed(m, sep) {
            break;
        }
        if !feed(m, elt) {
            break;
        }
    }
    (acc, viable)
}

fn expect_counts(lo: usize, hi: Option<usize>, max: usize) -> Vec<usize> {
    (0..=max).filter(|&c| c >= lo && hi.map(|h| c <= h).unwrap_or(true)).collect()
}

fn lark_case(out: &mut Out, env: &TokEnv, level: &str, lo: usize, hi: Option<usize>) {
    let q = match hi {
        Some(h) if h == lo => format!("{{{lo}}}"),
        Some(h) => format!("{{{lo},{h}}}"),
        None => format!("{{{lo},}}"),
    };
    let (lark, elt): (String, &[u8]) = match level {
        "rule" => (format!("start: x{q}\nx: \"a\"\n"), b"a"),
        "group" => (format!("start: (\"a\" \"b\"){q}\n"), b"ab"),
        "terminal" => (format!("start: T\nT: \"a\"{q}\n"), b"a"),
        "regex" => (format!("start: /(ab){q}/\n"), b"ab"),
        "nested" => (format!("start: y{q}\ny: x x\nx: \"a\"\n"), b"aa"),
        "rulectx" => (format!("start: \"<\" x{q} \">\"\nx: \"a\" | \"b\"\n"), b"b"),
        _ => unreachable!(),
    };
    let max = hi.unwrap_or(lo + 6) + 3;
    // Lark rejects x{0,0}; the engine cannot honour an empty overall language either
    let mut m = match matcher_for(env, TopLevelGrammar::from_lark(lark.clone())) {
        Ok(m) => m,
        Err(_) => {
            out.count("rejected_grammars", 1);
            return;
        }
    };
    let (pre, suf): (&[u8], &[u8]) = if level == "rulectx" { (b"<", b">") } else { (b"", b"") };
    let (acc, viable) = accepted_counts(&mut m, pre, elt, b"", suf, max);
    let want = expect_counts(lo, hi, max);
    let want_viable = hi.map(|h| h.min(max)).unwrap_or(max);
    if acc != want || viable != want_viable {
        out.violation(
            &format!("{level} repetition {q}: accepted counts {:?} (viable up to {viable}), expected {:?} (viable up to {want_viable})", acc, want),
            lark.clone(),
        );
    }
    let kind = if level == "terminal" || level == "regex" { "rxrepeat" } else { "repeat" };
    out.case(
        tagged(kind, vec![int(lo), int(hi.map(|h| h as i64).unwrap_or(-1)), int(max)]),
        tagged("ok", vec![ints(&acc)]),
        true,
    );
    out.count(&format!("lark_{level}"), 1);
}

/// two repetitions of the same named rule in one grammar (the builder memoises repetition nodes
/// per element: the second one must not pick up a node built for the first)
fn lark_pair_case(out: &mut Out, env: &TokEnv, r1: (usize, Option<usize>), r2: (usize, Option<usize>), swap: bool) {
    let q = |(lo, hi): (usize, Option<usize>)| match hi {
        Some(h) if h == lo => format!("{{{lo}}}"),
        Some(h) => format!("{{{lo},{h}}}"),
        None => format!("{{{lo},}}"),
    };
    let lark = format!("start: x{} \";\" x{}\nx: \"a\"\n", q(r1), q(r2));
    let bound = 9usize.max(r1.1.unwrap_or(r1.0) + 2).max(r2.1.unwrap_or(r2.0) + 2).min(20);
    let m = match matcher_for(env, TopLevelGrammar::from_lark(lark.clone())) {
        Ok(m) => m,
        Err(_) => {
            out.count("rejected_grammars", 1);
            return;
        }
    };
    let mut acc: Vec<usize> = vec![];
    for c1 in 0..=bound {
        for c2 in 0..=bound {
            let mut c = m.deep_clone();
            let mut ok = true;
            for b in std::iter::repeat(b'a').take(c1).chain(std::iter::once(b';')).chain(std::iter::repeat(b'a').take(c2)) {
                if c.is_stopped() || c.consume_token(b as u32).is_err() {
                    ok = false;
                    break;
                }
            }
            let a = ok && c.is_accepting().unwrap_or(false);
            let want = c1 >= r1.0 && r1.1.map_or(true, |h| c1 <= h) && c2 >= r2.0 && r2.1.map_or(true, |h| c2 <= h);
            if a != want {
                out.violation(
                    &format!("two repetitions of one rule: {c1} then {c2} copies accepted = {a}, expected {want}"),
                    lark.clone(),
                );
            }
            if a {
                acc.push(c1 * 100 + c2);
            }
        }
    }
    let h = |o: Option<usize>| o.map(|h| h as i64).unwrap_or(-1);
    out.case(
        tagged("repeat2", vec![int(r1.0), int(h(r1.1)), int(bound), int(r2.0), int(h(r2.1))]),
        tagged("ok", vec![ints(&acc)]),
        true,
    );
    let _ = swap;
    out.count("lark_rule_pairs", 1);
}

fn json_case(out: &mut Out, env: &TokEnv, kind: &str, lo: usize, hi: Option<usize>) {
    let mut schema = match kind {
        "items" => serde_json::json!({"type": "array", "items": {"const": 1}}),
        "length_ascii" | "length_2byte" | "length_3byte" | "length_4byte" | "length_escape" | "length_uescape" | "length_quote" => serde_json::json!({"type": "string"}),
        "props" => serde_json::json!({"type": "object", "additionalProperties": {"const": 1}}),
        _ => unreachable!(),
    };
    let (kmin, kmax) = match kind {
        "items" => ("minItems", "maxItems"),
        "props" => ("minProperties", "maxProperties"),
        _ => ("minLength", "maxLength"),
    };
    schema[kmin] = serde_json::json!(lo);
    if let Some(h) = hi {
        schema[kmax] = serde_json::json!(h);
    }
    let max = hi.unwrap_or(lo + 4) + 3;
    let mut m = match matcher_for(env, TopLevelGrammar::from_json_schema(schema.clone())) {
        Ok(m) => m,
        Err(_) => {
            out.count("rejected_schemas", 1);
            return;
        }
    };
    let (acc, _viable) = match kind {
        "items" => accepted_counts(&mut m, b"[", b"1", b",", b"]", max),
        "length_ascii" => accepted_counts(&mut m, b"\"", b"a", b"", b"\"", max),
        "length_2byte" => accepted_counts(&mut m, b"\"", "é".as_bytes(), b"", b"\"", max),
        "length_3byte" => accepted_counts(&mut m, b"\"", "€".as_bytes(), b"", b"\"", max),
        "length_4byte" => accepted_counts(&mut m, b"\"", "😀".as_bytes(), b"", b"\"", max),
        "length_escape" => accepted_counts(&mut m, b"\"", b"\\n", b"", b"\"", max),
        // a six-byte \uXXXX escape and an escaped quote are one character each
        "length_uescape" => accepted_counts(&mut m, b"\"", b"\\u0001", b"", b"\"", max),
        "length_quote" => accepted_counts(&mut m, b"\"", b"\\\"", b"", b"\"", max),
        "props" => {
            // distinct keys k0, k1, ... : feed incrementally
            let mut acc = vec![];
            let feed = |m: &mut Matcher, bs: &[u8]| -> bool {
                for &b in bs {
                    if m.is_stopped() || m.consume_token(b as u32).is_err() {
                        return false;
                    }
                }
                true
            };
            let mut ok = feed(&mut m, b"{");
            let mut c = 0;
            while ok && c <= max {
                let mut cl = m.deep_clone();
                if feed(&mut cl, b"}") && cl.is_accepting().unwrap_or(false) {
                    acc.push(c);
                }
                if c == max {
                    break;
                }
                let item = format!("{}\"k{}\":1", if c > 0 { "," } else { "" }, c);
                ok = feed(&mut m, item.as_bytes());
                c += 1;
            }
            (acc, c)
        }
        _ => unreachable!(),
    };
    let want = expect_counts(lo, hi, max);
    if acc != want {
        out.violation(
            &format!("JSON {kind} bounds {lo}..{:?}: accepted sizes {:?}, expected {:?}", hi, acc, want),
            schema.to_string(),
        );
    }
    // the model side of the JSON sizes is the plain range specification
    out.case(
        tagged("range", vec![int(lo), int(hi.map(|h| h as i64).unwrap_or(-1)), int(max)]),
        tagged("ok", vec![ints(&acc)]),
        true,
    );
    out.count(&format!("json_{kind}"), 1);
}


/// object / array size bounds in the presence of declared members: `req` required and `optn` optional
/// declared properties (all present in the document, in declaration order) followed by additional ones;
/// for arrays `req` prefixItems followed by further items.  The size counted is the total.
fn json_declared_case(out: &mut Out, env: &TokEnv, array: bool, closed: bool, req: usize, optn: usize, lo: usize, hi: Option<usize>) {
    let mut schema = if array {
        let pre: Vec<serde_json::Value> = (0..req).map(|_| serde_json::json!({"const": 1})).collect();
        serde_json::json!({"type": "array", "prefixItems": pre, "items": {"const": 1}})
    } else {
        let mut props = serde_json::Map::new();
        for i in 0..req {
            props.insert(format!("r{i}"), serde_json::json!({"const": 1}));
        }
        for i in 0..optn {
            props.insert(format!("o{i}"), serde_json::json!({"const": 1}));
        }
        let required: Vec<String> = (0..req).map(|i| format!("r{i}")).collect();
        if closed {
            serde_json::json!({"type": "object", "properties": props, "required": required, "additionalProperties": false})
        } else {
            serde_json::json!({"type": "object", "properties": props, "required": required, "additionalProperties": {"const": 1}})
        }
    };
    let (kmin, kmax) = if array { ("minItems", "maxItems") } else { ("minProperties", "maxProperties") };
    schema[kmin] = serde_json::json!(lo);
    if let Some(h) = hi {
        schema[kmax] = serde_json::json!(h);
    }
    let max = hi.unwrap_or(lo.max(req + optn) + 3) + 3;
    let floor = if array { 0 } else { req };
    let want: Vec<usize> = (0..=max).filter(|&c| c >= floor && c >= lo && hi.map(|h| c <= h).unwrap_or(true) && (!closed || c == req)).collect();
    let mut m = match matcher_for(env, TopLevelGrammar::from_json_schema(schema.clone())) {
        Ok(m) => m,
        Err(_) => {
            // documented limitation: min/maxProperties next to optional declared properties is unsupported
            if !want.is_empty() && (array || optn == 0) {
                out.violation(&format!("JSON size bounds {lo}..{hi:?} with {req} required members rejected although sizes {want:?} satisfy them"), schema.to_string());
            }
            out.count("rejected_schemas", 1);
            if !array && optn == 0 {
                out.case(
                    tagged("objsizes", vec![int(lo), int(hi.map(|h| h as i64).unwrap_or(-1)), int(max), int(req), boolean(!closed)]),
                    tagged("err", vec![]),
                    true,
                );
            }
            return;
        }
    };
    let feed = |m: &mut Matcher, bs: &[u8]| -> bool {
        for &b in bs {
            if m.is_stopped() || m.consume_token(b as u32).is_err() {
                return false;
            }
        }
        true
    };
    let mut acc = vec![];
    let mut ok = feed(&mut m, if array { b"[" } else { b"{" });
    let mut c = 0;
    while ok && c <= max {
        let mut cl = m.deep_clone();
        if feed(&mut cl, if array { b"]" } else { b"}" }) && cl.is_accepting().unwrap_or(false) {
            acc.push(c);
        }
        if c == max {
            break;
        }
        let sep = if c > 0 { "," } else { "" };
        let item = if array {
            format!("{sep}1")
        } else if c < req {
            format!("{sep}\"r{c}\":1")
        } else if c < req + optn {
            format!("{sep}\"o{}\":1", c - req)
        } else {
            format!("{sep}\"k{c}\":1")
        };
        ok = feed(&mut m, item.as_bytes());
        c += 1;
    }
    if acc != want {
        out.violation(
            &format!("JSON {} bounds {lo}..{hi:?} with {req} required and {optn} optional declared members: accepted sizes {acc:?}, expected {want:?}", if array { "array" } else { "object" }),
            schema.to_string(),
        );
    }
    if array || optn > 0 {
        out.case(
            tagged("range", vec![int(lo.max(floor)), int(hi.map(|h| h as i64).unwrap_or(-1)), int(max)]),
            tagged("ok", vec![ints(&acc)]),
            true,
        );
    } else {
        // the model of the count arithmetic (coq/ObjCount.v): r required members, open tail
        out.case(
            tagged("objsizes", vec![int(lo), int(hi.map(|h| h as i64).unwrap_or(-1)), int(max), int(req), boolean(!closed)]),
            tagged("ok", vec![ints(&acc)]),
            true,
        );
    }
    out.count(if array { "json_declared_items" } else { "json_declared_props" }, 1);
}


/// the supported special case of min/maxProperties next to optional declared properties: closed
/// object, "at most one", "exactly one" or "at least one" of the optional properties
fn json_optional_props_case(out: &mut Out, env: &TokEnv, req: usize, optn: usize, lo: usize, hi: Option<usize>) {
    let mut props = serde_json::Map::new();
    for i in 0..req {
        props.insert(format!("r{i}"), serde_json::json!({"const": 1}));
    }
    for i in 0..optn {
        props.insert(format!("o{i}"), serde_json::json!({"const": 1}));
    }
    let required: Vec<String> = (0..req).map(|i| format!("r{i}")).collect();
    let mut schema = serde_json::json!({"type": "object", "properties": props, "required": required, "additionalProperties": false, "minProperties": lo});
    if let Some(h) = hi {
        schema["maxProperties"] = serde_json::json!(h);
    }
    let m = match matcher_for(env, TopLevelGrammar::from_json_schema(schema.clone())) {
        Ok(m) => m,
        Err(_) => {
            out.count("rejected_schemas", 1);
            return;
        }
    };
    let mut verdicts = vec![];
    for sub in 0..(1u32 << optn) {
        let mut doc = String::from("{");
        let mut n = 0;
        for i in 0..req {
            doc.push_str(&format!("{}\"r{i}\":1", if n > 0 { "," } else { "" }));
            n += 1;
        }
        for i in 0..optn {
            if sub & (1 << i) != 0 {
                doc.push_str(&format!("{}\"o{i}\":1", if n > 0 { "," } else { "" }));
                n += 1;
            }
        }
        doc.push('}');
        let mut c = m.deep_clone();
        let fed = doc.bytes().all(|b| !c.is_stopped() && c.consume_token(b as u32).is_ok());
        let acc = fed && c.is_accepting().unwrap_or(false);
        let want = n >= lo && hi.map(|h| n <= h).unwrap_or(true);
        if acc != want {
            out.violation(&format!("document {doc} has {n} properties: accepted = {acc}, within {lo}..{hi:?} = {want}"), schema.to_string());
        }
        verdicts.push(acc);
    }
    out.case(tagged("noop", vec![sym("optprops"), int(req), int(optn), int(lo), int(hi.map(|h| h as i64).unwrap_or(-1))]),
             tagged("noop", vec![sym("optprops"), int(req), int(optn), int(lo), int(hi.map(|h| h as i64).unwrap_or(-1))]), true);
    out.count("json_optional_props", 1);
}

pub fn run(_rng: &mut Rng, out: &mut Out, tier: &str) {
    let (ws, eos) = single_byte_vocab();
    let env = make_env(&ws, eos, false);
    let top = if tier == "thorough" { 130 } else { 40 };
    for level in ["rule", "group", "terminal", "regex", "nested", "rulectx"] {
        // the thorough tier walks the whole triangle for the rule level and a band elsewhere
        for hi in 0..=top {
            for lo in 0..=hi {
                if tier == "thorough" && level != "rule" && hi > 48 && !(lo < 3 || hi - lo < 3 || lo % 16 == 0) {
                    continue;
                }
                lark_case(out, &env, level, lo, Some(hi));
            }
        }
        for lo in 0..=(top / 2) {
            lark_case(out, &env, level, lo, None);
        }
    }
    // pairs of repetitions of the same rule: small ranges exhaustively (both orders), plus wide ones
    // (the factorised encoding of wide ranges builds inner at_most / repeat_exact nodes)
    let small: Vec<(usize, Option<usize>)> = {
        let mut v = vec![];
        let t = if tier == "thorough" { 5 } else { 3 };
        for lo in 0..=t {
            for hi in lo..=t {
                v.push((lo, Some(hi)));
            }
            v.push((lo, None));
        }
        v
    };
    for r1 in &small {
        for r2 in &small {
            if r1.1 == Some(0) || r2.1 == Some(0) {
                continue;
            }
            lark_pair_case(out, &env, *r1, *r2, false);
        }
    }
    for (r1, r2) in [((1, Some(14)), (3, Some(6))), ((2, Some(5)), (3, None)), ((0, Some(13)), (1, Some(1))), ((0, Some(16)), (0, Some(3))), ((3, Some(17)), (2, Some(2))), ((4, Some(4)), (0, Some(16)))] {
        lark_pair_case(out, &env, r1, r2, false);
        lark_pair_case(out, &env, r2, r1, true);
    }
    let jt = if tier == "thorough" { 40 } else { 14 };
    for kind in ["items", "length_ascii", "length_2byte", "length_3byte", "length_4byte", "length_escape", "length_uescape", "length_quote", "props"] {
        for hi in 0..=jt {
            for lo in 0..=hi {
                json_case(out, &env, kind, lo, Some(hi));
            }
        }
        for lo in 0..=jt {
            json_case(out, &env, kind, lo, None);
        }
    }
    // size bounds next to declared members (required / optional properties, prefixItems)
    let dt = if tier == "thorough" { 7 } else { 5 };
    for req in 0..=3usize {
        for optn in 1..=3usize {
            for (lo, hi) in [(req, Some(req + 1)), (req + 1, Some(req + 1)), (req + 1, None), (0, Some(req + 1)), (req, None), (req + 2, None), (req, Some(req + 2)), (req, Some(req))] {
                json_optional_props_case(out, &env, req, optn, lo, hi);
            }
        }
        for optn in 0..=2usize {
            for hi in 0..=dt {
                for lo in 0..=hi {
                    json_declared_case(out, &env, false, false, req, optn, lo, Some(hi));
                    if optn == 0 {
                        json_declared_case(out, &env, false, true, req, 0, lo, Some(hi));
                    }
                    if optn == 0 {
                        json_declared_case(out, &env, true, false, req, 0, lo, Some(hi));
                    }
                }
            }
            for lo in 0..=dt {
                json_declared_case(out, &env, false, false, req, optn, lo, None);
                if optn == 0 {
                    json_declared_case(out, &env, false, true, req, 0, lo, None);
                }
                if optn == 0 {
                    json_declared_case(out, &env, true, false, req, 0, lo, None);
                }
            }
        }
    }
}
