//! C18: stop / EOS / accepting consistency through Matcher and Constraint, and the
//! stop-sequence controller.
use crate::eng::*;
use crate::out::Out;
use crate::rng::Rng;
use crate::sexp::*;
use llguidance::api::TopLevelGrammar;
use llguidance::toktrie::InferenceCapabilities;
use llguidance::{Constraint, ParserFactory, StopController};
use std::panic::{catch_unwind, AssertUnwindSafe};

const STOP_CHARS: &[&str] = &["a", "b", "c", "é", "€", " ", "\n"];

fn stop_vocab(rng: &mut Rng) -> (Vec<Vec<u8>>, u32) {
    let mut ws: Vec<Vec<u8>> = (0..=255u8).map(|b| vec![b]).collect();
    for _ in 0..30 {
        let mut w = vec![];
        for _ in 0..rng.range(2, 4) {
            w.extend_from_slice(rng.pick(STOP_CHARS).as_bytes());
        }
        if rng.chance(1, 4) && w.len() > 2 {
            w.pop(); // may end inside a character
        }
        ws.push(w);
    }
    ws.push(vec![]); // an empty token
    ws.push(b"\xFF<|tool|>".to_vec());
    ws.push(b"\xFF<|eos|>".to_vec());
    let eos = (ws.len() - 1) as u32;
    (ws, eos)
}

/// random segmentation of `text` into vocabulary tokens
fn segment(rng: &mut Rng, ws: &[Vec<u8>], text: &[u8]) -> Vec<u32> {
    let mut out = vec![];
    let mut i = 0;
    while i < text.len() {
        let cands: Vec<u32> = ws
            .iter()
            .enumerate()
            .filter(|(_, w)| !w.is_empty() && w[0] != 0xFF && text[i..].starts_with(w))
            .map(|(t, _)| t as u32)
            .collect();
        let multi: Vec<u32> = cands.iter().cloned().filter(|&t| ws[t as usize].len() > 1).collect();
        let t = if !multi.is_empty() && rng.chance(2, 3) { *rng.pick(&multi) } else { *rng.pick(&cands) };
        i += ws[t as usize].len();
        out.push(t);
    }
    out
}

pub fn stop_case(rng: &mut Rng, out: &mut Out, invalid_utf8: bool) {
    let (ws, eos) = stop_vocab(rng);
    let env = make_env(&ws, eos, false);
    let gen_s = |rng: &mut Rng| -> String { (0..rng.range(1, 3)).map(|_| *rng.pick(STOP_CHARS)).collect() };
    let stop_strings: Vec<String> = (0..rng.below(3)).map(|_| gen_s(rng)).collect();
    let stop_rx: Option<Rx> = if rng.chance(1, 3) {
        Some(match rng.below(3) {
            0 => Rx::Cat(vec![Rx::Rep(Box::new(Rx::Lit("a".into())), 1, None), Rx::Lit("b".into())]),
            1 => Rx::Cat(vec![Rx::Lit(gen_s(rng)), Rx::Class(vec![(b'a', b'c')])]),
            _ => Rx::Alt(vec![Rx::Lit(gen_s(rng)), Rx::Lit(gen_s(rng))]),
        })
    } else {
        None
    };
    // EOS is always a stop token and always closes the stream: how much text the controller holds back
    // while a match is still possible is its own business (it merges partial matches with equal
    // continuations), the property speaks about the text returned over the whole run
    let stop_tokens: Vec<u32> = if rng.chance(1, 2) { vec![eos] } else { vec![eos, rng.below(ws.len()) as u32] };
    // text containing stop candidates split across tokens
    let mut text = String::new();
    for _ in 0..rng.range(2, 12) {
        if !stop_strings.is_empty() && rng.chance(1, 5) {
            let s: &String = rng.pick(&stop_strings);
            text.push_str(s);
        } else {
            let s: &&str = rng.pick(STOP_CHARS);
            text.push_str(s);
        }
    }
    let mut toks = segment(rng, &ws, text.as_bytes());
    // sprinkle special / empty / stop tokens and (optionally) bytes that break UTF-8
    for _ in 0..rng.below(3) {
        let pos = rng.below(toks.len() + 1);
        let t = match rng.below(4) {
            0 => eos,
            1 => (ws.len() - 2) as u32,
            2 => (ws.len() - 3) as u32,
            _ => rng.below(256) as u32,
        };
        if invalid_utf8 || t >= 256 || t < 128 {
            toks.insert(pos, t);
        }
    }
    toks.push(eos);
    let rx_string = stop_rx.as_ref().map(|r| {
        let mut s = String::new();
        r.to_regex(&mut s);
        s
    });
    let escaped: Vec<String> = stop_strings.iter().map(|s| {
        // stop strings are regexes in this API: escape via the same printer
        let mut o = String::new();
        Rx::Lit(s.clone()).to_regex(&mut o);
        o
    }).collect();
    let res = catch_unwind(AssertUnwindSafe(|| {
        let mut sc = StopController::new(env.clone(), stop_tokens.clone(), rx_string.clone(), escaped.clone()).unwrap();
        let mut chunks: Vec<String> = vec![];
        let mut flags: Vec<bool> = vec![];
        for &t in &toks {
            chunks.push(sc.commit_token(t));
            flags.push(sc.is_stopped());
        }
        (chunks, flags)
    }));
    let all: Vec<Rx> = stop_strings.iter().map(|s| Rx::Lit(s.clone())).chain(stop_rx.clone()).collect();
    let decoded_valid = {
        let mut d = vec![];
        for &t in &toks {
            let w = &ws[t as usize];
            if stop_tokens.contains(&t) {
                break;
            }
            if w.is_empty() {
                d.extend_from_slice(b"<>");
            } else if w[0] == 0xFF {
                // a special token is an atom of its own: inside a character it breaks the character
                // (the byte-0xFF token has an empty name, so stand a placeholder in for it)
                d.extend_from_slice(if w.len() == 1 { b"?" } else { &w[1..] });
            } else {
                d.extend_from_slice(w);
            }
        }
        std::str::from_utf8(&d).is_ok()
    };
    let input = tagged(
        "stopctl",
        vec![
            tagged("vocab", ws.iter().map(|w| hex(w)).collect()),
            tagged("stoptokens", vec![ints(&stop_tokens)]),
            tagged("stoprx", if all.is_empty() { vec![] } else { vec![Rx::Alt(all).to_sx()] }),
            tagged("tokens", vec![ints(&toks)]),
            tagged("valid", vec![boolean(decoded_valid)]),
        ],
    );
    match res {
        Ok((chunks, flags)) => {
            let total: String = chunks.concat();
            // nothing after the stop; no chunk splits a character (lossy conversion would show U+FFFD)
            if let Some(first_stop) = flags.iter().position(|&f| f) {
                if chunks[first_stop + 1..].iter().any(|c| !c.is_empty()) {
                    out.violation("stop controller returned text after it had stopped", input.to_string());
                }
            }
            // a run that ends at a stop token (no stop string matched before it) returns exactly the text of
            // the tokens before that token (plain-text tokens only: how special tokens are rendered is not judged)
            let stop_idx = toks.iter().position(|t| stop_tokens.contains(t));
            if let (Some(si), Some(fs)) = (stop_idx, flags.iter().position(|&f| f)) {
                let before = &toks[..si];
                if fs == si && before.iter().all(|&t| !ws[t as usize].is_empty() && ws[t as usize][0] != 0xFF) {
                    let d: Vec<u8> = before.iter().flat_map(|&t| ws[t as usize].clone()).collect();
                    if let Ok(ds) = String::from_utf8(d) {
                        if total != ds {
                            out.violation(&format!("the run ended at a stop token but the text returned ({total:?}) is not the text of the tokens before it ({ds:?})"), input.to_string());
                        }
                    }
                }
            }
            if decoded_valid && total.contains('\u{fffd}') {
                out.violation("stop controller split a UTF-8 character of a valid stream", input.to_string());
            }
            out.case(
                input,
                tagged("ok", vec![hex(if decoded_valid { total.as_bytes() } else { b"" }), list(flags.iter().map(|&f| boolean(f)).collect())]),
                !total.is_empty(),
            );
            out.count(if flags.iter().any(|&f| f) { "stopctl_stopped" } else { "stopctl_not_stopped" }, 1);
        }
        Err(_) => {
            out.violation("StopController::commit_token panicked", input.to_string());
            out.case(input, tagged("panic", vec![]), true);
        }
    }
    out.count("stopctl_cases", 1);
}

/// Constraint (sampling-loop) protocol with illegal calls; the final text of a stopped run must be a
/// complete string of the grammar (judged by the CFG specification through the model driver)
pub fn constraint_case(rng: &mut Rng, out: &mut Out) {
    let g = crate::c05::gen_cfg_pub(rng);
    let lark = g.to_lark();
    let (ws, eos) = gen_engine_vocab(rng, 20);
    let env = make_env(&ws, eos, false);
    let Ok(mut f) = ParserFactory::new(&env, InferenceCapabilities::default(), &[]) else { return };
    f.quiet();
    let Ok(p) = f.create_parser(TopLevelGrammar::from_lark(lark.clone())) else { return };
    let mut c = Constraint::new(p);
    let mut text: Vec<u8> = vec![];
    let mut stopped = false;
    let mut viol: Vec<String> = vec![];
    let r = catch_unwind(AssertUnwindSafe(|| {
        for _ in 0..rng.range(2, 14) {
            // illegal: commit without a mask / twice
            if rng.chance(1, 10) {
                let _ = c.commit_token(Some(rng.below(ws.len()) as u32));
            }
            let (mask, is_stop) = match c.compute_mask() {
                Ok(r) => (r.sample_mask.as_ref().map(|m| mask_list(m)), r.is_stop()),
                Err(_) => break,
            };
            if is_stop {
                stopped = true;
                // after a stop: mask again must be an error, commits are no-ops reporting stop
                if c.compute_mask().is_ok() {
                    viol.push("compute_mask() succeeded after a stop".to_string());
                }
                match c.commit_token(Some(eos)) {
                    Ok(r) if r.stop => {}
                    Ok(_) => viol.push("commit_token after stop did not report stop".to_string()),
                    Err(_) => {}
                }
                break;
            }
            let Some(mask) = mask else { break };
            if mask.is_empty() {
                viol.push("empty mask without stop".to_string());
                break;
            }
            // sometimes an illegal token: not in mask, or out of range
            let t = if rng.chance(1, 12) {
                (ws.len() + rng.below(5)) as u32
            } else if rng.chance(1, 12) {
                rng.below(ws.len()) as u32
            } else {
                match pick_token(rng, &mask, &ws, eos) {
                    Some(t) => t,
                    None => break,
                }
            };
            let legal = mask.contains(&t);
            match c.commit_token(Some(t)) {
                Ok(r) => {
                    if !legal {
                        viol.push(format!("token {t} not in the mask was committed without error"));
                    }
                    if t != eos {
                        text.extend_from_slice(&ws[t as usize]);
                    }
                    if r.stop {
                        // stop is reported by the next compute_mask
                    }
                }
                Err(_) => {
                    if legal {
                        viol.push(format!("token {t} from the mask was rejected"));
                    }
                    // permanently failed: every later call must fail too
                    if c.compute_mask().map(|r| !r.is_stop()).unwrap_or(false) {
                        viol.push("constraint usable after a failed commit without reporting it".to_string());
                    }
                    break;
                }
            }
        }
    }));
    if r.is_err() {
        viol.push("panic escaped from the Constraint API".to_string());
    }
    for v in viol {
        out.violation(&v, lark.clone());
    }
    if stopped {
        // the text assembled from the returned tokens is a complete string of the grammar
        out.case(
            tagged("cfg", vec![g.to_sx(), list(vec![hex(&text)])]),
            tagged("ok", vec![boolean(true)]),
            true,
        );
        out.count("constraint_stopped_runs", 1);
    }
    out.count("constraint_sessions", 1);
}

pub fn run(rng: &mut Rng, out: &mut Out, tier: &str) {
    let n = if tier == "thorough" { 8000 } else { 800 };
    for i in 0..n {
        let mut r = rng.fork(i as u64);
        stop_case(&mut r, out, i % 3 == 0);
        let mut r = rng.fork(0x4000_0000 + i as u64);
        constraint_case(&mut r, out);
    }
    // Matcher with illegal calls: sessions replayed on the model
    let cfg = crate::c01::SessionCfg { steps: 6, extra_vocab: 20, check_all_tokens: false, derived_vocab: false };
    for i in 0..n / 2 {
        let mut r = rng.fork(0x5000_0000 + i as u64);
        crate::c01::session_case(&mut r, out, &cfg, "C18");
    }
}
