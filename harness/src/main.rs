mod c01;
mod c02;
mod c03;
mod c04;
mod c05;
mod c06;
mod c08;
mod c09;
mod c10;
mod c11;
mod c13;
mod c14;
mod c15;
mod c16;
mod c16tok;
mod c17;
mod c18;
mod c19;
mod c20;
mod eng;
mod probe;
mod gen;
mod out;
mod rng;
mod sexp;

use std::path::PathBuf;

fn main() {
    let args: Vec<String> = std::env::args().collect();
    if args.len() < 2 {
        eprintln!("usage: llgverif <property> --seed N --tier quick|thorough --out DIR");
        std::process::exit(2);
    }
    let prop = args[1].clone();
    if prop == "c20-child" {
        std::panic::set_hook(Box::new(|_| {}));
        c20::child(&args[2]);
        return;
    }
    let mut seed: u64 = 1;
    let mut tier = "quick".to_string();
    let mut outdir = PathBuf::from("out");
    let mut i = 2;
    while i < args.len() {
        match args[i].as_str() {
            "--seed" => {
                seed = args[i + 1].parse().unwrap();
                i += 2;
            }
            "--tier" => {
                tier = args[i + 1].clone();
                i += 2;
            }
            "--out" => {
                outdir = PathBuf::from(&args[i + 1]);
                i += 2;
            }
            _ => {
                i += 1;
            }
        }
    }
    // panics on the implementation side are observations, not noise on stderr
    std::panic::set_hook(Box::new(|_| {}));
    let mut rng = rng::Rng::new(seed);
    let mut out = out::Out::new(&outdir, seed, &tier);
    match prop.as_str() {
        "C16" => c16::run(&mut rng, &mut out, &tier),
        "C11" => c11::run(&mut rng, &mut out, &tier, false, "C11"),
        "C12" => c11::run(&mut rng, &mut out, &tier, true, "C12"),
        "C17" => c17::run(&mut rng, &mut out, &tier),
        "C09" => c09::run(&mut rng, &mut out, &tier),
        "C02" => c02::run(&mut rng, &mut out, &tier),
        "C04" => c04::run(&mut rng, &mut out, &tier),
        "C05" => c05::run(&mut rng, &mut out, &tier),
        "C08" => c08::run(&mut rng, &mut out, &tier),
        "C10" => c10::run(&mut rng, &mut out, &tier),
        "C18" => c18::run(&mut rng, &mut out, &tier),
        "C13" => c13::run(&mut rng, &mut out, &tier),
        "C14" => c14::run(&mut rng, &mut out, &tier),
        "C15" => c15::run(&mut rng, &mut out, &tier),
        "C19" => c19::run(&mut rng, &mut out, &tier),
        "C03" => c03::run(&mut rng, &mut out, &tier),
        "C06" => c06::run(&mut rng, &mut out, &tier, "C06"),
        "C07" => c06::run(&mut rng, &mut out, &tier, "C07"),
        "C20" => c20::run(&mut rng, &mut out, &tier),
        "probe" => probe::run(),
        "C01" => c01::run(&mut rng, &mut out, &tier),
        _ => {
            eprintln!("unknown property {prop}");
            std::process::exit(2);
        }
    }
    out.finish();
}
