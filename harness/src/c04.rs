//! C04: a regular-expression constraint admits exactly the regex's language
//! (complete strings, viable prefixes, allowed tokens), judged by the extracted
//! denotational matcher of the Coq model.
use crate::eng::*;
use crate::out::Out;
use crate::rng::Rng;
use crate::sexp::*;
use llguidance::Matcher;

/// feed bytes; returns (number of bytes accepted, accepting after all bytes)
fn feed(m: &Matcher, w: &[u8]) -> (usize, bool) {
    let mut c = m.deep_clone();
    for (i, &b) in w.iter().enumerate() {
        if c.is_stopped() || c.consume_token(b as u32).is_err() {
            return (i, false);
        }
    }
    (w.len(), c.is_accepting().unwrap_or(false))
}

fn gen_strings(rng: &mut Rng, m: &Matcher, ws: &[Vec<u8>], eos: u32, n: usize) -> Vec<Vec<u8>> {
    let mut out: Vec<Vec<u8>> = vec![vec![]];
    // strings from the language: mask-guided walks on the implementation
    for _ in 0..n {
        let mut c = m.deep_clone();
        let mut s = vec![];
        for _ in 0..rng.range(1, 10) {
            let Ok(mask) = c.compute_mask() else { break };
            let ml = mask_list(&mask);
            let Some(t) = pick_token(rng, &ml, ws, eos) else { break };
            if t == eos {
                break;
            }
            if c.consume_token(t).is_err() {
                break;
            }
            s.extend_from_slice(&ws[t as usize]);
            if c.is_stopped() {
                break;
            }
        }
        out.push(s.clone());
        // mutations: drop / replace / append a byte
        if !s.is_empty() && rng.chance(1, 2) {
            let mut t = s.clone();
            let i = rng.below(t.len());
            match rng.below(3) {
                0 => {
                    t.remove(i);
                }
                1 => t[i] = *rng.pick(b"abcdex01 \xc3\xa9\xe2"),
                _ => t.push(*rng.pick(b"abcdex01")),
            }
            out.push(t);
        }
    }
    // the same strings with the case of one letter flipped (the i flag)
    let flipped: Vec<Vec<u8>> = out
        .iter()
        .filter(|s| s.iter().any(|b| b.is_ascii_alphabetic()))
        .take(4)
        .map(|s| {
            let mut t = s.clone();
            let idx: Vec<usize> = (0..t.len()).filter(|&i| t[i].is_ascii_alphabetic()).collect();
            let i = idx[rng.below(idx.len())];
            t[i] ^= 0x20;
            t
        })
        .collect();
    out.extend(flipped);
    // random strings over the alphabet
    for _ in 0..n / 2 {
        let l = rng.below(6);
        out.push((0..l).map(|_| *rng.pick(b"abcdex01")).collect());
    }
    out.sort();
    out.dedup();
    out
}

pub fn case(rng: &mut Rng, out: &mut Out) {
    let ext = rng.chance(1, 2);
    let rx = if ext { gen_rx_ext(rng, 2) } else { gen_rx(rng, 3) };
    let as_regex = !rx.has_and_not() && rng.chance(1, 2);
    let lark = if as_regex {
        let mut r = String::new();
        rx.to_regex(&mut r);
        format!("start: /{}/\n", r.replace('/', "\\/"))
    } else {
        let mut t = String::new();
        rx.to_lark_term(&mut t);
        format!("start: T\nT: {t}\n")
    };
    case_with(rng, out, rx, lark, ext, as_regex);
}

/// the i flag on strings and regexes ("ab"i, /[a-c]x+/i): ASCII letters match in either case; the
/// model gets the expanded expression (a class of both cases per letter)
pub fn flag_case(rng: &mut Rng, out: &mut Out) {
    let both = |c: u8| -> Rx {
        if c.is_ascii_alphabetic() { Rx::Class(vec![(c.to_ascii_uppercase(), c.to_ascii_uppercase()), (c.to_ascii_lowercase(), c.to_ascii_lowercase())]) } else { Rx::Lit((c as char).to_string()) }
    };
    let mut parts: Vec<Rx> = vec![];
    let mut lark_parts: Vec<String> = vec![];
    for _ in 0..rng.range(1, 3) {
        match rng.below(4) {
            0 => {
                // "lit"i
                let l: String = (0..rng.range(1, 3)).map(|_| *rng.pick(&['a', 'b', 'X', 'e', '0', 'd', 'C'])).collect();
                parts.push(Rx::Cat(l.bytes().map(both).collect()));
                lark_parts.push(format!("\"{l}\"i"));
            }
            1 => {
                // /[lo-hi]+x/i  (a lower-case class under the flag also matches the upper-case letters)
                let (lo, hi) = *rng.pick(&[(b'a', b'c'), (b'b', b'e'), (b'x', b'x'), (b'a', b'a')]);
                let tail = *rng.pick(&[b'x', b'd', b'1']);
                let cls = Rx::Class(vec![(lo.to_ascii_uppercase(), hi.to_ascii_uppercase()), (lo, hi)]);
                let (rep, q) = if rng.chance(1, 2) { (Rx::Rep(Box::new(cls), 1, None), "+") } else { (Rx::Rep(Box::new(cls), 0, Some(1)), "?") };
                parts.push(Rx::Cat(vec![rep, both(tail)]));
                lark_parts.push(format!("/[{}-{}]{q}{}/i", lo as char, hi as char, tail as char));
            }
            2 => {
                // plain literal: case matters
                let l: String = (0..rng.range(1, 2)).map(|_| *rng.pick(&['a', 'B', 'x', '1'])).collect();
                parts.push(Rx::Lit(l.clone()));
                lark_parts.push(format!("\"{l}\""));
            }
            _ => {
                // /(ab|C)/i
                let (u, v) = (*rng.pick(&["ab", "ba", "e"]), *rng.pick(&["C", "x", "d0"]));
                parts.push(Rx::Alt(vec![Rx::Cat(u.bytes().map(both).collect()), Rx::Cat(v.bytes().map(both).collect())]));
                lark_parts.push(format!("/({u}|{v})/i"));
            }
        }
    }
    let rx = Rx::Cat(parts);
    let lark = format!("start: T\nT: {}\n", lark_parts.join(" "));
    out.count("flag_cases", 1);
    case_with(rng, out, rx, lark, false, false);
}

fn case_with(rng: &mut Rng, out: &mut Out, rx: Rx, lark: String, ext: bool, as_regex: bool) {
    let (ws, eos) = if rng.chance(1, 3) { single_byte_vocab() } else { gen_engine_vocab(rng, 40) };
    let env = make_env(&ws, eos, false);
    let m = match new_matcher(&env, &lark, &[]) {
        Ok(m) => m,
        Err(_) => {
            // e.g. an empty language is rejected at compile time: the model must agree it is empty
            out.case(tagged("rxempty", vec![rx.to_sx()]), tagged("ok", vec![boolean(true)]), false);
            out.count("rejected_as_empty", 1);
            return;
        }
    };
    let strings = gen_strings(rng, &m, &ws, eos, 8);
    // complete strings and viable prefixes
    let verdicts: Vec<Sx> = strings
        .iter()
        .map(|s| {
            let (n, acc) = feed(&m, s);
            list(vec![int(n), boolean(acc)])
        })
        .collect();
    out.count("strings", strings.len() as u64);
    out.count("accepted_strings", verdicts.iter().filter(|v| v.to_string().ends_with(" 1)")).count() as u64);
    out.case(
        tagged("rxcheck", vec![rx.to_sx(), list(strings.iter().map(|s| hex(s)).collect())]),
        tagged("ok", verdicts),
        true,
    );
    // allowed tokens after a prefix from the language
    let pref = strings[rng.below(strings.len())].clone();
    let (n, _) = feed(&m, &pref);
    let pref = pref[..n].to_vec();
    let mut c = m.deep_clone();
    let mut ok = true;
    for &b in &pref {
        if c.is_stopped() || c.consume_token(b as u32).is_err() {
            ok = false;
            break;
        }
    }
    if ok && !c.is_stopped() {
        if let Ok(mask) = c.compute_mask() {
            let ml: Vec<u32> = mask_list(&mask).into_iter().filter(|&t| t != eos).collect();
            out.case(
                tagged(
                    "rxmask",
                    vec![rx.to_sx(), hex(&pref), list(ws.iter().take(ws.len() - 1).map(|w| hex(w)).collect())],
                ),
                tagged("ok", vec![ints(&ml), boolean(mask_list(&mask).contains(&eos))]),
                true,
            );
            out.count("mask_cases", 1);
        }
    }
    out.count(if ext { "regex_with_and_not" } else { "regex_plain" }, 1);
    out.count(if as_regex { "as_slash_regex" } else { "as_lark_terminal" }, 1);
}

/// %regex substring: every source over {a,b} of the given lengths, judged on every word over
/// {a,b} up to length 5 and on every true substring (the suffix automaton only goes wrong when a
/// state is cloned several suffix links deep, which needs sources of length >= 8)
fn substr_sweep(out: &mut Out, lens: &[usize]) {
    let (ws, eos) = single_byte_vocab();
    let env = make_env(&ws, eos, false);
    let _ = eos;
    let mut words: Vec<Vec<u8>> = vec![vec![]];
    for l in 1..=5usize {
        for k in 0..(1u32 << l) {
            words.push((0..l).map(|i| if k >> i & 1 == 1 { b'b' } else { b'a' }).collect());
        }
    }
    for &n in lens {
        for k in 0..(1u32 << n) {
            let src: String = (0..n).map(|i| if k >> i & 1 == 1 { 'b' } else { 'a' }).collect();
            let rx = Rx::Substr(vec![src.clone()], 1);
            let mut t = String::new();
            rx.to_lark_term(&mut t);
            let lark = format!("start: T\nT: {t}\n");
            let Ok(m) = new_matcher(&env, &lark, &[]) else {
                out.count("substring_rejected", 1);
                continue;
            };
            let mut strings = words.clone();
            let sb = src.as_bytes();
            for i in 0..sb.len() {
                for j in (i + 6)..=sb.len() {
                    strings.push(sb[i..j].to_vec());
                }
            }
            strings.sort();
            strings.dedup();
            let mut verdicts = vec![];
            for s in &strings {
                let (len, acc) = feed(&m, s);
                let is_sub = s.is_empty() || sb.windows(s.len()).any(|w| w == &s[..]);
                if acc != is_sub {
                    out.violation(
                        &format!("substring_chars {:?}: word {:?} accepted = {}, is a substring = {}", src, String::from_utf8_lossy(s), acc, is_sub),
                        lark.clone(),
                    );
                }
                verdicts.push(list(vec![int(len), boolean(acc)]));
            }
            out.case(tagged("rxcheck", vec![rx.to_sx(), list(strings.iter().map(|s| hex(s)).collect())]), tagged("ok", verdicts), true);
            out.count("substring_sources", 1);
        }
    }
}

pub fn run(rng: &mut Rng, out: &mut Out, tier: &str) {
    substr_sweep(out, if tier == "thorough" { &[8, 9, 10, 11] } else { &[8, 9] });
    let n = if tier == "thorough" { 10000 } else { 1000 };
    for i in 0..n {
        let mut r = rng.fork(i as u64);
        case(&mut r, out);
        if i % 5 == 0 {
            let mut r = rng.fork(0x0400_0000 + i as u64);
            flag_case(&mut r, out);
        }
    }
}
