//! Shared machinery for engine-level properties: grammar ASTs (printed as Lark for the
//! implementation and as s-expressions for the model), vocabularies as TokEnv, sessions.
use crate::rng::Rng;
use crate::sexp::*;
use llguidance::api::TopLevelGrammar;
use llguidance::toktrie::{InferenceCapabilities, TokEnv, TokRxInfo, TokTrie, TokenId, TokenizerEnv};
use llguidance::{Matcher, ParserFactory};
use std::sync::Arc;

// ------------------------------------------------------------------ regex AST
#[derive(Clone, Debug)]
pub enum Rx {
    /// literal text (UTF-8 string)
    Lit(String),
    /// ASCII class: list of inclusive ranges
    Class(Vec<(u8, u8)>),
    Cat(Vec<Rx>),
    Alt(Vec<Rx>),
    Rep(Box<Rx>, u32, Option<u32>),
    /// intersection / complement (Lark terminal operators & and ~); not printable as a plain regex
    And(Vec<Rx>),
    Not(Box<Rx>),
    /// %regex { "substring_chunks" | "substring_chars" | "substring_words" }: source text, mode (0 chunks, 1 chars, 2 words)
    Substr(Vec<String>, u8),
}

/// the chunks of a substring source, computed independently of parser/src/substring.rs
pub fn substr_chunks(src: &[String], mode: u8) -> Vec<String> {
    match mode {
        0 => src.to_vec(),
        1 => src.concat().chars().map(|c| c.to_string()).collect(),
        _ => {
            // words: maximal runs of whitespace / alphanumeric-or-underscore / anything else
            let text = src.concat();
            let class = |c: char| if c.is_whitespace() { 0 } else if c.is_alphanumeric() || c == '_' { 1 } else { 2 };
            let mut out: Vec<String> = vec![];
            let mut last = 9;
            for c in text.chars() {
                let k = class(c);
                if k == last {
                    out.last_mut().unwrap().push(c);
                } else {
                    out.push(c.to_string());
                    last = k;
                }
            }
            out
        }
    }
}

fn esc_rx_char(c: char, out: &mut String) {
    if c.is_ascii_alphanumeric() || !c.is_ascii() {
        out.push(c);
    } else {
        out.push_str(&format!("\\x{:02x}", c as u32));
    }
}

impl Rx {
    /// Rust-regex syntax (used inside a Lark /.../ terminal)
    pub fn to_regex(&self, out: &mut String) {
        match self {
            Rx::Lit(s) => {
                for c in s.chars() {
                    esc_rx_char(c, out);
                }
            }
            Rx::Class(rs) => {
                out.push('[');
                for &(lo, hi) in rs {
                    esc_rx_char(lo as char, out);
                    if hi != lo {
                        out.push('-');
                        esc_rx_char(hi as char, out);
                    }
                }
                out.push(']');
            }
            Rx::Cat(v) => {
                for x in v {
                    match x {
                        Rx::Alt(_) => {
                            out.push('(');
                            x.to_regex(out);
                            out.push(')');
                        }
                        _ => x.to_regex(out),
                    }
                }
            }
            Rx::Alt(v) => {
                for (i, x) in v.iter().enumerate() {
                    if i > 0 {
                        out.push('|');
                    }
                    x.to_regex(out);
                }
            }
            Rx::And(_) | Rx::Not(_) | Rx::Substr(..) => panic!("&, ~ and %regex are not regex syntax"),
            Rx::Rep(x, lo, hi) => {
                out.push('(');
                x.to_regex(out);
                out.push(')');
                match (lo, hi) {
                    (0, None) => out.push('*'),
                    (1, None) => out.push('+'),
                    (0, Some(1)) => out.push('?'),
                    (lo, None) => out.push_str(&format!("{{{lo},}}")),
                    (lo, Some(hi)) if lo == hi => out.push_str(&format!("{{{lo}}}")),
                    (lo, Some(hi)) => out.push_str(&format!("{{{lo},{hi}}}")),
                }
            }
        }
    }
    pub fn to_sx(&self) -> Sx {
        match self {
            Rx::Lit(s) => tagged("lit", vec![hex(s.as_bytes())]),
            Rx::Class(rs) => tagged(
                "class",
                rs.iter().map(|&(lo, hi)| ints(&[lo as u32, hi as u32])).collect(),
            ),
            Rx::Cat(v) => tagged("cat", v.iter().map(|x| x.to_sx()).collect()),
            Rx::Alt(v) => tagged("alt", v.iter().map(|x| x.to_sx()).collect()),
            Rx::And(v) => tagged("and", v.iter().map(|x| x.to_sx()).collect()),
            Rx::Not(x) => tagged("not", vec![x.to_sx()]),
            Rx::Substr(src, mode) => tagged("substr", substr_chunks(src, *mode).iter().map(|c| hex(c.as_bytes())).collect()),
            Rx::Rep(x, lo, hi) => tagged(
                "rep",
                vec![x.to_sx(), int(*lo), int(hi.map(|h| h as i64).unwrap_or(-1))],
            ),
        }
    }
    pub fn min_len(&self) -> usize {
        match self {
            Rx::Lit(s) => s.len(),
            Rx::Class(_) => 1,
            Rx::Cat(v) => v.iter().map(|x| x.min_len()).sum(),
            Rx::Alt(v) => v.iter().map(|x| x.min_len()).min().unwrap_or(0),
            Rx::Rep(x, lo, _) => x.min_len() * (*lo as usize),
            Rx::And(v) => v.iter().map(|x| x.min_len()).max().unwrap_or(0),
            Rx::Not(_) | Rx::Substr(..) => 0,
        }
    }
    pub fn has_and_not(&self) -> bool {
        match self {
            Rx::And(_) | Rx::Not(_) | Rx::Substr(..) => true,
            Rx::Cat(v) | Rx::Alt(v) => v.iter().any(|x| x.has_and_not()),
            Rx::Rep(x, _, _) => x.has_and_not(),
            _ => false,
        }
    }
    /// Lark terminal expression (string literals, /classes/, grouping, |, repetition, &, ~)
    pub fn to_lark_term(&self, out: &mut String) {
        match self {
            Rx::Lit(s) => {
                out.push('"');
                for c in s.chars() {
                    match c {
                        '"' => out.push_str("\\\""),
                        '\\' => out.push_str("\\\\"),
                        c if c.is_ascii_graphic() || c == ' ' => out.push(c),
                        c if (c as u32) < 128 => out.push_str(&format!("\\x{:02x}", c as u32)),
                        c => out.push_str(&format!("\\u{:04x}", c as u32)),
                    }
                }
                out.push('"');
            }
            Rx::Class(_) => {
                let mut r = String::new();
                self.to_regex(&mut r);
                out.push('/');
                out.push_str(&r.replace('/', "\\/"));
                out.push('/');
            }
            Rx::Cat(v) => {
                out.push('(');
                for (i, x) in v.iter().enumerate() {
                    if i > 0 {
                        out.push(' ');
                    }
                    x.to_lark_term(out);
                }
                out.push(')');
            }
            Rx::Alt(v) => {
                out.push('(');
                for (i, x) in v.iter().enumerate() {
                    if i > 0 {
                        out.push_str(" | ");
                    }
                    x.to_lark_term(out);
                }
                out.push(')');
            }
            Rx::And(v) => {
                out.push('(');
                for (i, x) in v.iter().enumerate() {
                    if i > 0 {
                        out.push_str(" & ");
                    }
                    x.to_lark_term(out);
                }
                out.push(')');
            }
            Rx::Not(x) => {
                out.push_str("~(");
                x.to_lark_term(out);
                out.push(')');
            }
            Rx::Substr(src, mode) => {
                let v = match mode {
                    0 => serde_json::json!({"substring_chunks": src}),
                    1 => serde_json::json!({"substring_chars": src.concat()}),
                    _ => serde_json::json!({"substring_words": src.concat()}),
                };
                out.push_str(&format!("%regex {}", v));
            }
            Rx::Rep(x, lo, hi) => {
                out.push('(');
                x.to_lark_term(out);
                out.push(')');
                match (lo, hi) {
                    (0, None) => out.push('*'),
                    (1, None) => out.push('+'),
                    (0, Some(1)) => out.push('?'),
                    (lo, None) => out.push_str(&format!("{{{lo},}}")),
                    (lo, Some(hi)) if lo == hi => out.push_str(&format!("{{{lo}}}")),
                    (lo, Some(hi)) => out.push_str(&format!("{{{lo},{hi}}}")),
                }
            }
        }
    }
}

pub const CHARS: &[&str] = &["a", "b", "c", "d", "e", "x", "0", "1", " ", "é", "€", ",", "\""];

pub fn gen_lit(rng: &mut Rng, maxlen: usize) -> String {
    let n = rng.range(1, maxlen);
    (0..n)
        .map(|_| {
            let lim = if rng.chance(1, 6) { CHARS.len() } else { 6 };
            *rng.pick(&CHARS[..lim])
        })
        .collect()
}

pub fn gen_class(rng: &mut Rng) -> Rx {
    let mut rs = vec![];
    for _ in 0..rng.range(1, 2) {
        let a = b"abcdex01"[rng.below(8)];
        let b = b"abcdex01"[rng.below(8)];
        rs.push((a.min(b), a.max(b)));
    }
    Rx::Class(rs)
}

pub fn gen_rx(rng: &mut Rng, depth: usize) -> Rx {
    let k = if depth == 0 { rng.below(2) } else { rng.below(7) };
    match k {
        0 => Rx::Lit(gen_lit(rng, 3)),
        1 => gen_class(rng),
        2 | 3 => Rx::Cat((0..rng.range(2, 3)).map(|_| gen_rx(rng, depth - 1)).collect()),
        4 => Rx::Alt((0..rng.range(2, 3)).map(|_| gen_rx(rng, depth - 1)).collect()),
        _ => {
            let lo = rng.below(3) as u32;
            let hi = match rng.below(3) {
                0 => None,
                _ => Some(lo + rng.below(3) as u32),
            };
            let hi = if hi == Some(0) { Some(1) } else { hi };
            Rx::Rep(Box::new(gen_rx(rng, depth - 1)), lo, hi)
        }
    }
}

/// regex that never matches the empty string
pub fn gen_rx_nonnull(rng: &mut Rng, depth: usize) -> Rx {
    for _ in 0..20 {
        let r = gen_rx(rng, depth);
        if r.min_len() >= 1 {
            return r;
        }
    }
    Rx::Lit(gen_lit(rng, 2))
}

// ------------------------------------------------------------------ grammar AST
#[derive(Clone, Debug, PartialEq, Eq)]
pub enum Sym {
    N(usize),
    T(usize),
}
#[derive(Clone, Debug)]
pub struct Gram {
    /// per nonterminal: alternatives (sequences of symbols); nonterminal 0 is the start
    pub rules: Vec<Vec<Vec<Sym>>>,
    pub lexemes: Vec<Rx>,
}

impl Gram {
    pub fn to_lark(&self) -> String {
        let mut s = String::from("start: n0\n");
        for (i, alts) in self.rules.iter().enumerate() {
            s.push_str(&format!("n{i}: "));
            for (j, alt) in alts.iter().enumerate() {
                if j > 0 {
                    s.push_str(" | ");
                }
                if alt.is_empty() {
                    s.push_str("\"\"");
                }
                for (k, sym) in alt.iter().enumerate() {
                    if k > 0 {
                        s.push(' ');
                    }
                    match sym {
                        Sym::N(n) => s.push_str(&format!("n{n}")),
                        Sym::T(t) => s.push_str(&format!("T{t}")),
                    }
                }
            }
            s.push('\n');
        }
        for (i, rx) in self.lexemes.iter().enumerate() {
            let mut r = String::new();
            rx.to_regex(&mut r);
            let r = r.replace('/', "\\/");
            s.push_str(&format!("T{i}: /{r}/\n"));
        }
        s
    }
    pub fn to_sx(&self) -> Sx {
        tagged(
            "grammar",
            vec![
                tagged(
                    "rules",
                    self.rules
                        .iter()
                        .map(|alts| {
                            list(
                                alts.iter()
                                    .map(|alt| {
                                        list(
                                            alt.iter()
                                                .map(|s| match s {
                                                    Sym::N(n) => tagged("n", vec![int(*n)]),
                                                    Sym::T(t) => tagged("t", vec![int(*t)]),
                                                })
                                                .collect(),
                                        )
                                    })
                                    .collect(),
                            )
                        })
                        .collect(),
                ),
                tagged("lexemes", self.lexemes.iter().map(|r| r.to_sx()).collect()),
            ],
        )
    }
}

/// random CFG: every nonterminal has a terminating alternative (productive), recursion shapes
/// (left / right / nested), empty productions, shared terminals
pub fn gen_gram(rng: &mut Rng) -> Gram {
    let nlex = rng.range(1, 5);
    let lexemes: Vec<Rx> = (0..nlex)
        .map(|_| if rng.chance(1, 2) { Rx::Lit(gen_lit(rng, 3)) } else { gen_rx_nonnull(rng, 2) })
        .collect();
    let nnt = rng.range(1, 4);
    let mut rules = vec![];
    for i in 0..nnt {
        let mut alts = vec![];
        // a terminating alternative: only terminals (or empty)
        let tl = rng.below(3);
        if tl == 0 && rng.chance(1, 2) && i > 0 {
            alts.push(vec![]);
        } else {
            alts.push((0..tl.max(1)).map(|_| Sym::T(rng.below(nlex))).collect());
        }
        for _ in 0..rng.below(3) {
            let len = rng.range(1, 3);
            let alt: Vec<Sym> = (0..len)
                .map(|_| if rng.chance(1, 2) { Sym::N(rng.below(nnt)) } else { Sym::T(rng.below(nlex)) })
                .collect();
            // avoid the unproductive/looping unit rule n_i: n_i
            if alt == vec![Sym::N(i)] {
                continue;
            }
            alts.push(alt);
        }
        rules.push(alts);
    }
    Gram { rules, lexemes }
}

/// "diamond" grammars: several alternatives share a middle lexeme, so that different histories reach
/// the same lexer state at the same row index while what may follow differs (mask-cache keys collide)
pub fn gen_diamond_gram(rng: &mut Rng) -> Gram {
    let n = rng.range(2, 3);
    let lefts = ["a", "c", "e"];
    let rights = ["b", "d", "x"];
    let mid = match rng.below(3) {
        0 => Rx::Rep(Box::new(Rx::Class(vec![(b'0', b'1')])), 1, None),
        1 => Rx::Rep(Box::new(Rx::Class(vec![(b'0', b'1')])), 1, Some(3)),
        _ => Rx::Lit("0".into()),
    };
    let mut lexemes: Vec<Rx> = vec![mid];
    let mut alts = vec![];
    for i in 0..n {
        lexemes.push(Rx::Lit(lefts[i].into()));
        lexemes.push(Rx::Lit(rights[i].into()));
        let mut alt = vec![Sym::T(1 + 2 * i), Sym::T(0), Sym::T(2 + 2 * i)];
        if rng.chance(1, 3) {
            alt.push(Sym::T(0));
        }
        alts.push(alt);
    }
    Gram { rules: vec![alts], lexemes }
}

// ------------------------------------------------------------------ tokenizer env
pub struct VEnv {
    pub trie: TokTrie,
    pub canonical: bool,
}
impl TokenizerEnv for VEnv {
    fn tok_trie(&self) -> &TokTrie {
        &self.trie
    }
    fn tokenize_bytes(&self, s: &[u8]) -> Vec<TokenId> {
        self.trie.greedy_tokenize(s)
    }
    fn tokenize_is_canonical(&self) -> bool {
        self.canonical
    }
}

pub fn make_env(words: &[Vec<u8>], eos: u32, canonical: bool) -> TokEnv {
    let info = TokRxInfo::new(words.len() as u32, eos);
    Arc::new(VEnv { trie: TokTrie::from(&info, words), canonical })
}

/// byte-complete vocabulary relevant to the grammar alphabet: all 256 bytes, then multi-byte
/// tokens built from the grammar's characters (so that tokens span lexemes), plus an EOS special
pub fn gen_engine_vocab(rng: &mut Rng, extra: usize) -> (Vec<Vec<u8>>, u32) {
    let mut ws: Vec<Vec<u8>> = (0..=255u8).map(|b| vec![b]).collect();
    for _ in 0..extra {
        let n = rng.range(2, 5);
        let mut w = vec![];
        for _ in 0..n {
            let c = *rng.pick(CHARS);
            w.extend_from_slice(c.as_bytes());
        }
        // sometimes cut in the middle of a UTF-8 character
        if rng.chance(1, 5) && w.len() > 2 {
            w.pop();
        }
        if rng.chance(1, 10) && !ws.is_empty() {
            w = rng.pick(&ws).clone(); // duplicate
        }
        ws.push(w);
    }
    ws.push(b"\xFF<|eos|>".to_vec());
    let eos = (ws.len() - 1) as u32;
    (ws, eos)
}

/// byte-complete vocabulary whose multi-byte tokens are cut out of strings of the grammar itself
/// (so that single tokens span two, three and more lexemes, and sibling tokens share prefixes);
/// with `ws_led` some tokens get a leading blank (for grammars with an %ignore lexeme)
pub fn derived_vocab(rng: &mut Rng, lark: &str, extra: usize, ws_led: bool) -> Option<(Vec<Vec<u8>>, u32)> {
    let (wb, eosb) = single_byte_vocab();
    let envb = make_env(&wb, eosb, false);
    let m = new_matcher(&envb, lark, &[]).ok()?;
    let mut texts: Vec<Vec<u8>> = vec![];
    for _ in 0..8 {
        let mut c = m.deep_clone();
        let mut s = vec![];
        for _ in 0..rng.range(3, 14) {
            let Ok(mask) = c.compute_mask() else { break };
            let ml: Vec<u32> = mask_list(&mask).into_iter().filter(|&t| t != eosb).collect();
            if ml.is_empty() {
                break;
            }
            // printable bytes first: masks of classes / complements are wide
            let pr: Vec<u32> = ml.iter().cloned().filter(|&t| (0x20..0x7f).contains(&t)).collect();
            let t = if !pr.is_empty() && rng.chance(9, 10) { *rng.pick(&pr) } else { *rng.pick(&ml) };
            if c.consume_token(t).is_err() || c.is_stopped() {
                break;
            }
            s.push(t as u8);
        }
        if s.len() >= 2 {
            texts.push(s);
        }
    }
    if texts.is_empty() {
        return None;
    }
    let mut ws: Vec<Vec<u8>> = (0..=255u8).map(|b| vec![b]).collect();
    for _ in 0..extra {
        let t = rng.pick(&texts).clone();
        let i = rng.below(t.len() - 1);
        let n = rng.range(2, 7).min(t.len() - i);
        let mut w = t[i..i + n].to_vec();
        if ws_led && rng.chance(1, 3) {
            w.insert(0, b' ');
        }
        // siblings: same token with another last byte / one byte longer
        if rng.chance(1, 3) {
            let mut w2 = w.clone();
            *w2.last_mut().unwrap() = *rng.pick(&t);
            ws.push(w2);
        }
        ws.push(w);
    }
    ws.push(b"\xFF<|eos|>".to_vec());
    let eos = (ws.len() - 1) as u32;
    Some((ws, eos))
}

pub fn single_byte_vocab() -> (Vec<Vec<u8>>, u32) {
    let mut ws: Vec<Vec<u8>> = (0..=255u8).map(|b| vec![b]).collect();
    ws.push(b"\xFF<|eos|>".to_vec());
    (ws, 256)
}

/// tokenizer with a second end-of-sequence token (TokTrie::with_eos_tokens)
pub fn make_env2(words: &[Vec<u8>], eos: u32, extra_eos: Option<u32>, canonical: bool) -> TokEnv {
    let info = TokRxInfo::new(words.len() as u32, eos);
    let trie = TokTrie::from(&info, words);
    let trie = match extra_eos {
        Some(x) => trie.with_eos_tokens(&[eos, x]),
        None => trie,
    };
    Arc::new(VEnv { trie, canonical })
}

pub fn vocab_sx2(ws: &[Vec<u8>], eos: u32, extra_eos: Option<u32>) -> Vec<Sx> {
    let mut e = vec![int(eos)];
    if let Some(x) = extra_eos {
        e.push(int(x));
    }
    vec![tagged("vocab", ws.iter().map(|w| hex(w)).collect()), tagged("eos", e)]
}

pub fn vocab_sx(ws: &[Vec<u8>], eos: u32) -> Vec<Sx> {
    vec![
        tagged("vocab", ws.iter().map(|w| hex(w)).collect()),
        tagged("eos", vec![int(eos)]),
    ]
}

pub fn new_matcher(env: &TokEnv, lark: &str, slices: &[String]) -> Result<Matcher, String> {
    let mut f = ParserFactory::new(env, InferenceCapabilities::default(), slices).map_err(|e| e.to_string())?;
    f.quiet();
    let p = f
        .create_parser(TopLevelGrammar::from_lark(lark.to_string()))
        .map_err(|e| e.to_string())?;
    let m = Matcher::new(Ok(p));
    if m.is_error() {
        return Err(m.get_error().unwrap_or_default());
    }
    Ok(m)
}

pub fn mask_list(v: &llguidance::toktrie::SimpleVob) -> Vec<u32> {
    let mut r = vec![];
    for (i, w) in v.as_slice().iter().enumerate() {
        for b in 0..32 {
            if w & (1u32 << b) != 0 {
                r.push((i * 32 + b) as u32);
            }
        }
    }
    r
}

pub fn stop_code(m: &Matcher) -> u32 {
    use llguidance::api::StopReason::*;
    match m.stop_reason() {
        NotStopped => 0,
        MaxTokensTotal => 1,
        MaxTokensParser => 2,
        NoExtension => 3,
        NoExtensionBias => 4,
        EndOfSentence => 5,
        InternalError => 6,
        LexerTooComplex => 7,
        ParserTooComplex => 8,
    }
}

// ------------------------------------------------------------------ sessions
#[derive(Clone, Debug)]
pub enum Op {
    Mask,
    Commit(u32),
    Validate(Vec<u32>),
    Accepting,
    FfBytes,
    FfTokens,
    Rollback(usize),
    Reset,
    Invalidate,
    Stopped,
    MaskOrEos,
}

impl Op {
    pub fn to_sx(&self) -> Sx {
        match self {
            Op::Mask => tagged("mask", vec![]),
            Op::Commit(t) => tagged("commit", vec![int(*t)]),
            Op::Validate(ts) => tagged("validate", ts.iter().map(|t| int(*t)).collect()),
            Op::Accepting => tagged("accepting", vec![]),
            Op::FfBytes => tagged("ffbytes", vec![]),
            Op::FfTokens => tagged("fftokens", vec![]),
            Op::Rollback(n) => tagged("rollback", vec![int(*n)]),
            Op::Reset => tagged("reset", vec![]),
            Op::Invalidate => tagged("invalidate", vec![]),
            Op::Stopped => tagged("stopped", vec![]),
            Op::MaskOrEos => tagged("maskoreos", vec![]),
        }
    }
}

pub fn err_sx() -> Sx {
    tagged("err", vec![])
}

/// run one op on the implementation; result in the canonical form shared with the model
pub fn run_op(m: &mut Matcher, op: &Op) -> (Sx, Option<Vec<u32>>) {
    match op {
        Op::Mask => match m.compute_mask() {
            Ok(v) => {
                let l = mask_list(&v);
                (tagged("ok", vec![ints(&l)]), Some(l))
            }
            Err(_) => (err_sx(), None),
        },
        Op::MaskOrEos => match m.compute_mask_or_eos() {
            Ok(v) => {
                let l = mask_list(&v);
                (tagged("ok", vec![ints(&l)]), Some(l))
            }
            Err(_) => (err_sx(), None),
        },
        Op::Commit(t) => match m.consume_token(*t) {
            Ok(()) => (tagged("ok", vec![]), None),
            Err(_) => (err_sx(), None),
        },
        Op::Validate(ts) => match m.validate_tokens(ts) {
            Ok(n) => (tagged("ok", vec![int(n)]), None),
            Err(_) => (err_sx(), None),
        },
        Op::Accepting => match m.is_accepting() {
            Ok(b) => (tagged("ok", vec![boolean(b)]), None),
            Err(_) => (err_sx(), None),
        },
        Op::FfBytes => {
            let b = m.compute_ff_bytes();
            (tagged("ok", vec![hex(&b)]), None)
        }
        Op::FfTokens => {
            let b = m.compute_ff_tokens();
            (tagged("ok", vec![ints(&b)]), None)
        }
        Op::Rollback(n) => match m.rollback(*n) {
            Ok(()) => (tagged("ok", vec![]), None),
            Err(_) => (err_sx(), None),
        },
        Op::Reset => match m.reset() {
            Ok(()) => (tagged("ok", vec![]), None),
            Err(_) => (err_sx(), None),
        },
        Op::Invalidate => {
            m.invalidate_bias_cache();
            (tagged("ok", vec![]), None)
        }
        Op::Stopped => (tagged("stop", vec![int(stop_code(m)), boolean(m.is_stopped())]), None),
    }
}

/// pick a token from a mask, biased to multi-byte tokens and to EOS when available
pub fn pick_token(rng: &mut Rng, mask: &[u32], ws: &[Vec<u8>], eos: u32) -> Option<u32> {
    if mask.is_empty() {
        return None;
    }
    if mask.contains(&eos) && rng.chance(1, 4) {
        return Some(eos);
    }
    let multi: Vec<u32> = mask.iter().cloned().filter(|&t| ws[t as usize].len() > 1 && t != eos).collect();
    if !multi.is_empty() && rng.chance(3, 5) {
        return Some(*rng.pick(&multi));
    }
    let non_eos: Vec<u32> = mask.iter().cloned().filter(|&t| t != eos).collect();
    if non_eos.is_empty() {
        Some(eos)
    } else {
        Some(*rng.pick(&non_eos))
    }
}

/// the engine stopped because of a documented resource limit (not modelled: accounting differs)
pub fn is_resource_limit(m: &Matcher) -> bool {
    match m.get_error() {
        Some(e) => e.contains("Too many items") || e.contains("too many states") || e.contains("too many expressions") || e.contains("fuel"),
        None => false,
    }
}

// ------------------------------------------------------------------ parsing cases back (corpus / replay)
fn sx_items(x: &Sx) -> &[Sx] {
    match x {
        Sx::L(v) => v,
        _ => &[],
    }
}
fn sx_atom(x: &Sx) -> &str {
    match x {
        Sx::A(s) => s,
        _ => "",
    }
}
pub fn sx_field<'a>(items: &'a [Sx], tag: &str) -> &'a [Sx] {
    for it in items {
        if let Sx::L(v) = it {
            if !v.is_empty() && sx_atom(&v[0]) == tag {
                return &v[1..];
            }
        }
    }
    &[]
}
impl Rx {
    pub fn from_sx(x: &Sx) -> Rx {
        let it = sx_items(x);
        let tag = sx_atom(&it[0]);
        match tag {
            "lit" => Rx::Lit(String::from_utf8_lossy(&unhex(sx_atom(&it[1]))).to_string()),
            "class" => Rx::Class(
                it[1..]
                    .iter()
                    .map(|r| {
                        let r = sx_items(r);
                        (sx_atom(&r[0]).parse().unwrap(), sx_atom(&r[1]).parse().unwrap())
                    })
                    .collect(),
            ),
            "cat" => Rx::Cat(it[1..].iter().map(Rx::from_sx).collect()),
            "alt" => Rx::Alt(it[1..].iter().map(Rx::from_sx).collect()),
            "and" => Rx::And(it[1..].iter().map(Rx::from_sx).collect()),
            "not" => Rx::Not(Box::new(Rx::from_sx(&it[1]))),
            "substr" => Rx::Substr(it[1..].iter().map(|c| String::from_utf8_lossy(&unhex(sx_atom(c))).to_string()).collect(), 0),
            "rep" => {
                let hi: i64 = sx_atom(&it[3]).parse().unwrap();
                Rx::Rep(
                    Box::new(Rx::from_sx(&it[1])),
                    sx_atom(&it[2]).parse().unwrap(),
                    if hi < 0 { None } else { Some(hi as u32) },
                )
            }
            _ => panic!("unknown regex tag {tag}"),
        }
    }
}
impl Gram {
    pub fn from_sx(items: &[Sx]) -> Gram {
        let rules = sx_field(items, "rules")
            .iter()
            .map(|alts| {
                sx_items(alts)
                    .iter()
                    .map(|alt| {
                        sx_items(alt)
                            .iter()
                            .map(|s| {
                                let s = sx_items(s);
                                let n: usize = sx_atom(&s[1]).parse().unwrap();
                                if sx_atom(&s[0]) == "n" {
                                    Sym::N(n)
                                } else {
                                    Sym::T(n)
                                }
                            })
                            .collect()
                    })
                    .collect()
            })
            .collect();
        let lexemes = sx_field(items, "lexemes").iter().map(Rx::from_sx).collect();
        Gram { rules, lexemes }
    }
}
impl Op {
    pub fn from_sx(x: &Sx) -> Op {
        let it = sx_items(x);
        let n = |k: usize| -> usize { sx_atom(&it[k]).parse().unwrap() };
        match sx_atom(&it[0]) {
            "mask" => Op::Mask,
            "commit" => Op::Commit(n(1) as u32),
            "validate" => Op::Validate(it[1..].iter().map(|a| sx_atom(a).parse().unwrap()).collect()),
            "accepting" => Op::Accepting,
            "ffbytes" => Op::FfBytes,
            "fftokens" => Op::FfTokens,
            "rollback" => Op::Rollback(n(1)),
            "reset" => Op::Reset,
            "invalidate" => Op::Invalidate,
            "stopped" => Op::Stopped,
            "maskoreos" => Op::MaskOrEos,
            t => panic!("unknown op {t}"),
        }
    }
}
pub struct ParsedSession {
    pub gram: Gram,
    pub ws: Vec<Vec<u8>>,
    pub eos: u32,
    pub ops: Vec<Op>,
}
pub fn parse_session(line: &str) -> Option<ParsedSession> {
    let x = parse(line)?;
    let it = sx_items(&x);
    if it.is_empty() || sx_atom(&it[0]) != "session" {
        return None;
    }
    let it = &it[1..];
    Some(ParsedSession {
        gram: Gram::from_sx(sx_field(it, "grammar")),
        ws: sx_field(it, "vocab").iter().map(|a| unhex(sx_atom(a))).collect(),
        eos: sx_atom(&sx_field(it, "eos")[0]).parse().unwrap(),
        ops: sx_field(it, "ops").iter().map(Op::from_sx).collect(),
    })
}
/// corpus lines for a property: /verif/corpus/<prop>/*.txt, one case (input s-expression) per line
pub fn corpus_lines(prop: &str) -> Vec<String> {
    let mut out = vec![];
    let dir = std::path::Path::new(env!("CARGO_MANIFEST_DIR")).join("../corpus").join(prop);
    if let Ok(rd) = std::fs::read_dir(dir) {
        let mut files: Vec<_> = rd.filter_map(|e| e.ok()).map(|e| e.path()).collect();
        files.sort();
        for f in files {
            if let Ok(s) = std::fs::read_to_string(&f) {
                for l in s.lines() {
                    let l = l.trim();
                    if !l.is_empty() && !l.starts_with('#') {
                        out.push(l.to_string());
                    }
                }
            }
        }
    }
    out
}

/// regex with intersection and complement
pub fn gen_substr(rng: &mut Rng) -> Rx {
    // small alphabets and lengths of 6-12 so that the suffix automaton has to clone states
    // several links deep
    let alpha: &[&str] = *rng.pick(&[&["a", "b"][..], &["a", "b", "c"][..], &["e", "t", "-", "x"][..], &["a", " ", ".", "b1"][..]]);
    let n = rng.range(4, 12);
    let text: Vec<String> = (0..n).map(|_| rng.pick(alpha).to_string()).collect();
    match rng.below(3) {
        0 => Rx::Substr(text, 1),
        1 => Rx::Substr(text, 2),
        _ => {
            // chunks of 1-3 pieces
            let mut chunks = vec![];
            let mut i = 0;
            while i < text.len() {
                let k = rng.range(1, 3).min(text.len() - i);
                chunks.push(text[i..i + k].concat());
                i += k;
            }
            Rx::Substr(chunks, 0)
        }
    }
}

/// an intersection whose two sides stay alive separately while their intersection is already
/// empty: a required suffix against a length bound, or a required infix against a complement
pub fn gen_rx_tension(rng: &mut Rng) -> Rx {
    let cls = gen_class(rng);
    let wide = Rx::Class(vec![(b'a', b'e'), (b'x', b'x'), (b'0', b'1')]);
    let suffix = Rx::Lit((0..rng.range(1, 3)).map(|_| *rng.pick(&["x", "a", "b", "1"])).collect());
    let sl = match &suffix {
        Rx::Lit(t) => t.len() as u32,
        _ => 1,
    };
    let lo = rng.below(3) as u32;
    // the bound leaves room for the required suffix, so the intersection is never empty as a whole
    match rng.below(3) {
        0 => {
            let hi = (lo + rng.range(1, 4) as u32).max(sl + rng.below(2) as u32);
            Rx::And(vec![Rx::Cat(vec![Rx::Rep(Box::new(cls), 0, None), suffix]), Rx::Rep(Box::new(wide), lo, Some(hi))])
        }
        1 => {
            let hi = (lo + rng.range(1, 4) as u32).max(2 * sl + 1 + rng.below(2) as u32);
            Rx::And(vec![Rx::Cat(vec![Rx::Rep(Box::new(cls), 1, None), suffix.clone(), suffix]), Rx::Rep(Box::new(wide), lo, Some(hi))])
        }
        _ => {
            let hi = lo + rng.range(1, 4) as u32 + 2;
            Rx::And(vec![
                Rx::Rep(Box::new(wide.clone()), lo, Some(hi)),
                Rx::Not(Box::new(Rx::Cat(vec![Rx::Rep(Box::new(wide.clone()), 0, None), suffix, Rx::Rep(Box::new(wide), 0, None)]))),
            ])
        }
    }
}

pub fn gen_rx_ext(rng: &mut Rng, depth: usize) -> Rx {
    if rng.chance(1, 8) {
        return gen_substr(rng);
    }
    if rng.chance(1, 8) {
        return gen_rx_tension(rng);
    }
    if depth == 0 || rng.chance(1, 2) {
        return gen_rx(rng, depth);
    }
    match rng.below(4) {
        0 => Rx::And(vec![gen_rx_ext(rng, depth - 1), gen_rx_ext(rng, depth - 1)]),
        1 => Rx::And(vec![gen_rx(rng, depth), Rx::Not(Box::new(gen_rx(rng, depth - 1)))]),
        2 => Rx::Cat(vec![gen_rx_ext(rng, depth - 1), gen_rx(rng, depth - 1)]),
        _ => Rx::Alt(vec![gen_rx_ext(rng, depth - 1), gen_rx(rng, depth - 1)]),
    }
}
