//! C20: arbitrary input never crashes, corrupts or hangs the engine.
//! Inputs are executed in a child process (this binary, `c20-child`) under a memory limit and a
//! wall-clock limit; the child reports after every case, so a crash / abort / stack overflow /
//! hang is attributed to one input.
use crate::eng::*;
use crate::out::Out;
use crate::rng::Rng;
use crate::sexp::*;
use llguidance::api::{ParserLimits, TopLevelGrammar};
use llguidance::toktrie::{InferenceCapabilities, TokRxInfo, TokTrie};
use llguidance::{Matcher, ParserFactory};
use std::io::{BufRead, BufReader, Write};
use std::process::{Command, Stdio};
use std::time::{Duration, Instant};

#[derive(Clone, Debug)]
pub struct Case {
    pub kind: String, // lark | json | regex | slices | vocab
    pub text: Vec<u8>,
    pub seed: u64,
    pub tight: bool,
    pub name: String,
}

fn hex_s(b: &[u8]) -> String {
    b.iter().map(|x| format!("{x:02x}")).collect()
}
fn unhex_s(s: &str) -> Vec<u8> {
    (0..s.len() / 2).map(|i| u8::from_str_radix(&s[2 * i..2 * i + 2], 16).unwrap()).collect()
}

// ------------------------------------------------------------------ child
fn api_storm(m: &mut Matcher, rng: &mut Rng, vocab: usize) -> Result<(), String> {
    let mut committed = 0usize;
    for _ in 0..24 {
        let was_error = m.is_error();
        match rng.below(8) {
            0 | 1 | 2 => {
                if let Ok(mask) = m.compute_mask() {
                    let ml = mask_list(&mask);
                    if ml.iter().any(|&t| t as usize >= vocab) {
                        return Err("mask contains an id >= vocab size".into());
                    }
                    if !ml.is_empty() && rng.chance(4, 5) {
                        let t = ml[rng.below(ml.len())];
                        if m.consume_token(t).is_ok() {
                            committed += 1;
                        }
                    }
                }
            }
            3 => {
                let _ = m.consume_token(rng.below(vocab + 3) as u32);
            }
            4 => {
                let toks: Vec<u32> = (0..rng.below(4)).map(|_| rng.below(vocab + 2) as u32).collect();
                let _ = m.validate_tokens(&toks);
            }
            5 => {
                let _ = m.rollback(rng.below(committed + 2));
            }
            6 => {
                let _ = m.compute_ff_bytes();
                let _ = m.is_accepting();
            }
            _ => {
                let _ = m.compute_mask_or_eos();
            }
        }
        if let Some(e) = m.get_error() {
            if e.contains("panic") {
                return Err(format!("internal panic surfaced through the API: {}", e.lines().next().unwrap_or("")));
            }
        }
        if was_error && !m.is_error() {
            return Err("a failed engine stopped reporting its failure".into());
        }
    }
    Ok(())
}

fn run_one(c: &Case) -> Result<&'static str, String> {
    let mut rng = Rng::new(c.seed);
    let (ws, eos) = single_byte_vocab();
    let mut limits = ParserLimits::default();
    if c.tight {
        limits.max_items_in_row = 50;
        limits.initial_lexer_fuel = 20_000;
        limits.step_lexer_fuel = 5_000;
        limits.step_max_items = 500;
        limits.max_lexer_states = 500;
        limits.max_grammar_size = 2_000;
    }
    let text = String::from_utf8_lossy(&c.text).to_string();
    let build = |env: &llguidance::toktrie::TokEnv, slices: &[String], g: TopLevelGrammar| -> Result<Matcher, String> {
        let mut f = ParserFactory::new(env, InferenceCapabilities::default(), slices).map_err(|e| e.to_string())?;
        f.quiet();
        *f.limits_mut() = limits.clone();
        let p = f.create_parser(g).map_err(|e| e.to_string())?;
        Ok(Matcher::new(Ok(p)))
    };
    let env = make_env(&ws, eos, c.seed % 2 == 1);
    let res = match c.kind.as_str() {
        "lark" => build(&env, &[], TopLevelGrammar::from_lark(text)),
        "json" => match serde_json::from_str::<serde_json::Value>(&text) {
            Ok(v) => build(&env, &[], TopLevelGrammar::from_json_schema(v)),
            Err(e) => Err(e.to_string()),
        },
        "regex" => build(&env, &[], TopLevelGrammar::from_regex(&text)),
        "slices" => {
            let slices: Vec<String> = text.split('\n').map(|s| s.to_string()).collect();
            build(&env, &slices, TopLevelGrammar::from_lark("start: /[a-z ]{0,20}/\n".to_string()))
        }
        "vocab" => {
            // token bytes separated by 0x00 0x01
            let mut words: Vec<Vec<u8>> = vec![];
            let mut cur = vec![];
            let mut i = 0;
            while i < c.text.len() {
                if c.text[i] == 0 && i + 1 < c.text.len() && c.text[i + 1] == 1 {
                    words.push(std::mem::take(&mut cur));
                    i += 2;
                } else {
                    cur.push(c.text[i]);
                    i += 1;
                }
            }
            words.push(cur);
            let n = words.len() as u32;
            let r = std::panic::catch_unwind(|| TokTrie::from(&TokRxInfo::new(n, n.saturating_sub(1)), &words));
            match r {
                Ok(trie) => {
                    let env2: llguidance::toktrie::TokEnv = std::sync::Arc::new(VEnv { trie, canonical: false });
                    build(&env2, &[], TokLevel::lark())
                }
                // TokTrie::from asserts its documented limits (token length); the C API turns that
                // panic into an error string (ffi_guard_ptr), so it counts as a reported error
                Err(_) => return Ok("rejected"),
            }
        }
        _ => Err("unknown kind".into()),
    };
    match res {
        Err(e) => {
            if e.contains("panic") {
                return Err(format!("constructor reported an internal panic: {}", e.lines().next().unwrap_or("")));
            }
            Ok("rejected")
        }
        Ok(mut m) => {
            if m.is_error() {
                let e = m.get_error().unwrap_or_default();
                if e.contains("panic") {
                    return Err(format!("constructor reported an internal panic: {}", e.lines().next().unwrap_or("")));
                }
                return Ok("rejected");
            }
            let vocab = m.tok_env().map(|e| e.tok_trie().vocab_size()).unwrap_or(ws.len());
            api_storm(&mut m, &mut rng, vocab)?;
            Ok("ran")
        }
    }
}

struct TokLevel;
impl TokLevel {
    fn lark() -> TopLevelGrammar {
        TopLevelGrammar::from_lark("start: /[a-c]{1,5}/ \"x\"\n".to_string())
    }
}

pub fn child(path: &str) {
    let f = std::fs::File::open(path).expect("case file");
    let stdout = std::io::stdout();
    for (i, line) in BufReader::new(f).lines().enumerate() {
        let line = line.unwrap();
        let parts: Vec<&str> = line.split('\t').collect();
        if parts.len() < 4 {
            continue;
        }
        let c = Case { kind: parts[0].to_string(), text: unhex_s(parts[1]), seed: parts[2].parse().unwrap(), tight: parts[3] == "1", name: String::new() };
        {
            let mut o = stdout.lock();
            writeln!(o, "BEGIN {i}").unwrap();
            o.flush().unwrap();
        }
        let r = std::panic::catch_unwind(|| run_one(&c));
        let msg = match r {
            Ok(Ok(s)) => format!("OK {i} {s}"),
            Ok(Err(e)) => format!("FAIL {i} {}", e.replace('\n', " ")),
            Err(_) => format!("FAIL {i} panic escaped to the caller"),
        };
        let mut o = stdout.lock();
        writeln!(o, "{msg}").unwrap();
        o.flush().unwrap();
    }
}

// ------------------------------------------------------------------ generation
fn mutate(rng: &mut Rng, src: &[u8]) -> Vec<u8> {
    let mut v = src.to_vec();
    for _ in 0..rng.range(1, 4) {
        if v.is_empty() {
            v.push(b'a');
        }
        let i = rng.below(v.len());
        match rng.below(7) {
            0 => v[i] = rng.below(256) as u8,
            1 => {
                v.remove(i);
            }
            2 => v.insert(i, *rng.pick(b"(){}[]|*+?\"/\\:<>^$~&%,-.0123456789\n\xff\x00")),
            3 => {
                let j = (i + rng.below(20)).min(v.len());
                let chunk = v[i..j].to_vec();
                for _ in 0..rng.range(1, 4) {
                    let at = rng.below(v.len() + 1);
                    for (k, b) in chunk.iter().enumerate() {
                        v.insert(at + k, *b);
                    }
                }
            }
            4 => v.truncate(i),
            5 => {
                let n = rng.range(1, 30);
                for _ in 0..n {
                    v.insert(i, b'(');
                }
            }
            _ => {
                let s = format!("{{{},{}}}", rng.below(3), *rng.pick(&[5usize, 100, 5000, 100000, 4000000000]));
                for (k, b) in s.bytes().enumerate() {
                    v.insert((i + k).min(v.len()), b);
                }
            }
        }
    }
    v
}

fn adversarial(rng: &mut Rng) -> Case {
    let seed = rng.next();
    let tight = rng.chance(1, 2);
    let k = rng.below(16);
    let (kind, text): (&str, String) = match k {
        0 => ("lark", format!("start: {}\"a\"{}\n", "(".repeat(rng.range(10, 400)), ")".repeat(rng.range(10, 400)))),
        1 => ("lark", format!("start: a{{0,{}}}\na: \"x\" | a a\n", *rng.pick(&[10usize, 1000, 100000]))),
        2 => {
            // rule chain below the depth that overflows the stack (known finding covers the long one)
            let n = rng.range(20, 120);
            let mut s = String::from("start: r0\n");
            for i in 0..n {
                s.push_str(&format!("r{}: \"a\" r{}\n", i, i + 1));
            }
            s.push_str(&format!("r{}: \"b\"\n", n));
            ("lark", s)
        }
        3 => ("lark", format!("start: /{}/\n", "(a*)*".repeat(rng.range(1, 30)))),
        4 => ("lark", format!("start: /(a|aa|aaa){{{},{}}}b/\n", rng.range(1, 50), rng.range(50, 3000))),
        5 => ("lark", format!("start: {}\n", (0..rng.range(50, 2000)).map(|i| format!("\"k{i}\"")).collect::<Vec<_>>().join(" | "))),
        6 => {
            // nesting of every bracket kind the Lark front end recurses on
            let d = *rng.pick(&[5usize, 20, 40, 200, 1000, 3000, 6000]);
            match rng.below(4) {
                0 => ("lark", format!("{}start: \"a\"\n{}", "start: %lark {\n".repeat(d), "}\n".repeat(d))),
                1 => ("lark", format!("start: {}\"a\"{}\n", "[".repeat(d), "]".repeat(d))),
                2 => ("lark", format!("start: {}\"a\"{}\n", "(".repeat(d), ")?".repeat(d))),
                _ => ("lark", format!("start: T\nT: {}\"a\"{}\n", "~(".repeat(d), ")".repeat(d))),
            }
        }
        7 => ("lark", "start: start start | \"\"\n".to_string()),
        8 if rng.chance(1, 2) => {
            // deep nesting in the schema document itself: arrays of arrays, objects in objects
            let d = *rng.pick(&[10usize, 100, 127, 129, 1000, 5000]);
            if rng.chance(1, 2) {
                ("json", format!("{}{{\"type\":\"null\"}}{}", "{\"type\":\"array\",\"items\":".repeat(d), "}".repeat(d)))
            } else {
                ("json", format!("{}{{\"type\":\"null\"}}{}", "{\"type\":\"object\",\"properties\":{\"a\":".repeat(d), "}}".repeat(d)))
            }
        }
        8 => {
            let d = rng.range(5, 150);
            ("json", format!("{}{{\"type\":\"integer\"}}{}", "{\"allOf\":[".repeat(d), "]}".repeat(d)))
        }
        9 => ("json", "{\"$ref\":\"#/$defs/a\",\"$defs\":{\"a\":{\"$ref\":\"#/$defs/b\"},\"b\":{\"$ref\":\"#/$defs/a\"}}}".to_string()),
        10 => ("json", format!("{{\"type\":\"integer\",\"allOf\":[{{\"multipleOf\":{}}},{{\"multipleOf\":{}}}]}}", *rng.pick(&[65537u64, 4294967295, 99991, 7]), *rng.pick(&[65539u64, 4294967291, 99989, 0]))),
        11 => ("json", format!("{{\"type\":\"number\",\"minimum\":{},\"maximum\":{}}}", *rng.pick(&["-9223372036854775808", "1e308", "-1e-320", "0.1"]), *rng.pick(&["9223372036854775807", "1.7976931348623157e308", "1e-320", "0.30000000000000004"]))),
        12 => ("json", format!("{{\"type\":\"string\",\"minLength\":{},\"maxLength\":{}}}", rng.below(5), *rng.pick(&[3u64, 100000, 4294967296, 18446744073709551615]))),
        13 => ("regex", format!("{}", "(".repeat(rng.range(5, 300)) + "a" + &")".repeat(rng.range(5, 300)))),
        14 => ("slices", format!("[a-z]+\n[a-z]{{1,{}}}\n{}", *rng.pick(&[3usize, 50, 100000]), *rng.pick(&["(", "[a-z", "\\", "a{2,1}", ""]))),
        _ => {
            // vocabulary with very long / duplicate / empty / marker tokens
            let mut t: Vec<u8> = vec![];
            let n = rng.range(1, 40);
            for i in 0..n {
                if i > 0 {
                    t.extend_from_slice(&[0, 1]);
                }
                match rng.below(6) {
                    0 => t.extend(std::iter::repeat(b'a').take(*rng.pick(&[1usize, 300, 1023, 1024, 1025, 3000]))),
                    1 => {}
                    2 => t.extend_from_slice(b"\xff<|x|>"),
                    3 => t.push(0xff),
                    _ => t.extend_from_slice(gen_lit(rng, 3).as_bytes()),
                }
            }
            return Case { kind: "vocab".into(), text: t, seed, tight, name: String::new() };
        }
    };
    Case { kind: kind.to_string(), text: text.into_bytes(), seed, tight, name: String::new() }
}

fn corpus_named(prop: &str) -> Vec<(String, String)> {
    let mut out = vec![];
    let dir = std::path::Path::new(env!("CARGO_MANIFEST_DIR")).join("../corpus").join(prop);
    if let Ok(rd) = std::fs::read_dir(dir) {
        let mut files: Vec<_> = rd.filter_map(|e| e.ok()).map(|e| e.path()).collect();
        files.sort();
        for f in files {
            let stem = f.file_stem().map(|s| s.to_string_lossy().to_string()).unwrap_or_default();
            if let Ok(s) = std::fs::read_to_string(&f) {
                for l in s.lines() {
                    let l = l.trim();
                    if !l.is_empty() && !l.starts_with('#') {
                        out.push((stem.clone(), l.to_string()));
                    }
                }
            }
        }
    }
    out
}

pub fn gen_cases(rng: &mut Rng, n: usize) -> Vec<Case> {
    let mut cases = vec![];
    for (name, line) in corpus_named("C20") {
        let (kind, body) = match line.split_once(':') {
            Some((k, b)) if k == "json" || k == "regex" => (k.to_string(), b.to_string()),
            _ => ("lark".to_string(), line.clone()),
        };
        cases.push(Case { kind, text: body.replace("\\n", "\n").into_bytes(), seed: 1, tight: false, name });
    }
    for i in 0..n {
        let mut r = rng.fork(i as u64);
        let seed = r.next();
        let tight = r.chance(1, 3);
        let c = match r.below(10) {
            0 => Case { kind: (*r.pick(&["lark", "json", "regex"])).to_string(), text: (0..r.below(60)).map(|_| r.below(256) as u8).collect(), seed, tight, name: String::new() },
            1 | 2 | 3 => Case { kind: "lark".into(), text: { let g = gen_gram(&mut r).to_lark(); mutate(&mut r, g.as_bytes()) }, seed, tight, name: String::new() },
            4 | 5 => {
                let schemas = [
                    "{\"type\":\"object\",\"properties\":{\"a\":{\"type\":\"integer\",\"minimum\":-5,\"maximum\":17},\"b\":{\"type\":\"string\",\"pattern\":\"^[a-c]+$\"}},\"required\":[\"a\"]}",
                    "{\"type\":\"array\",\"items\":{\"anyOf\":[{\"type\":\"number\",\"multipleOf\":0.25},{\"enum\":[\"x\",null]}]},\"minItems\":1,\"maxItems\":3}",
                    "{\"oneOf\":[{\"type\":\"string\",\"format\":\"date\"},{\"type\":\"boolean\"}]}",
                ];
                Case { kind: "json".into(), text: { let sc = *r.pick(&schemas); mutate(&mut r, sc.as_bytes()) }, seed, tight, name: String::new() }
            }
            6 => Case { kind: "regex".into(), text: mutate(&mut r, b"(ab|c)*[a-z]{2,5}x?"), seed, tight, name: String::new() },
            _ => adversarial(&mut r),
        };
        cases.push(c);
    }
    cases
}

pub fn run(rng: &mut Rng, out: &mut Out, tier: &str) {
    let n = if tier == "thorough" { 20000 } else { 2000 };
    let cases = gen_cases(rng, n);
    let exe = std::env::current_exe().unwrap();
    // generous: the limit has to hold on a loaded machine too; an unbounded loop still trips it
    let per_case = Duration::from_secs(120);
    let mut start = 0usize;
    let mut nruns = 0;
    while start < cases.len() && nruns < 400 {
        nruns += 1;
        // write the remaining cases
        let path = out.dir.join("c20_cases.txt");
        {
            let mut f = std::fs::File::create(&path).unwrap();
            for c in &cases[start..] {
                writeln!(f, "{}\t{}\t{}\t{}", c.kind, hex_s(&c.text), c.seed, if c.tight { 1 } else { 0 }).unwrap();
            }
        }
        let mut ch = Command::new("sh")
            .arg("-c")
            .arg(format!("ulimit -v 6000000; ulimit -s 8192; exec {} c20-child {}", exe.display(), path.display()))
            .stdout(Stdio::piped())
            .stderr(Stdio::null())
            .spawn()
            .unwrap();
        let so = ch.stdout.take().unwrap();
        let (tx, rx) = std::sync::mpsc::channel::<String>();
        std::thread::spawn(move || {
            for l in BufReader::new(so).lines().map_while(Result::ok) {
                if tx.send(l).is_err() {
                    break;
                }
            }
        });
        let mut current: Option<usize> = None;
        let mut t_begin = Instant::now();
        let mut done_all = false;
        let mut failed_idx: Option<(usize, String)> = None;
        loop {
            match rx.recv_timeout(Duration::from_millis(200)) {
                Ok(l) => {
                    if let Some(r) = l.strip_prefix("BEGIN ") {
                        current = r.trim().parse().ok();
                        t_begin = Instant::now();
                    } else if l.starts_with("OK ") {
                        let what = l.split(' ').nth(2).unwrap_or("");
                        out.count(&format!("outcome_{what}"), 1);
                        current = None;
                    } else if let Some(r) = l.strip_prefix("FAIL ") {
                        let (i, msg) = r.split_once(' ').unwrap_or((r, ""));
                        let idx = start + i.parse::<usize>().unwrap_or(0);
                        let c = &cases[idx];
                        out.violation(msg, format!("outcome=failed corpus={} kind={} tight={} seed={} text={:?}", c.name, c.kind, c.tight, c.seed, String::from_utf8_lossy(&c.text)));
                        current = None;
                    }
                }
                Err(std::sync::mpsc::RecvTimeoutError::Timeout) => {
                    if let Some(i) = current {
                        if t_begin.elapsed() > per_case {
                            let _ = ch.kill();
                            failed_idx = Some((start + i, format!("no result within {} s (hang or unbounded computation)", per_case.as_secs())));
                            break;
                        }
                    }
                    if let Ok(Some(_)) = ch.try_wait() {
                        // drained?
                        if let Ok(l) = rx.recv_timeout(Duration::from_millis(300)) {
                            let _ = l;
                            continue;
                        }
                        match current {
                            Some(i) => failed_idx = Some((start + i, "the process died (abort / stack overflow / out of memory)".to_string())),
                            None => done_all = true,
                        }
                        break;
                    }
                }
                Err(_) => {
                    let _ = ch.wait();
                    match current {
                        Some(i) => failed_idx = Some((start + i, "the process died (abort / stack overflow / out of memory)".to_string())),
                        None => done_all = true,
                    }
                    break;
                }
            }
        }
        let _ = ch.wait();
        if let Some((idx, msg)) = failed_idx {
            let c = &cases[idx];
            let shown = if c.text.len() > 400 { format!("{}... ({} bytes)", String::from_utf8_lossy(&c.text[..400]), c.text.len()) } else { String::from_utf8_lossy(&c.text).to_string() };
            let oc = if msg.starts_with("no result") { "hang" } else { "died" };
            out.violation(&msg, format!("outcome={} corpus={} kind={} tight={} seed={} text={:?}", oc, c.name, c.kind, c.tight, c.seed, shown));
            start = idx + 1;
        } else if done_all {
            break;
        } else {
            break;
        }
    }
    for c in &cases {
        out.count(&format!("kind_{}", c.kind), 1);
    }
    // the modelled half: matcher sessions with illegal calls (ids out of range, tokens not in the
    // mask, rollbacks) and the multipleOf arithmetic, replayed on the model
    let ns = if tier == "thorough" { 1500 } else { 150 };
    let cfg = crate::c01::SessionCfg { steps: 6, extra_vocab: 20, check_all_tokens: false, derived_vocab: false };
    for i in 0..ns {
        let mut r = rng.fork(0x6000_0000 + i as u64);
        crate::c01::session_case(&mut r, out, &cfg, "C20");
        let mut r = rng.fork(0x7000_0000 + i as u64);
        crate::c11::session(&mut r, out, true, "C20", None);
    }
    let (ws, eos) = single_byte_vocab();
    let env = make_env(&ws, eos, false);
    crate::c08::lcm_cases(rng, out, &env, if tier == "thorough" { 300 } else { 40 });
}
