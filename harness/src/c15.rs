//! C15: grammar optimisation preserves the language (sets of terminal sequences up to a bound,
//! before and after Grammar::optimize, through the public API).
use crate::eng::*;
use crate::out::Out;
use crate::rng::Rng;
use crate::sexp::*;
use llguidance::api::{GrammarInit, ParserLimits, TopLevelGrammar};
use std::collections::{BTreeMap, BTreeSet};

/// rules parsed from Grammar::to_string: lhs -> alternatives of symbol names
fn parse_grammar_text(text: &str) -> Option<(String, BTreeMap<String, Vec<Vec<String>>>)> {
    let mut rules: BTreeMap<String, Vec<Vec<String>>> = BTreeMap::new();
    let mut cur = String::new();
    let mut first: Option<String> = None;
    for line in text.lines() {
        let Some((lhs, rhs)) = line.split_once('⇦') else { continue };
        let lhs = lhs.trim();
        if !lhs.is_empty() {
            cur = lhs.to_string();
            if first.is_none() {
                first = Some(cur.clone());
            }
        }
        if cur.is_empty() {
            return None;
        }
        let syms: Vec<String> = rhs.split_whitespace().filter(|s| *s != "ϵ").map(|s| s.to_string()).collect();
        if syms.iter().any(|s| s.contains('⇦')) {
            return None;
        }
        rules.entry(cur.clone()).or_default().push(syms);
    }
    // the start symbol is the one named "start" (or "_start_repl" after optimisation)
    let start = if rules.contains_key("_start_repl") { "_start_repl".to_string() } else { "start".to_string() };
    if !rules.contains_key(&start) {
        return None;
    }
    let _ = first;
    Some((start, rules))
}

/// all terminal sequences of length <= bound derivable from `start` (fixpoint over nonterminals)
fn language(start: &str, rules: &BTreeMap<String, Vec<Vec<String>>>, bound: usize) -> BTreeSet<Vec<String>> {
    let mut lang: BTreeMap<String, BTreeSet<Vec<String>>> = rules.keys().map(|k| (k.clone(), BTreeSet::new())).collect();
    loop {
        let mut changed = false;
        for (lhs, alts) in rules {
            for alt in alts {
                // concatenate the languages of the symbols, truncated at bound
                let mut acc: BTreeSet<Vec<String>> = BTreeSet::new();
                acc.insert(vec![]);
                for s in alt {
                    let mut next = BTreeSet::new();
                    let sl: BTreeSet<Vec<String>> = match lang.get(s) {
                        Some(l) => l.clone(),
                        None => [vec![s.clone()]].into_iter().collect(), // terminal
                    };
                    for a in &acc {
                        for b in &sl {
                            if a.len() + b.len() <= bound {
                                let mut c = a.clone();
                                c.extend(b.iter().cloned());
                                next.insert(c);
                            }
                        }
                    }
                    acc = next;
                    if acc.is_empty() {
                        break;
                    }
                }
                let e = lang.get_mut(lhs).unwrap();
                for w in acc {
                    if e.insert(w) {
                        changed = true;
                    }
                }
            }
        }
        if !changed {
            break;
        }
    }
    lang.get(start).cloned().unwrap_or_default()
}

/// grammars rich in aliases, single-use rules and chains (what the inliner rewrites)
fn gen_opt_gram(rng: &mut Rng) -> Gram {
    let mut g = gen_gram(rng);
    let nlex = g.lexemes.len();
    let n0 = g.rules.len();
    // alias and single-use chains appended
    for _ in 0..rng.range(1, 4) {
        let k = g.rules.len();
        match rng.below(3) {
            0 => g.rules.push(vec![vec![Sym::N(rng.below(k))]]), // alias
            1 => g.rules.push(vec![(0..rng.range(1, 3)).map(|_| if rng.chance(1, 2) { Sym::N(rng.below(k)) } else { Sym::T(rng.below(nlex)) }).collect()]),
            _ => g.rules.push(vec![vec![], vec![Sym::T(rng.below(nlex))]]),
        }
    }
    // reference the new rules from the old ones
    let total = g.rules.len();
    for i in 0..n0 {
        for alt in g.rules[i].iter_mut() {
            for s in alt.iter_mut() {
                if let Sym::N(_) = s {
                    if rng.chance(1, 2) {
                        *s = Sym::N(rng.below(total));
                    }
                }
            }
        }
    }
    g
}

pub fn case(rng: &mut Rng, out: &mut Out, bound: usize) {
    let g = gen_opt_gram(rng);
    // all lexemes as plain named regex terminals so that symbol names are simple
    let mut g2 = g.clone();
    for (i, l) in g2.lexemes.iter_mut().enumerate() {
        *l = Rx::Lit(format!("t{i}x"));
    }
    let mut lark = g2.to_lark();
    // a third of the grammars mark some rules as captures: such symbols must survive the optimiser (the dump
    // shows them with a CAPTURE marker, which the language comparison treats as one more terminal); the
    // optimiser model has no attributes, so these cases are implementation-only
    let captured = rng.chance(1, 3);
    if captured {
        for i in 1..g2.rules.len() {
            if rng.chance(1, 2) {
                let named = if rng.chance(1, 2) { "[capture]".to_string() } else { format!("[capture=\"c{i}\"]") };
                lark = lark.replace(&format!("\nn{i}: "), &format!("\nn{i}{named}: "));
            }
        }
    }
    let gi = GrammarInit::Serialized(TopLevelGrammar::from_lark(lark.clone()));
    let Ok((gram, lex)) = gi.to_internal(None, ParserLimits::default()) else {
        out.count("grammar_rejected", 1);
        return;
    };
    let before = gram.to_string(Some(&lex));
    let after = gram.optimize().to_string(Some(&lex));
    if captured {
        out.count("grammars_with_captures", 1);
        // every captured symbol is still there, with its marker
        for l in before.lines().filter(|l| l.contains("CAPTURE")) {
            let name = l.split('⇦').next().unwrap_or("").trim().to_string();
            if !name.is_empty() && !after.lines().any(|a| a.contains("CAPTURE") && a.split('⇦').next().unwrap_or("").trim() == name) {
                out.violation(&format!("the captured symbol {name} does not survive optimize()"), format!("{lark}\n--- before ---\n{before}\n--- after ---\n{after}"));
            }
        }
    }
    compare_dumps(out, &lark, &before, &after, bound, !captured);
}

/// languages (terminal sequences up to `bound`) of the grammar dumps before and after optimisation;
/// the model enumerates the language of the front-end rules (and, with `optimizer_case`, runs its own
/// optimiser on them)
fn compare_dumps(out: &mut Out, lark: &str, before: &str, after: &str, bound: usize, optimizer_case: bool) {
    let (Some((s1, r1)), Some((s2, r2))) = (parse_grammar_text(before), parse_grammar_text(after)) else {
        out.count("unparsable_dump", 1);
        return;
    };
    let l1 = language(&s1, &r1, bound);
    let l2 = language(&s2, &r2, bound);
    if l1 != l2 {
        let only1: Vec<_> = l1.difference(&l2).take(3).cloned().collect();
        let only2: Vec<_> = l2.difference(&l1).take(3).cloned().collect();
        out.violation(
            &format!("optimize() changed the language: only before {:?}, only after {:?}", only1, only2),
            format!("{lark}\n--- before ---\n{before}\n--- after ---\n{after}"),
        );
    }
    out.count("grammars", 1);
    out.count("sequences", l1.len() as u64);
    out.count("rules_before", r1.values().map(|v| v.len()).sum::<usize>() as u64);
    out.count("rules_after", r2.values().map(|v| v.len()).sum::<usize>() as u64);
    // model side: the language of the front-end grammar as the Coq specification enumerates it,
    // compared with the language of the implementation's optimised grammar
    let names: Vec<String> = r1.keys().cloned().collect();
    let idx = |n: &String| names.iter().position(|x| x == n);
    let mut terms: Vec<String> = vec![];
    for alts in r1.values().chain(r2.values()) {
        for alt in alts {
            for s in alt {
                if !r1.contains_key(s) && !r2.contains_key(s) && !terms.contains(s) {
                    terms.push(s.clone());
                }
            }
        }
    }
    terms.sort();
    let rules_sx: Vec<Sx> = names
        .iter()
        .map(|n| {
            list(
                r1[n]
                    .iter()
                    .map(|alt| {
                        list(
                            alt.iter()
                                .map(|s| match idx(s) {
                                    Some(i) => tagged("n", vec![int(i)]),
                                    None => tagged("t", vec![int(terms.iter().position(|x| x == s).unwrap())]),
                                })
                                .collect(),
                        )
                    })
                    .collect(),
            )
        })
        .collect();
    let after_lang: Vec<Sx> = l2
        .iter()
        .map(|w| ints(&w.iter().map(|s| terms.iter().position(|x| x == s).unwrap_or(999)).collect::<Vec<_>>()))
        .collect();
    if !terms.iter().any(|t| t == "CAPTURE") {
        out.case(
            tagged("optlang", vec![tagged("rules", rules_sx.clone()), int(idx(&s1).unwrap()), int(terms.len()), int(bound)]),
            tagged("ok", after_lang),
            l1.len() > 1,
        );
    }
    // the optimiser itself: rules of every symbol after optimisation, symbol by symbol (by name)
    if s2 == s1 && optimizer_case {
        let after_rules: Vec<Sx> = names
            .iter()
            .map(|n| {
                list(
                    r2.get(n)
                        .map(|alts| {
                            alts.iter()
                                .map(|alt| {
                                    list(
                                        alt.iter()
                                            .map(|s| match idx(s) {
                                                Some(i) => tagged("n", vec![int(i)]),
                                                None => tagged("t", vec![int(terms.iter().position(|x| x == s).unwrap_or(999))]),
                                            })
                                            .collect(),
                                    )
                                })
                                .collect()
                        })
                        .unwrap_or_default(),
                )
            })
            .collect();
        out.case(
            tagged("optimize", vec![tagged("rules", rules_sx), int(idx(&s1).unwrap()), int(terms.len())]),
            tagged("ok", after_rules),
            true,
        );
        out.count("optimizer_cases", 1);
    }
}


// ------------------------------------------------------------------ parametric grammars (implementation only)
#[derive(Clone, Debug)]
enum PExpr {
    SelfRef,
    Const(u64),
    Incr,
    Decr,
    SetBit(u32),
    ClearBit(u32),
    Null,
}
#[derive(Clone, Debug)]
enum PCond {
    Ge(u64),
    Gt(u64),
    Le(u64),
    Lt(u64),
    Ne(u64),
    Eq(u64),
    BitSet(u32),
    BitClear(u32),
}
#[derive(Clone, Debug)]
enum PSym {
    T(String),
    N(String, PExpr),
}
type PRules = BTreeMap<String, Vec<(Vec<PSym>, Option<PCond>)>>;

fn parse_u64(s: &str) -> Option<u64> {
    let s = s.trim();
    if let Some(h) = s.strip_prefix("0x") {
        u64::from_str_radix(h, 16).ok()
    } else {
        s.parse().ok()
    }
}
fn parse_pexpr(s: &str) -> Option<PExpr> {
    Some(match s {
        "_" => PExpr::SelfRef,
        "null" => PExpr::Null,
        "incr(_)" => PExpr::Incr,
        "decr(_)" => PExpr::Decr,
        _ if s.starts_with("set_bit(") => PExpr::SetBit(s[8..s.len() - 1].parse().ok()?),
        _ if s.starts_with("clear_bit(") => PExpr::ClearBit(s[10..s.len() - 1].parse().ok()?),
        _ => PExpr::Const(parse_u64(s)?),
    })
}
fn parse_pcond(s: &str) -> Option<PCond> {
    let s = s.trim();
    let inner = |p: &str| -> Option<String> { s.strip_prefix(p).and_then(|r| r.strip_suffix(')')).map(|r| r.to_string()) };
    let val = |r: String| -> Option<u64> {
        let (a, b) = r.split_once(',')?;
        if a.trim() != "_" {
            return None;
        }
        parse_u64(b)
    };
    if let Some(r) = inner("ge(") {
        return Some(PCond::Ge(val(r)?));
    }
    if let Some(r) = inner("gt(") {
        return Some(PCond::Gt(val(r)?));
    }
    if let Some(r) = inner("le(") {
        return Some(PCond::Le(val(r)?));
    }
    if let Some(r) = inner("lt(") {
        return Some(PCond::Lt(val(r)?));
    }
    if let Some(r) = inner("ne(") {
        return Some(PCond::Ne(val(r)?));
    }
    if let Some(r) = inner("eq(") {
        return Some(PCond::Eq(val(r)?));
    }
    if let Some(r) = inner("bit_set(") {
        return Some(PCond::BitSet(r.trim().parse().ok()?));
    }
    if let Some(r) = inner("bit_clear(") {
        return Some(PCond::BitClear(r.trim().parse().ok()?));
    }
    if s == "is_zeros(_)" {
        return Some(PCond::Eq(0));
    }
    None
}
fn parse_param_grammar(text: &str) -> Option<(String, PRules)> {
    let mut rules: PRules = BTreeMap::new();
    let mut cur = String::new();
    for line in text.lines() {
        let Some((lhs, rest)) = line.split_once('⇦') else { continue };
        let lhs = lhs.trim();
        if !lhs.is_empty() {
            cur = lhs.split("::").next()?.to_string();
        }
        if cur.is_empty() {
            return None;
        }
        let (rhs, cond) = match rest.split_once("%if") {
            Some((a, c)) => (a, Some(parse_pcond(c)?)),
            None => (rest, None),
        };
        let mut syms = vec![];
        for tok in rhs.split_whitespace() {
            if tok == "ϵ" {
                continue;
            }
            if let Some((n, e)) = tok.split_once("::") {
                syms.push(PSym::N(n.to_string(), parse_pexpr(e)?));
            } else {
                syms.push(PSym::T(tok.to_string()));
            }
        }
        rules.entry(cur.clone()).or_default().push((syms, cond));
    }
    // names without "::" that are rule heads are non-parametric nonterminals
    let heads: BTreeSet<String> = rules.keys().cloned().collect();
    for alts in rules.values_mut() {
        for (syms, _) in alts.iter_mut() {
            for s in syms.iter_mut() {
                if let PSym::T(n) = s {
                    if heads.contains(n) {
                        *s = PSym::N(n.clone(), PExpr::Null);
                    }
                }
            }
        }
    }
    let start = if rules.contains_key("_start_repl") { "_start_repl".to_string() } else { "start".to_string() };
    if !rules.contains_key(&start) {
        return None;
    }
    Some((start, rules))
}
fn eval_expr(e: &PExpr, v: u64) -> u64 {
    match e {
        PExpr::SelfRef => v,
        PExpr::Const(c) => *c,
        PExpr::Null => 0,
        PExpr::Incr => v.saturating_add(1),
        PExpr::Decr => v.saturating_sub(1),
        PExpr::SetBit(k) => v | (1 << k),
        PExpr::ClearBit(k) => v & !(1 << k),
    }
}
fn eval_cond(c: &Option<PCond>, v: u64) -> bool {
    match c {
        None => true,
        Some(PCond::Ge(a)) => v >= *a,
        Some(PCond::Gt(a)) => v > *a,
        Some(PCond::Le(a)) => v <= *a,
        Some(PCond::Lt(a)) => v < *a,
        Some(PCond::Ne(a)) => v != *a,
        Some(PCond::Eq(a)) => v == *a,
        Some(PCond::BitSet(k)) => v >> k & 1 == 1,
        Some(PCond::BitClear(k)) => v >> k & 1 == 0,
    }
}
/// terminal sequences of length <= bound from (start, 0); None when too many instances are reachable
fn param_language(start: &str, rules: &PRules, bound: usize) -> Option<BTreeSet<Vec<String>>> {
    // reachable (symbol, value) instances
    let mut inst: BTreeSet<(String, u64)> = BTreeSet::new();
    let mut todo = vec![(start.to_string(), 0u64)];
    while let Some((n, v)) = todo.pop() {
        if !inst.insert((n.clone(), v)) {
            continue;
        }
        if inst.len() > 400 {
            return None;
        }
        for (syms, cond) in rules.get(&n)? {
            if !eval_cond(cond, v) {
                continue;
            }
            for s in syms {
                if let PSym::N(m, e) = s {
                    todo.push((m.clone(), eval_expr(e, v)));
                }
            }
        }
    }
    let mut lang: BTreeMap<(String, u64), BTreeSet<Vec<String>>> = inst.iter().map(|k| (k.clone(), BTreeSet::new())).collect();
    loop {
        let mut changed = false;
        for (n, v) in &inst {
            for (syms, cond) in &rules[n] {
                if !eval_cond(cond, *v) {
                    continue;
                }
                let mut acc: BTreeSet<Vec<String>> = [vec![]].into_iter().collect();
                for s in syms {
                    let sl: BTreeSet<Vec<String>> = match s {
                        PSym::T(t) => [vec![t.clone()]].into_iter().collect(),
                        PSym::N(m, e) => lang.get(&(m.clone(), eval_expr(e, *v))).cloned().unwrap_or_default(),
                    };
                    let mut next = BTreeSet::new();
                    for a in &acc {
                        for b in &sl {
                            if a.len() + b.len() <= bound {
                                let mut c = a.clone();
                                c.extend(b.iter().cloned());
                                next.insert(c);
                            }
                        }
                    }
                    acc = next;
                    if acc.is_empty() {
                        break;
                    }
                }
                let e = lang.get_mut(&(n.clone(), *v)).unwrap();
                for w in acc {
                    if e.insert(w) {
                        changed = true;
                    }
                }
            }
        }
        if !changed {
            break;
        }
    }
    lang.get(&(start.to_string(), 0)).cloned()
}

fn gen_param_lark(rng: &mut Rng) -> String {
    let n = rng.range(2, 4);
    let mut out = format!("start: p0::{}{}\n", rng.below(2), if rng.chance(1, 2) { " \"e\"" } else { "" });
    let cond = |rng: &mut Rng| -> String {
        let a = rng.below(4);
        match rng.below(6) {
            0 => format!(" %if ge(_, {a})"),
            1 => format!(" %if lt(_, {})", a + 1),
            2 => format!(" %if le(_, {a})"),
            3 => format!(" %if gt(_, {a})"),
            4 => format!(" %if ne(_, {a})"),
            _ => String::new(),
        }
    };
    for i in 0..n {
        let mut alts: Vec<String> = vec![];
        // guarded self recursion keeps the language finite per value
        if rng.chance(2, 3) {
            alts.push(format!("\"t{}\" p{i}::incr(_) %if lt(_, {})", rng.below(3), rng.range(2, 4)));
        }
        for _ in 0..rng.range(1, 2) {
            let mut a = String::new();
            for _ in 0..rng.below(2) {
                a.push_str(&format!("\"t{}\" ", rng.below(3)));
            }
            if i + 1 < n && rng.chance(3, 4) {
                let j = rng.range(i + 1, n - 1);
                let e = *rng.pick(&["_", "_", "incr(_)", "1", "set_bit(1)"]);
                a.push_str(&format!("p{j}::{e}"));
            } else {
                a.push_str(&format!("\"t{}\"", rng.below(3)));
            }
            a.push_str(&cond(rng));
            alts.push(a);
        }
        out.push_str(&format!("p{i}::_: {}\n", alts.join("\n    | ")));
    }
    out
}

pub fn param_case(rng: &mut Rng, out: &mut Out, bound: usize) {
    let lark = gen_param_lark(rng);
    let gi = GrammarInit::Serialized(TopLevelGrammar::from_lark(lark.clone()));
    let Ok((gram, lex)) = gi.to_internal(None, ParserLimits::default()) else {
        out.count("param_grammar_rejected", 1);
        return;
    };
    let before = gram.to_string(Some(&lex));
    let opt = std::panic::catch_unwind(std::panic::AssertUnwindSafe(|| gram.optimize().to_string(Some(&lex))));
    let Ok(after) = opt else {
        // the optimiser asserts on some parametric shapes; the engine reports that as a grammar error
        out.count("param_optimizer_assert", 1);
        return;
    };
    let (Some((s1, r1)), Some((s2, r2))) = (parse_param_grammar(&before), parse_param_grammar(&after)) else {
        out.count("param_unparsable_dump", 1);
        return;
    };
    let (Some(l1), Some(l2)) = (param_language(&s1, &r1, bound), param_language(&s2, &r2, bound)) else {
        out.count("param_too_many_instances", 1);
        return;
    };
    if l1 != l2 {
        let only1: Vec<_> = l1.difference(&l2).take(3).cloned().collect();
        let only2: Vec<_> = l2.difference(&l1).take(3).cloned().collect();
        out.violation(
            &format!("optimize() changed the language of a parametric grammar: only before {:?}, only after {:?}", only1, only2),
            format!("{lark}\n--- before ---\n{before}\n--- after ---\n{after}"),
        );
    }
    out.count("param_grammars", 1);
    out.count("param_sequences", l1.len() as u64);
    if before.matches("%if").count() != after.matches("%if").count() {
        out.count("param_conditions_rewritten", 1);
    }
}


// ------------------------------------------------------------------ JSON-schema front end
fn gen_ref_schema(rng: &mut Rng) -> serde_json::Value {
    use serde_json::json;
    let leaf = |rng: &mut Rng| -> serde_json::Value {
        match rng.below(5) {
            0 => json!({"type": "null"}),
            1 => json!({"type": "boolean"}),
            2 => json!({"const": 1}),
            3 => json!({"enum": ["a", "b"]}),
            _ => json!({"type": "integer", "minimum": 0, "maximum": 9}),
        }
    };
    let names = ["A", "B", "C"];
    let ndefs = rng.range(1, 3);
    // use sites: a definition referenced once is inlined by the optimiser, one referenced twice is kept
    fn node(rng: &mut Rng, names: &[&str], ndefs: usize, depth: usize, from: usize, leaf: &dyn Fn(&mut Rng) -> serde_json::Value) -> serde_json::Value {
        use serde_json::json;
        let k = if depth == 0 { rng.below(3) } else { rng.below(8) };
        match k {
            0 | 1 => {
                // references only go to later definitions (no recursion) unless `rec`
                let lo = from;
                if lo < ndefs { json!({"$ref": format!("#/$defs/{}", names[rng.range(lo, ndefs - 1)])}) } else { leaf(rng) }
            }
            2 => leaf(rng),
            3 => json!({"anyOf": [node(rng, names, ndefs, depth - 1, from, leaf), node(rng, names, ndefs, depth - 1, from, leaf)]}),
            4 => json!({"type": "object", "properties": {"x": node(rng, names, ndefs, depth - 1, from, leaf)}, "required": ["x"], "additionalProperties": false}),
            5 => json!({"type": "object", "properties": {"x": node(rng, names, ndefs, depth - 1, from, leaf), "y": node(rng, names, ndefs, depth - 1, from, leaf)}, "required": if rng.chance(1, 2) { vec!["x"] } else { vec!["x", "y"] }, "additionalProperties": false}),
            6 => json!({"type": "array", "items": node(rng, names, ndefs, depth - 1, from, leaf), "maxItems": rng.range(1, 2)}),
            _ => json!({"type": "array", "prefixItems": [node(rng, names, ndefs, depth - 1, from, leaf)], "items": false, "minItems": 1}),
        }
    }
    let mut defs = serde_json::Map::new();
    for i in 0..ndefs {
        let d = if rng.chance(1, 6) {
            // a recursive definition (list / tree)
            json!({"anyOf": [{"type": "null"}, {"type": "object", "properties": {"n": {"$ref": format!("#/$defs/{}", names[i])}}, "required": ["n"], "additionalProperties": false}]})
        } else {
            node(rng, &names, ndefs, 2, i + 1, &leaf)
        };
        defs.insert(names[i].to_string(), d);
    }
    let mut root = node(rng, &names, ndefs, 2, 0, &leaf);
    if !root.is_object() {
        root = json!({"anyOf": [root]});
    }
    root["$defs"] = serde_json::Value::Object(defs);
    root["x-guidance"] = json!({"whitespace_flexible": false});
    root
}

pub fn json_case(rng: &mut Rng, out: &mut Out, bound: usize) {
    let schema = gen_ref_schema(rng);
    let gi = GrammarInit::Serialized(TopLevelGrammar::from_json_schema(schema.clone()));
    let Ok((gram, lex)) = gi.to_internal(None, ParserLimits::default()) else {
        out.count("grammar_rejected", 1);
        return;
    };
    let before = gram.to_string(Some(&lex));
    let r = std::panic::catch_unwind(std::panic::AssertUnwindSafe(|| gram.optimize().to_string(Some(&lex))));
    let Ok(after) = r else {
        out.violation("Grammar::optimize panicked on a JSON-schema grammar", schema.to_string());
        return;
    };
    compare_dumps(out, &schema.to_string(), &before, &after, bound, false);
    out.count("json_schema_grammars", 1);
}

pub fn run(rng: &mut Rng, out: &mut Out, tier: &str) {
    let (n, bound) = if tier == "thorough" { (4000, 6) } else { (500, 5) };
    for i in 0..n {
        let mut r = rng.fork(i as u64);
        case(&mut r, out, bound);
        let mut r = rng.fork(0x1500_0000 + i as u64);
        param_case(&mut r, out, bound + 1);
        let mut r = rng.fork(0x1600_0000 + i as u64);
        json_case(&mut r, out, bound + 3);
    }
}
