//! C15: grammar optimisation preserves the language (sets of terminal sequences up to a bound,
//! before and after Grammar::optimize, through the public API).
use crate::eng::*;
use crate::out::Out;
use crate::rng::Rng;
use crate::sexp::*;
use llguidance::api::{GrammarInit, ParserLimits, TopLevelGrammar};
use std::collections::{BTreeMap, BTreeSet};

/// rules parsed from Grammar::to_string: lhs -> alternatives of symbol names
fn parse_grammar_text(text: &str) -> Option<(String, BTreeMap<String, Vec<Vec<String>>>)> {
    let mut rules: BTreeMap<String, Vec<Vec<String>>> = BTreeMap::new();
    let mut cur = String::new();
    let mut first: Option<String> = None;
    for line in text.lines() {
        let Some((lhs, rhs)) = line.split_once('⇦') else { continue };
        let lhs = lhs.trim();
        if !lhs.is_empty() {
            cur = lhs.to_string();
            if first.is_none() {
                first = Some(cur.clone());
            }
        }
        if cur.is_empty() {
            return None;
        }
        let syms: Vec<String> = rhs.split_whitespace().filter(|s| *s != "ϵ").map(|s| s.to_string()).collect();
        if syms.iter().any(|s| s.contains('⇦')) {
            return None;
        }
        rules.entry(cur.clone()).or_default().push(syms);
    }
    // the start symbol is the one named "start" (or "_start_repl" after optimisation)
    let start = if rules.contains_key("_start_repl") { "_start_repl".to_string() } else { "start".to_string() };
    if !rules.contains_key(&start) {
        return None;
    }
    let _ = first;
    Some((start, rules))
}

/// all terminal sequences of length <= bound derivable from `start` (fixpoint over nonterminals)
fn language(start: &str, rules: &BTreeMap<String, Vec<Vec<String>>>, bound: usize) -> BTreeSet<Vec<String>> {
    let mut lang: BTreeMap<String, BTreeSet<Vec<String>>> = rules.keys().map(|k| (k.clone(), BTreeSet::new())).collect();
    loop {
        let mut changed = false;
        for (lhs, alts) in rules {
            for alt in alts {
                // concatenate the languages of the symbols, truncated at bound
                let mut acc: BTreeSet<Vec<String>> = BTreeSet::new();
                acc.insert(vec![]);
                for s in alt {
                    let mut next = BTreeSet::new();
                    let sl: BTreeSet<Vec<String>> = match lang.get(s) {
                        Some(l) => l.clone(),
                        None => [vec![s.clone()]].into_iter().collect(), // terminal
                    };
                    for a in &acc {
                        for b in &sl {
                            if a.len() + b.len() <= bound {
                                let mut c = a.clone();
                                c.extend(b.iter().cloned());
                                next.insert(c);
                            }
                        }
                    }
                    acc = next;
                    if acc.is_empty() {
                        break;
                    }
                }
                let e = lang.get_mut(lhs).unwrap();
                for w in acc {
                    if e.insert(w) {
                        changed = true;
                    }
                }
            }
        }
        if !changed {
            break;
        }
    }
    lang.get(start).cloned().unwrap_or_default()
}

/// grammars rich in aliases, single-use rules and chains (what the inliner rewrites)
fn gen_opt_gram(rng: &mut Rng) -> Gram {
    let mut g = gen_gram(rng);
    let nlex = g.lexemes.len();
    let n0 = g.rules.len();
    // alias and single-use chains appended
    for _ in 0..rng.range(1, 4) {
        let k = g.rules.len();
        match rng.below(3) {
            0 => g.rules.push(vec![vec![Sym::N(rng.below(k))]]), // alias
            1 => g.rules.push(vec![(0..rng.range(1, 3)).map(|_| if rng.chance(1, 2) { Sym::N(rng.below(k)) } else { Sym::T(rng.below(nlex)) }).collect()]),
            _ => g.rules.push(vec![vec![], vec![Sym::T(rng.below(nlex))]]),
        }
    }
    // reference the new rules from the old ones
    let total = g.rules.len();
    for i in 0..n0 {
        for alt in g.rules[i].iter_mut() {
            for s in alt.iter_mut() {
                if let Sym::N(_) = s {
                    if rng.chance(1, 2) {
                        *s = Sym::N(rng.below(total));
                    }
                }
            }
        }
    }
    g
}

pub fn case(rng: &mut Rng, out: &mut Out, bound: usize) {
    let g = gen_opt_gram(rng);
    // all lexemes as plain named regex terminals so that symbol names are simple
    let mut g2 = g.clone();
    for (i, l) in g2.lexemes.iter_mut().enumerate() {
        *l = Rx::Lit(format!("t{i}x"));
    }
    let lark = g2.to_lark();
    let gi = GrammarInit::Serialized(TopLevelGrammar::from_lark(lark.clone()));
    let Ok((gram, lex)) = gi.to_internal(None, ParserLimits::default()) else {
        out.count("grammar_rejected", 1);
        return;
    };
    let before = gram.to_string(Some(&lex));
    let after = gram.optimize().to_string(Some(&lex));
    let (Some((s1, r1)), Some((s2, r2))) = (parse_grammar_text(&before), parse_grammar_text(&after)) else {
        out.count("unparsable_dump", 1);
        return;
    };
    let l1 = language(&s1, &r1, bound);
    let l2 = language(&s2, &r2, bound);
    if l1 != l2 {
        let only1: Vec<_> = l1.difference(&l2).take(3).cloned().collect();
        let only2: Vec<_> = l2.difference(&l1).take(3).cloned().collect();
        out.violation(
            &format!("optimize() changed the language: only before {:?}, only after {:?}", only1, only2),
            format!("{lark}\n--- before ---\n{before}\n--- after ---\n{after}"),
        );
    }
    out.count("grammars", 1);
    out.count("sequences", l1.len() as u64);
    out.count("rules_before", r1.values().map(|v| v.len()).sum::<usize>() as u64);
    out.count("rules_after", r2.values().map(|v| v.len()).sum::<usize>() as u64);
    // model side: the language of the front-end grammar as the Coq specification enumerates it,
    // compared with the language of the implementation's optimised grammar
    let names: Vec<String> = r1.keys().cloned().collect();
    let idx = |n: &String| names.iter().position(|x| x == n);
    let mut terms: Vec<String> = vec![];
    for alts in r1.values().chain(r2.values()) {
        for alt in alts {
            for s in alt {
                if !r1.contains_key(s) && !r2.contains_key(s) && !terms.contains(s) {
                    terms.push(s.clone());
                }
            }
        }
    }
    terms.sort();
    let rules_sx: Vec<Sx> = names
        .iter()
        .map(|n| {
            list(
                r1[n]
                    .iter()
                    .map(|alt| {
                        list(
                            alt.iter()
                                .map(|s| match idx(s) {
                                    Some(i) => tagged("n", vec![int(i)]),
                                    None => tagged("t", vec![int(terms.iter().position(|x| x == s).unwrap())]),
                                })
                                .collect(),
                        )
                    })
                    .collect(),
            )
        })
        .collect();
    let after_lang: Vec<Sx> = l2
        .iter()
        .map(|w| ints(&w.iter().map(|s| terms.iter().position(|x| x == s).unwrap_or(999)).collect::<Vec<_>>()))
        .collect();
    out.case(
        tagged("optlang", vec![tagged("rules", rules_sx.clone()), int(idx(&s1).unwrap()), int(terms.len()), int(bound)]),
        tagged("ok", after_lang),
        l1.len() > 1,
    );
    // the optimiser itself: rules of every symbol after optimisation, symbol by symbol (by name)
    if s2 == s1 {
        let after_rules: Vec<Sx> = names
            .iter()
            .map(|n| {
                list(
                    r2.get(n)
                        .map(|alts| {
                            alts.iter()
                                .map(|alt| {
                                    list(
                                        alt.iter()
                                            .map(|s| match idx(s) {
                                                Some(i) => tagged("n", vec![int(i)]),
                                                None => tagged("t", vec![int(terms.iter().position(|x| x == s).unwrap_or(999))]),
                                            })
                                            .collect(),
                                    )
                                })
                                .collect()
                        })
                        .unwrap_or_default(),
                )
            })
            .collect();
        out.case(
            tagged("optimize", vec![tagged("rules", rules_sx), int(idx(&s1).unwrap()), int(terms.len())]),
            tagged("ok", after_rules),
            true,
        );
        out.count("optimizer_cases", 1);
    }
}

pub fn run(rng: &mut Rng, out: &mut Out, tier: &str) {
    let (n, bound) = if tier == "thorough" { (4000, 6) } else { (500, 5) };
    for i in 0..n {
        let mut r = rng.fork(i as u64);
        case(&mut r, out, bound);
    }
}
