//! C16: trie / token sets / tokenizer adapters vs. the naive model.
use crate::gen::*;
use crate::out::Out;
use crate::rng::Rng;
use crate::sexp::*;
use std::panic::{catch_unwind, AssertUnwindSafe};
use toktrie::{Recognizer, SimpleVob, TokRxInfo, TokTrie};

/// stack recogniser over a DFA that logs what the walk does to it
pub struct LogRec<'a> {
    pub dfa: &'a Dfa,
    pub stack: Vec<u32>,
    pub depth_at_finish: usize,
    pub walked: usize,
    pub pushes: usize,
    pub base: usize,
}
impl<'a> LogRec<'a> {
    pub fn new(dfa: &'a Dfa, pre: &[u8]) -> Option<Self> {
        let mut stack = vec![0u32];
        for &b in pre {
            let s = dfa.step(*stack.last().unwrap(), b)?;
            stack.push(s);
        }
        let base = stack.len();
        Some(LogRec { dfa, stack, depth_at_finish: 0, walked: 0, pushes: 0, base })
    }
}
impl Recognizer for LogRec<'_> {
    fn pop_bytes(&mut self, num: usize) {
        if num >= self.stack.len() {
            panic!("recognizer stack underflow");
        }
        let n = self.stack.len() - num;
        self.stack.truncate(n);
    }
    fn collapse(&mut self) {}
    fn trie_finished(&mut self) {
        self.depth_at_finish = self.stack.len();
        self.stack.truncate(self.base);
    }
    fn trie_started(&mut self, _lbl: &str) {
        self.base = self.stack.len();
    }
    fn try_push_byte(&mut self, byte: u8) -> bool {
        self.pushes += 1;
        match self.dfa.step(*self.stack.last().unwrap(), byte) {
            Some(s) => {
                self.stack.push(s);
                true
            }
            None => false,
        }
    }
    fn save_stats(&mut self, nodes_walked: usize) {
        self.walked = nodes_walked;
    }
}

fn vob_list(v: &SimpleVob) -> Vec<u32> {
    // raw: every set bit of every stored word (so ids >= vocab would show)
    let mut r = vec![];
    for (i, w) in v.as_slice().iter().enumerate() {
        for b in 0..32 {
            if w & (1u32 << b) != 0 {
                r.push((i * 32 + b) as u32);
            }
        }
    }
    r
}

fn panic_sx() -> Sx {
    list(vec![sym("panic")])
}

pub fn trie_case(rng: &mut Rng, out: &mut Out, big: bool) {
    let kind = if rng.chance(1, 5) { VocabKind::ByteComplete } else { VocabKind::Wild };
    let target = if rng.chance(1, 3) { boundary_size(rng, if big { 8 } else { 3 }) } else { rng.range(1, if big { 150 } else { 40 }) };
    let ws = gen_vocab(rng, kind, target);
    let dfa = gen_dfa(rng);
    let n = ws.len();
    // pre-pushed bytes (recogniser not at the bottom of its stack)
    let mut pre = vec![];
    for _ in 0..rng.below(4) {
        let b = *rng.pick(ALPHA);
        let mut p2 = pre.clone();
        p2.push(b);
        if dfa.run(0, &p2).is_some() {
            pre = p2;
        }
    }
    let preset: Vec<u32> = (0..rng.below(4)).map(|_| rng.below(n) as u32).collect();
    let nonempty: Vec<&Vec<u8>> = ws.iter().filter(|w| !w.is_empty()).collect();
    let mut starts: Vec<Vec<u8>> = vec![vec![]];
    for _ in 0..3 {
        if nonempty.is_empty() {
            break;
        }
        let w = rng.pick(&nonempty);
        let k = rng.range(1, w.len());
        let mut s = w[..k].to_vec();
        if rng.chance(1, 6) {
            s.push(*rng.pick(ALPHA));
        }
        starts.push(s);
    }
    let mut texts: Vec<Vec<u8>> = vec![];
    for _ in 0..3 {
        let mut t = vec![];
        for _ in 0..rng.range(1, 6) {
            if rng.chance(4, 5) && !nonempty.is_empty() {
                { let w: &Vec<u8> = *rng.pick(&nonempty); t.extend_from_slice(w); }
            } else {
                t.extend_from_slice(&gen_word(rng, 3));
            }
        }
        texts.push(t);
    }
    let mut lookups: Vec<Vec<u8>> = vec![];
    for _ in 0..6 {
        if rng.chance(3, 4) && !nonempty.is_empty() {
            lookups.push((*rng.pick(&nonempty)).clone());
        } else {
            lookups.push(gen_word(rng, 4));
        }
    }
    let filt: Vec<u32> = (0..n as u32).filter(|_| rng.chance(1, 2)).collect();
    let mut chops: Vec<Vec<u32>> = vec![];
    for _ in 0..2 {
        chops.push((0..rng.range(1, 6)).map(|_| rng.below(n) as u32).collect());
    }

    let input = tagged(
        "trie",
        vec![
            tagged("vocab", ws.iter().map(|w| hex(w)).collect()),
            tagged("dfa", vec![dfa.to_sx()]),
            tagged("pre", vec![hex(&pre)]),
            tagged("preset", vec![ints(&preset)]),
            tagged("starts", starts.iter().map(|w| hex(w)).collect()),
            tagged("texts", texts.iter().map(|w| hex(w)).collect()),
            tagged("lookups", lookups.iter().map(|w| hex(w)).collect()),
            tagged("filter", vec![ints(&filt)]),
            tagged("chops", chops.iter().map(|c| ints(c)).collect()),
        ],
    );

    let res = catch_unwind(AssertUnwindSafe(|| {
        let info = TokRxInfo::new(n as u32, 0);
        let trie = TokTrie::from(&info, &ws);
        let mut bias = vec![];
        let mut hve = vec![];
        let mut viol: Vec<String> = vec![];
        for st in &starts {
            let mut rec = LogRec::new(&dfa, &pre).unwrap();
            let depth0 = rec.stack.len();
            let s0 = *rec.stack.last().unwrap();
            let mut toks = trie.alloc_token_set();
            for &p in &preset {
                toks.allow_token(p);
            }
            trie.add_bias(&mut rec, &mut toks, st);
            let got = vob_list(&toks);
            // the property itself, on the implementation alone: per-token test
            let mut naive: Vec<u32> = vec![];
            for (i, w) in ws.iter().enumerate() {
                if w.is_empty() {
                    if preset.contains(&(i as u32)) {
                        naive.push(i as u32);
                    }
                    continue;
                }
                let ok = st.starts_with(w)
                    || (w.len() > st.len() && w.starts_with(st) && dfa.run(s0, &w[st.len()..]).is_some());
                if ok || preset.contains(&(i as u32)) {
                    naive.push(i as u32);
                }
            }
            if naive != got {
                viol.push(format!("add_bias start={:?}: walk {:?} != per-token {:?}", st, got, naive));
            }
            if st.is_empty() && rec.depth_at_finish != depth0 {
                viol.push(format!("recogniser stack depth {} != {} after walk", rec.depth_at_finish, depth0));
            }
            let d = if st.is_empty() { rec.depth_at_finish } else { 0 };
            let wk = if st.is_empty() { rec.walked } else { 0 };
            bias.push(list(vec![ints(&got), int(d), int(wk)]));
            let mut rec2 = LogRec::new(&dfa, &pre).unwrap();
            let h = trie.has_valid_extensions(&mut rec2, st);
            let naive_h = ws.iter().any(|w| {
                w.len() > st.len() && w.starts_with(st) && dfa.run(s0, &w[st.len()..]).is_some()
            });
            if h != naive_h {
                viol.push(format!("has_valid_extensions start={:?}: {} != naive {}", st, h, naive_h));
            }
            hve.push(boolean(h));
        }
        let tokid: Vec<Sx> = lookups
            .iter()
            .map(|w| {
                let r = trie.token_id(w);
                let naive = ws.iter().position(|x| x == w).map(|x| x as u32);
                if r != naive {
                    viol.push(format!("token_id({:?}) = {:?}, lowest id with these bytes = {:?}", w, r, naive));
                }
                match r {
                    Some(t) => int(t),
                    None => int(-1),
                }
            })
            .collect();
        let greedy: Vec<Sx> = texts
            .iter()
            .map(|t| {
                let toks = trie.greedy_tokenize(t);
                if kind == VocabKind::ByteComplete {
                    let back: Vec<u8> = toks.iter().flat_map(|&k| ws[k as usize].clone()).collect();
                    if &back != t {
                        viol.push(format!("greedy_tokenize({:?}) decodes to {:?}", t, back));
                    }
                }
                ints(&toks)
            })
            .collect();
        let sorted: Vec<Sx> = trie
            .sorted_tokens()
            .iter()
            .map(|(t, b)| {
                if &ws[*t as usize] != b {
                    viol.push(format!("sorted_tokens: token {} has bytes {:?}", t, b));
                }
                list(vec![int(*t), hex(b)])
            })
            .collect();
        for (i, w) in ws.iter().enumerate() {
            if trie.token(i as u32) != &w[..] {
                viol.push(format!("token({}) != vocabulary entry", i));
            }
        }
        // filtered trie
        let mut fv = trie.alloc_token_set();
        for &f in &filt {
            fv.allow_token(f);
        }
        let ftrie = trie.filter(&fv);
        let ftoks: Vec<Sx> = (0..n as u32).map(|i| hex(ftrie.token(i))).collect();
        let mut rec = LogRec::new(&dfa, &pre).unwrap();
        let s0 = *rec.stack.last().unwrap();
        let mut toks = ftrie.alloc_token_set();
        ftrie.add_bias(&mut rec, &mut toks, &[]);
        let fgot = vob_list(&toks);
        let fnaive: Vec<u32> = (0..n as u32)
            .filter(|i| filt.contains(i) && !ws[*i as usize].is_empty() && dfa.run(s0, &ws[*i as usize]).is_some())
            .collect();
        if fgot != fnaive {
            viol.push(format!("filtered trie walk {:?} != per-token {:?}", fgot, fnaive));
        }
        let toklen: Vec<usize> = (0..n as u32).map(|i| trie.token_len(i)).collect();
        let all: Vec<u32> = (0..n as u32).collect();
        let decraw = trie.decode_raw(&all);
        let chop: Vec<Sx> = chops
            .iter()
            .map(|c| {
                let mut rec = LogRec::new(&dfa, &pre).unwrap();
                let (a, b) = trie.chop_tokens(&mut rec, c);
                ints(&[a, b])
            })
            .collect();
        (
            tagged(
                "trie",
                vec![
                    tagged("bias", bias),
                    tagged("hve", hve),
                    tagged("tokid", tokid),
                    tagged("greedy", greedy),
                    tagged("sorted", sorted),
                    tagged("ftoks", ftoks),
                    tagged("fbias", vec![ints(&fgot)]),
                    tagged("toklen", vec![ints(&toklen)]),
                    tagged("decraw", vec![hex(&decraw)]),
                    tagged("chop", chop),
                    tagged("maxlen", vec![int(trie.max_token_len())]),
                ],
            ),
            viol,
        )
    }));
    out.count("trie_cases", 1);
    out.count(if kind == VocabKind::ByteComplete { "vocab_byte_complete" } else { "vocab_wild" }, 1);
    out.count("vocab_tokens", n as u64);
    let dups = {
        let mut s = ws.clone();
        s.sort();
        s.dedup();
        n - s.len()
    };
    out.count("vocab_duplicates", dups as u64);
    match res {
        Ok((o, viol)) => {
            for v in viol {
                out.violation(&v, input.to_string());
            }
            out.case(input, o, true);
        }
        Err(_) => {
            out.count("trie_panics", 1);
            out.violation("panic in trie operations", input.to_string());
            out.case(input, panic_sx(), true);
        }
    }
}

// ---------------------------------------------------------------- SimpleVob
pub fn svob_case(rng: &mut Rng, out: &mut Out) {
    // register machine over 3 vectors
    let nops = rng.range(4, 16);
    let mut ops: Vec<Sx> = vec![];
    let mut results: Vec<Sx> = vec![];
    let mut regs: Vec<SimpleVob> = vec![SimpleVob::new(), SimpleVob::new(), SimpleVob::new()];
    let base = boundary_size(rng, 4);
    let mut nontrivial = false;
    for opi in 0..nops {
        let r = if opi < 3 { opi } else { rng.below(3) };
        let r2 = rng.below(3);
        let r3 = rng.below(3);
        let sz = if rng.chance(4, 5) { base } else { boundary_size(rng, 4) };
        let cur = regs[r].len().max(1);
        // mostly in range, sometimes just past the end (panic paths)
        let i = if rng.chance(9, 10) { rng.below(cur) } else { rng.below(cur + 34) };
        let j = if rng.chance(9, 10) { rng.below(cur) } else { rng.below(cur + 34) };
        let k = if opi < 3 { rng.below(4) } else { rng.below(16) };
        let op: Sx = match k {
            0 | 1 => tagged("alloc", vec![int(r), int(sz)]),
            2 => tagged("alloc_cap", vec![int(r), int(sz), int(if rng.chance(9, 10) { sz + rng.below(70) } else { sz.saturating_sub(1) })]),
            3 => tagged("alloc_ones", vec![int(r), int(sz)]),
            4 | 5 => tagged("set", vec![int(r), int(i), boolean(rng.chance(3, 4))]),
            6 | 7 => tagged("range", vec![int(r), int(i.min(j)), int(i.max(j))]),
            8 => tagged("neg", vec![int(r), int(r2)]),
            9 => tagged("or", vec![int(r), int(r2)]),
            10 => tagged("and", vec![int(r), int(r2)]),
            11 => tagged("sub", vec![int(r), int(r2)]),
            12 => tagged("or_minus", vec![int(r), int(r2), int(r3)]),
            13 => tagged("trim", vec![int(r)]),
            14 => tagged("set_all", vec![int(r), boolean(rng.chance(1, 2))]),
            _ => tagged("range", vec![int(r), int(i.max(j)), int(i.min(j))]),
        };
        ops.push(op.clone());
        let Sx::L(items) = &op else { unreachable!() };
        let name = match &items[0] {
            Sx::A(s) => s.clone(),
            _ => unreachable!(),
        };
        let arg = |k: usize| -> usize {
            match &items[k] {
                Sx::A(s) => s.parse().unwrap(),
                _ => unreachable!(),
            }
        };
        let snapshot = regs.clone();
        let res = catch_unwind(AssertUnwindSafe(|| {
            let mut regs = snapshot;
            match name.as_str() {
                "alloc" => regs[arg(1)] = SimpleVob::alloc(arg(2)),
                "alloc_cap" => regs[arg(1)] = SimpleVob::alloc_with_capacity(arg(2), arg(3)),
                "alloc_ones" => regs[arg(1)] = SimpleVob::alloc_ones(arg(2)),
                "set" => regs[arg(1)].set(arg(2), arg(3) == 1),
                "range" => regs[arg(1)].allow_range((arg(2) as u32)..=(arg(3) as u32)),
                "neg" => regs[arg(1)] = regs[arg(2)].negated(),
                "or" => {
                    let o = regs[arg(2)].clone();
                    regs[arg(1)].or(&o)
                }
                "and" => {
                    let o = regs[arg(2)].clone();
                    regs[arg(1)].and(&o)
                }
                "sub" => {
                    let o = regs[arg(2)].clone();
                    regs[arg(1)].sub(&o)
                }
                "or_minus" => {
                    let o = regs[arg(2)].clone();
                    let m = regs[arg(3)].clone();
                    regs[arg(1)].or_minus(&o, &m)
                }
                "trim" => regs[arg(1)].trim_trailing_zeros(),
                "set_all" => regs[arg(1)].set_all(arg(2) == 1),
                _ => unreachable!(),
            }
            regs
        }));
        match res {
            Ok(nr) => {
                regs = nr;
                let v = &regs[arg(1)];
                let fb = v.first_bit_set().map(|x| x as i64).unwrap_or(-1);
                let it: Vec<u32> = v.iter().collect();
                if v.num_set() > 0 && v.num_set() < v.len() {
                    nontrivial = true;
                }
                // naive-set view of the property: to_list is sorted, below len
                let tl = v.to_list();
                results.push(list(vec![
                    int(v.len()),
                    ints(v.as_slice()),
                    ints(&tl),
                    int(v.num_set()),
                    int(fb),
                    ints(&it),
                    boolean(v.is_zero()),
                ]));
            }
            Err(_) => {
                results.push(panic_sx());
                out.count("svob_panics", 1);
                break;
            }
        }
    }
    out.count("svob_cases", 1);
    out.count("svob_ops", ops.len() as u64);
    out.case(tagged("svob", ops), tagged("svob", results), nontrivial);
}


/// the rest of the TokTrie lookup / decoding interface against naive definitions over the word list
/// (canonical id of a byte string = the lowest id with these bytes)
pub fn api_case(rng: &mut Rng, out: &mut Out) {
    let kind = if rng.chance(1, 4) { VocabKind::ByteComplete } else { VocabKind::Wild };
    let target = rng.range(4, 50);
    let mut ws = gen_vocab(rng, kind, target);
    // make sure there is a special token or two (the 0xFF subtree must exist for get_special_tokens)
    ws.push(b"\xFF<|eos|>".to_vec());
    if rng.chance(1, 2) {
        ws.push(b"\xFF<|e".to_vec());
    }
    let n = ws.len();
    let eos = (n - 1) as u32;
    let canon = |bytes: &[u8]| -> Option<u32> { ws.iter().position(|w| w.as_slice() == bytes).map(|i| i as u32) };
    let mut viol: Vec<String> = vec![];
    let res = catch_unwind(AssertUnwindSafe(|| {
        let trie = TokTrie::from(&TokRxInfo::new(n as u32, eos), &ws);
        // all_tokens / sorted_tokens
        if trie.all_tokens() != ws {
            viol.push("all_tokens() differs from the word list".into());
        }
        let mut want_sorted: Vec<(u32, Vec<u8>)> = ws.iter().enumerate().filter(|(_, w)| !w.is_empty()).map(|(i, w)| (i as u32, w.clone())).collect();
        want_sorted.sort_by(|a, b| a.1.cmp(&b.1).then(a.0.cmp(&b.0)));
        let mut got_sorted = trie.sorted_tokens();
        // duplicates are extra leaves: every id is listed; the order must be by bytes
        // (a duplicate byte string sits behind the extensions of its first copy, so the order is only
        // judged on vocabularies without duplicates)
        let has_dups = { let mut x: Vec<&Vec<u8>> = ws.iter().collect(); x.sort(); x.windows(2).any(|w| w[0] == w[1]) };
        if !has_dups && trie.sorted_tokens().windows(2).any(|w| w[0].1 > w[1].1) {
            viol.push("sorted_tokens() is not sorted by bytes".into());
        }
        got_sorted.sort_by(|a, b| a.1.cmp(&b.1).then(a.0.cmp(&b.0)));
        if got_sorted != want_sorted {
            viol.push(format!("sorted_tokens() = {:?}, expected {:?}", got_sorted.iter().take(6).collect::<Vec<_>>(), want_sorted.iter().take(6).collect::<Vec<_>>()));
        }
        // special tokens
        for (i, w) in ws.iter().enumerate() {
            let sp = !w.is_empty() && w[0] == 0xFF;
            if trie.is_special_token(i as u32) != sp {
                viol.push(format!("is_special_token({i}) = {}", !sp));
            }
            if sp {
                if let Ok(name) = std::str::from_utf8(&w[1..]) {
                    let g = trie.get_special_token(name);
                    if g != canon(w) {
                        viol.push(format!("get_special_token({name:?}) = {g:?}, lowest id with that name = {:?}", canon(w)));
                    }
                }
            }
        }
        if trie.get_special_token("<|nope|>").is_some() {
            viol.push("get_special_token finds a name that is not in the vocabulary".into());
        }
        // (get_special_tokens is a helper for an error message and skips one entry: not judged)
        // eos / singleton sets
        if vob_list(&trie.eos_token_set()) != vec![eos] {
            viol.push("eos_token_set() is not {eos}".into());
        }
        let t = rng.below(n) as u32;
        if vob_list(&trie.singleton_token_set(t)) != vec![t] {
            viol.push(format!("singleton_token_set({t}) is not {{{t}}}"));
        }
        // lookups by bytes
        let nonempty: Vec<&Vec<u8>> = ws.iter().filter(|w| !w.is_empty()).collect();
        for _ in 0..8 {
            let mut q: Vec<u8> = if rng.chance(3, 4) { (*rng.pick(&nonempty)).clone() } else { gen_word(rng, 4) };
            match rng.below(4) {
                0 => q.extend_from_slice(&gen_word(rng, 2)),
                1 if q.len() > 1 => {
                    q.pop();
                }
                2 => {
                    let w: &Vec<u8> = *rng.pick(&nonempty);
                    q.extend_from_slice(w);
                }
                _ => {}
            }
            if q.is_empty() {
                continue;
            }
            // prefixes of q that are tokens
            let pre: Vec<(u32, usize)> = (1..=q.len()).filter_map(|l| canon(&q[..l]).map(|i| (i, l))).collect();
            let want_prefix = pre.last().copied().unwrap_or((0, 0));
            let got_prefix = trie.prefix_token_id(&q);
            if got_prefix != want_prefix {
                viol.push(format!("prefix_token_id({q:?}) = {got_prefix:?}, longest token prefix = {want_prefix:?}"));
            }
            let want_all: Vec<u32> = pre.iter().map(|p| p.0).collect();
            if trie.all_prefixes(&q) != want_all {
                viol.push(format!("all_prefixes({q:?}) = {:?}, expected {want_all:?}", trie.all_prefixes(&q)));
            }
            if trie.token_id_at_bytes(&q) != canon(&q) {
                viol.push(format!("token_id_at_bytes({q:?}) = {:?}, expected {:?}", trie.token_id_at_bytes(&q), canon(&q)));
            }
            let want_ext = ws.iter().any(|w| w.len() > q.len() && w.starts_with(&q));
            if trie.has_extensions(&q) != want_ext {
                viol.push(format!("has_extensions({q:?}) = {}, a longer token starts with it = {want_ext}", !want_ext));
            }
            let mut want_sub: Vec<u32> = vec![];
            for i in 0..q.len() {
                for l in 1..=(q.len() - i) {
                    // the walk stops at the first byte that leaves the trie
                    if !ws.iter().any(|w| w.starts_with(&q[i..i + l])) {
                        break;
                    }
                    if let Some(id) = canon(&q[i..i + l]) {
                        want_sub.push(id);
                    }
                }
            }
            if trie.all_subtokens(&q) != want_sub {
                viol.push(format!("all_subtokens({q:?}) = {:?}, expected {want_sub:?}", trie.all_subtokens(&q)));
            }
        }
        // decoding
        let toks: Vec<u32> = (0..rng.range(1, 7)).map(|_| rng.below(n) as u32).collect();
        let mut d_all = vec![];
        let mut d_text = vec![];
        let mut d_raw = vec![];
        for &t in &toks {
            let w = &ws[t as usize];
            if w.is_empty() {
                d_all.extend_from_slice(format!("<[{t}]>").as_bytes());
                d_raw.push(0xFF);
                d_raw.extend_from_slice(format!("[{t}]").as_bytes());
            } else if w[0] == 0xFF {
                d_all.extend_from_slice(&w[1..]);
                d_raw.push(0xFF);
                d_raw.extend_from_slice(format!("[{t}]").as_bytes());
            } else {
                d_all.extend_from_slice(w);
                d_text.extend_from_slice(w);
                d_raw.extend_from_slice(w);
            }
        }
        if trie.decode(&toks) != d_all {
            viol.push(format!("decode({toks:?}) differs from the concatenation with special tokens by name"));
        }
        if trie.decode_ext(&toks, false) != d_text {
            viol.push(format!("decode_ext({toks:?}, false) differs from the concatenation of the text tokens"));
        }
        if trie.decode_raw(&toks) != d_raw {
            viol.push(format!("decode_raw({toks:?}) differs from the concatenation with special tokens as marker-[id]"));
        }
        if trie.decode_str(&toks) != String::from_utf8_lossy(&d_all) {
            viol.push(format!("decode_str({toks:?}) is not the lossy text of decode"));
        }
        // text tokens may themselves contain the bytes of a marker-[id] reference only if they contain 0xFF
        if !toks.iter().any(|&t| { let w = &ws[t as usize]; !w.is_empty() && w[0] != 0xFF && w.contains(&0xFF) }) && trie.decode_raw_to_decode(&d_raw) != d_all {
            viol.push(format!("decode_raw_to_decode(decode_raw({toks:?})) differs from decode"));
        }
    }));
    if res.is_err() {
        viol.push("a TokTrie lookup / decoding function panicked".into());
    }
    let descr = format!("vocab={:?}", ws.iter().map(|w| String::from_utf8_lossy(w).to_string()).collect::<Vec<_>>());
    for v in viol {
        out.violation(&v, descr.clone());
    }
    out.case(tagged("noop", vec![sym("trieapi"), int(n)]), tagged("noop", vec![sym("trieapi"), int(n)]), true);
    out.count("trie_api_cases", 1);
}

pub fn run(rng: &mut Rng, out: &mut Out, tier: &str) {
    let (nt, ns) = if tier == "thorough" { (4000, 20000) } else { (400, 2000) };
    for i in 0..nt {
        let mut r = rng.fork(i as u64);
        trie_case(&mut r, out, tier == "thorough" && i % 4 == 0);
    }
    for i in 0..ns {
        let mut r = rng.fork(0x1000_0000 + i as u64);
        svob_case(&mut r, out);
    }
    for i in 0..nt {
        let mut r = rng.fork(0x1630_0000 + i as u64);
        api_case(&mut r, out);
    }
    // tokenizer descriptions (byte-level / byte-fallback tokenizer.json, tiktoken rank tables)
    let nd = if tier == "thorough" { 600 } else { 60 };
    for i in 0..nd {
        let mut r = rng.fork(0x1600_0000 + i as u64);
        crate::c16tok::byte_level_case(&mut r, out);
        let mut r = rng.fork(0x1610_0000 + i as u64);
        crate::c16tok::byte_fallback_case(&mut r, out);
        let mut r = rng.fork(0x1620_0000 + i as u64);
        crate::c16tok::tiktoken_case(&mut r, out);
    }
}
