//! C05: a Lark CFG with non-confusable terminals admits exactly the grammar's language.
//! Complete strings are judged by the independent recogniser of coq/CfgSpec.v.
use crate::eng::*;
use crate::out::Out;
use crate::rng::Rng;
use crate::sexp::*;

/// terminals that cannot be confused: literals with pairwise different first bytes, single-byte classes
fn gen_terminals(rng: &mut Rng) -> Vec<Rx> {
    let pool: Vec<Rx> = vec![
        Rx::Lit("a".into()),
        Rx::Lit("bc".into()),
        Rx::Lit("d".into()),
        Rx::Lit("(".into()),
        Rx::Lit(")".into()),
        Rx::Lit("+".into()),
        Rx::Lit("ee".into()),
        Rx::Class(vec![(b'0', b'1')]),
        Rx::Class(vec![(b'x', b'x')]),
    ];
    let mut idx: Vec<usize> = (0..pool.len()).collect();
    rng.shuffle(&mut idx);
    let k = rng.range(1, 4);
    idx[..k].iter().map(|&i| pool[i].clone()).collect()
}

pub fn gen_cfg_pub(rng: &mut Rng) -> Gram {
    gen_cfg(rng)
}

fn gen_cfg(rng: &mut Rng) -> Gram {
    let lexemes = gen_terminals(rng);
    let nlex = lexemes.len();
    let nnt = rng.range(1, 4);
    let mut rules = vec![];
    for i in 0..nnt {
        let mut alts: Vec<Vec<Sym>> = vec![];
        let tl = rng.below(3);
        if tl == 0 && i > 0 {
            alts.push(vec![]);
        } else {
            alts.push((0..tl.max(1)).map(|_| Sym::T(rng.below(nlex))).collect());
        }
        for _ in 0..rng.below(3) {
            let len = rng.range(1, 3);
            let alt: Vec<Sym> = (0..len)
                .map(|_| if rng.chance(3, 5) { Sym::N(rng.below(nnt)) } else { Sym::T(rng.below(nlex)) })
                .collect();
            if alt == vec![Sym::N(i)] {
                continue;
            }
            alts.push(alt);
        }
        rules.push(alts);
    }
    // a quarter of the grammars get a symbol whose empty derivation goes through a rule that names the
    // same nullable symbol twice (x: y y | t, y: t | empty), used twice so that it survives inlining
    if rng.chance(1, 4) {
        let y = rules.len();
        let x = y + 1;
        rules.push(vec![vec![Sym::T(rng.below(nlex))], vec![]]);
        rules.push(vec![vec![Sym::N(y), Sym::N(y)], vec![Sym::T(rng.below(nlex))]]);
        let t = Sym::T(rng.below(nlex));
        match rng.below(3) {
            0 => rules[0].push(vec![Sym::N(x), t]),
            1 => rules[0].push(vec![Sym::N(x), t, Sym::N(x)]),
            _ => rules[0].push(vec![t, Sym::N(x), Sym::N(y)]),
        }
        if rng.chance(1, 2) {
            rules[0].push(vec![Sym::N(x)]);
        }
    }
    Gram { rules, lexemes }
}

fn alphabet(g: &Gram) -> Vec<u8> {
    let mut a = vec![];
    for l in &g.lexemes {
        match l {
            Rx::Lit(s) => a.extend_from_slice(s.as_bytes()),
            Rx::Class(rs) => {
                for &(lo, hi) in rs {
                    for b in lo..=hi {
                        a.push(b);
                    }
                }
            }
            _ => {}
        }
    }
    a.sort();
    a.dedup();
    a
}

pub fn case(rng: &mut Rng, out: &mut Out, maxlen: usize) {
    let g = gen_cfg(rng);
    let lark = g.to_lark();
    let (ws, eos) = single_byte_vocab();
    let env = make_env(&ws, eos, false);
    let Ok(m) = new_matcher(&env, &lark, &[]) else {
        out.count("grammar_rejected", 1);
        return;
    };
    let alpha = alphabet(&g);
    // every string over the alphabet up to maxlen (capped), by a DFS that prunes at rejected prefixes:
    // a rejected prefix rejects all its extensions, which the spec must confirm for the prefix itself
    let mut strings: Vec<Vec<u8>> = vec![];
    let mut verdicts: Vec<bool> = vec![];
    let mut stack: Vec<(Vec<u8>, llguidance::Matcher)> = vec![(vec![], m.deep_clone())];
    let mut viable_nodes = 0u64;
    while let Some((s, mut st)) = stack.pop() {
        let acc = st.is_accepting().unwrap_or(false);
        strings.push(s.clone());
        verdicts.push(acc);
        viable_nodes += 1;
        if s.len() >= maxlen || strings.len() > 1500 {
            continue;
        }
        for &b in &alpha {
            let mut c = st.deep_clone();
            let mut s2 = s.clone();
            s2.push(b);
            if !c.is_stopped() && c.consume_token(b as u32).is_ok() {
                stack.push((s2, c));
            } else {
                // rejected: not in the language (and no extension is)
                strings.push(s2);
                verdicts.push(false);
            }
        }
    }
    out.count("strings", strings.len() as u64);
    out.count("accepted", verdicts.iter().filter(|&&b| b).count() as u64);
    out.count("viable_prefixes", viable_nodes);
    out.case(
        tagged("cfg", vec![g.to_sx(), list(strings.iter().map(|s| hex(s)).collect())]),
        tagged("ok", verdicts.iter().map(|&b| boolean(b)).collect()),
        verdicts.iter().any(|&b| b),
    );
}

/// rule-level bounded repetition written x{lo,hi} in Lark; the model gets the naive expansion
/// (one alternative per count), so the builder's factorised encoding is compared with the plain meaning
pub fn rep_case(rng: &mut Rng, out: &mut Out) {
    let lo = rng.below(4);
    let hi = lo + *rng.pick(&[0usize, 1, 2, 3, 5, 11, 12, 13, 14, 15, 16, 17, 20, 24]);
    let two = rng.chance(1, 3) && hi <= 6;
    let lark = format!(
        "start: n0\nn0: \"b\" x{{{lo},{hi}}} \"c\"\nx: \"a\"{}\n",
        if two { " | \"d\"" } else { "" }
    );
    let (ws, eos) = single_byte_vocab();
    let env = make_env(&ws, eos, false);
    let Ok(m) = new_matcher(&env, &lark, &[]) else {
        out.count("grammar_rejected", 1);
        return;
    };
    // specification side: n0 -> T1 n1 T2 ; n1 -> x^k for lo <= k <= hi ; n2 (= x) -> T0 [| T3]
    let mut lexemes = vec![Rx::Lit("a".into()), Rx::Lit("b".into()), Rx::Lit("c".into())];
    if two {
        lexemes.push(Rx::Lit("d".into()));
    }
    let n1: Vec<Vec<Sym>> = (lo..=hi).map(|k| vec![Sym::N(2); k]).collect();
    let mut n2 = vec![vec![Sym::T(0)]];
    if two {
        n2.push(vec![Sym::T(3)]);
    }
    let g = Gram { rules: vec![vec![vec![Sym::T(1), Sym::N(1), Sym::T(2)]], n1, n2], lexemes };
    let alpha: Vec<u8> = if two { b"abcd".to_vec() } else { b"abc".to_vec() };
    let maxlen = hi + 4;
    let mut strings: Vec<Vec<u8>> = vec![];
    let mut verdicts: Vec<bool> = vec![];
    let mut stack: Vec<(Vec<u8>, llguidance::Matcher)> = vec![(vec![], m.deep_clone())];
    while let Some((s, mut st)) = stack.pop() {
        strings.push(s.clone());
        verdicts.push(st.is_accepting().unwrap_or(false));
        if s.len() >= maxlen || strings.len() > 1200 {
            continue;
        }
        for &b in &alpha {
            let mut c = st.deep_clone();
            let mut s2 = s.clone();
            s2.push(b);
            if !c.is_stopped() && c.consume_token(b as u32).is_ok() {
                stack.push((s2, c));
            } else {
                strings.push(s2);
                verdicts.push(false);
            }
        }
    }
    out.count("repetition_grammars", 1);
    out.case(
        tagged("cfg", vec![g.to_sx(), list(strings.iter().map(|s| hex(s)).collect())]),
        tagged("ok", verdicts.iter().map(|&b| boolean(b)).collect()),
        true,
    );
}


// ------------------------------------------------------------------ parametric rules (implementation against an
// independent evaluator of the documented semantics, docs/parametric.md)
#[derive(Clone, Copy, Debug)]
struct PRef {
    x: u32,
    y: u32,
}
impl PRef {
    fn text(&self) -> String {
        if self.x == 0 && self.y == 64 { "_".into() } else { format!("[{}:{}]", self.x, self.y) }
    }
    fn ones(&self) -> u64 {
        if self.y - self.x == 64 { u64::MAX } else { (1u64 << (self.y - self.x)) - 1 }
    }
    fn field(&self, p: u64) -> u64 {
        (p >> self.x) & self.ones()
    }
}
#[derive(Clone, Debug)]
enum PE {
    Same,
    SetBit(u32),
    ClearBit(u32),
    BitAnd(u64),
    BitOr(u64),
    Incr(PRef),
    Decr(PRef),
    Const(u64),
}
impl PE {
    fn text(&self) -> String {
        match self {
            PE::Same => "_".into(),
            PE::SetBit(k) => format!("set_bit({k})"),
            PE::ClearBit(k) => format!("clear_bit({k})"),
            PE::BitAnd(v) => format!("bit_and(0x{v:x})"),
            PE::BitOr(v) => format!("bit_or({v})"),
            PE::Incr(r) => format!("incr({})", r.text()),
            PE::Decr(r) => format!("decr({})", r.text()),
            PE::Const(v) => format!("{v}"),
        }
    }
    fn eval(&self, p: u64) -> u64 {
        match self {
            PE::Same => p,
            PE::SetBit(k) => p | (1 << k),
            PE::ClearBit(k) => p & !(1 << k),
            PE::BitAnd(v) => p & v,
            PE::BitOr(v) => p | v,
            PE::Incr(r) => if r.field(p) == r.ones() { p } else { p.wrapping_add(1 << r.x) },
            PE::Decr(r) => if r.field(p) == 0 { p } else { p.wrapping_sub(1 << r.x) },
            PE::Const(v) => *v,
        }
    }
}
#[derive(Clone, Debug)]
enum PC {
    True,
    BitClear(u32),
    BitSet(u32),
    IsOnes(PRef),
    IsZeros(PRef),
    Cmp(&'static str, PRef, u64),
    BitCount(&'static str, PRef, u32),
    And(Box<PC>, Box<PC>),
    Or(Box<PC>, Box<PC>),
    Not(Box<PC>),
}
fn cmp_op(op: &str, a: u64, b: u64) -> bool {
    match op {
        "eq" => a == b,
        "ne" => a != b,
        "lt" => a < b,
        "le" => a <= b,
        "gt" => a > b,
        _ => a >= b,
    }
}
impl PC {
    fn text(&self) -> String {
        match self {
            PC::True => "true".into(),
            PC::BitClear(k) => format!("bit_clear({k})"),
            PC::BitSet(k) => format!("bit_set({k})"),
            PC::IsOnes(r) => format!("is_ones({})", r.text()),
            PC::IsZeros(r) => format!("is_zeros({})", r.text()),
            PC::Cmp(op, r, v) => format!("{op}({}, {v})", r.text()),
            PC::BitCount(op, r, k) => format!("bit_count_{op}({}, {k})", r.text()),
            PC::And(a, b) => format!("and({}, {})", a.text(), b.text()),
            PC::Or(a, b) => format!("or({}, {})", a.text(), b.text()),
            PC::Not(a) => format!("not({})", a.text()),
        }
    }
    fn eval(&self, p: u64) -> bool {
        match self {
            PC::True => true,
            PC::BitClear(k) => (p >> k) & 1 == 0,
            PC::BitSet(k) => (p >> k) & 1 == 1,
            PC::IsOnes(r) => r.field(p) == r.ones(),
            PC::IsZeros(r) => r.field(p) == 0,
            PC::Cmp(op, r, v) => cmp_op(op, r.field(p), *v),
            PC::BitCount(op, r, k) => cmp_op(op, r.field(p).count_ones() as u64, *k as u64),
            PC::And(a, b) => a.eval(p) && b.eval(p),
            PC::Or(a, b) => a.eval(p) || b.eval(p),
            PC::Not(a) => !a.eval(p),
        }
    }
}
#[derive(Clone, Debug)]
struct PAlt {
    term: Option<u8>,
    call: Option<(usize, PE)>,
    cond: PC,
}
struct PGram {
    start_value: u64,
    rules: Vec<Vec<PAlt>>,
}
impl PGram {
    fn to_lark(&self) -> String {
        let mut s = format!("start: p0::{}\n", self.start_value);
        for (i, alts) in self.rules.iter().enumerate() {
            let body: Vec<String> = alts
                .iter()
                .map(|a| {
                    let mut t = String::new();
                    match (a.term, &a.call) {
                        (None, None) => t.push_str("\"\""),
                        (Some(c), None) => t.push_str(&format!("\"{}\"", c as char)),
                        (None, Some((j, e))) => t.push_str(&format!("p{j}::{}", e.text())),
                        (Some(c), Some((j, e))) => t.push_str(&format!("\"{}\" p{j}::{}", c as char, e.text())),
                    }
                    if !matches!(a.cond, PC::True) {
                        t.push_str(&format!(" %if {}", a.cond.text()));
                    }
                    t
                })
                .collect();
            s.push_str(&format!("p{i}::_: {}\n", body.join("\n    | ")));
        }
        s
    }
    /// is `s` derivable from (rule, value)?  (calls without a terminal only go to higher rules: terminates)
    fn derives(&self, rule: usize, v: u64, s: &[u8]) -> bool {
        self.rules[rule].iter().any(|a| {
            if !a.cond.eval(v) {
                return false;
            }
            let rest = match a.term {
                Some(c) => {
                    if s.first() != Some(&c) {
                        return false;
                    }
                    &s[1..]
                }
                None => s,
            };
            match &a.call {
                Some((j, e)) => self.derives(*j, e.eval(v), rest),
                None => rest.is_empty(),
            }
        })
    }
    /// (rule, value) pairs that derive some string; None when the reachable state space is too large
    fn productive(&self) -> Option<std::collections::HashSet<(usize, u64)>> {
        use std::collections::HashSet;
        let mut reach: HashSet<(usize, u64)> = HashSet::new();
        let mut todo = vec![(0usize, self.start_value)];
        while let Some((r, v)) = todo.pop() {
            if !reach.insert((r, v)) {
                continue;
            }
            if reach.len() > 6000 {
                return None;
            }
            for a in &self.rules[r] {
                if a.cond.eval(v) {
                    if let Some((j, e)) = &a.call {
                        todo.push((*j, e.eval(v)));
                    }
                }
            }
        }
        let mut prod: HashSet<(usize, u64)> = HashSet::new();
        loop {
            let mut changed = false;
            for &(r, v) in &reach {
                if prod.contains(&(r, v)) {
                    continue;
                }
                let ok = self.rules[r].iter().any(|a| a.cond.eval(v) && match &a.call {
                    Some((j, e)) => prod.contains(&(*j, e.eval(v))),
                    None => true,
                });
                if ok {
                    prod.insert((r, v));
                    changed = true;
                }
            }
            if !changed {
                break;
            }
        }
        // only grammars in which every reachable (rule, value) derives something: the engine materialises
        // parametric rules lazily and cannot prune instances that derive nothing (as for C03, the
        // statement is about productive grammars)
        if prod.len() != reach.len() {
            return None;
        }
        Some(prod)
    }
    /// is `s` a prefix of a derivable string?
    fn viable(&self, prod: &std::collections::HashSet<(usize, u64)>, rule: usize, v: u64, s: &[u8]) -> bool {
        if s.is_empty() {
            return prod.contains(&(rule, v));
        }
        self.rules[rule].iter().any(|a| {
            if !a.cond.eval(v) {
                return false;
            }
            let rest = match a.term {
                Some(c) => {
                    if s[0] != c {
                        return false;
                    }
                    &s[1..]
                }
                None => s,
            };
            match &a.call {
                Some((j, e)) => self.viable(prod, *j, e.eval(v), rest),
                None => rest.is_empty(),
            }
        })
    }
}

fn gen_pref(rng: &mut Rng) -> PRef {
    *rng.pick(&[PRef { x: 0, y: 64 }, PRef { x: 0, y: 2 }, PRef { x: 2, y: 4 }, PRef { x: 1, y: 3 }, PRef { x: 3, y: 6 }, PRef { x: 0, y: 3 }, PRef { x: 4, y: 5 }])
}
fn gen_pcond(rng: &mut Rng, depth: usize) -> PC {
    let r = gen_pref(rng);
    // whole-parameter comparisons against small constants, field comparisons against values the field can hold
    let small = if r.y == 64 { rng.below(6) as u64 } else { rng.below((r.ones() + 2) as usize) as u64 };
    match rng.below(if depth == 0 { 9 } else { 12 }) {
        0 => PC::True,
        1 => PC::BitClear(rng.below(6) as u32),
        2 => PC::BitSet(rng.below(6) as u32),
        3 => PC::IsOnes(if r.y == 64 { PRef { x: 0, y: 3 } } else { r }),
        4 => PC::IsZeros(r),
        5 | 6 => PC::Cmp(*rng.pick(&["eq", "ne", "lt", "le", "gt", "ge"]), r, small),
        7 => PC::BitCount(*rng.pick(&["eq", "ne", "lt", "le", "gt", "ge"]), r, rng.below(4) as u32),
        8 => PC::Cmp("lt", r, small.max(1)),
        9 => PC::And(Box::new(gen_pcond(rng, depth - 1)), Box::new(gen_pcond(rng, depth - 1))),
        10 => PC::Or(Box::new(gen_pcond(rng, depth - 1)), Box::new(gen_pcond(rng, depth - 1))),
        _ => PC::Not(Box::new(gen_pcond(rng, depth - 1))),
    }
}
fn gen_pexpr(rng: &mut Rng) -> PE {
    match rng.below(10) {
        0 => PE::Same,
        1 | 2 => PE::SetBit(rng.below(6) as u32),
        3 => PE::ClearBit(rng.below(6) as u32),
        4 => PE::BitAnd(*rng.pick(&[0x3u64, 0xc, 0x3c, 0x15])),
        5 => PE::BitOr(*rng.pick(&[1u64, 6, 8, 33])),
        6 | 7 => PE::Incr(gen_pref(rng)),
        8 => PE::Decr(gen_pref(rng)),
        _ => PE::Const(rng.below(8) as u64),
    }
}
fn gen_pgram(rng: &mut Rng) -> PGram {
    let n = rng.range(1, 3);
    let terms = [b'a', b'b', b'c', b'!'];
    let mut rules = vec![];
    for i in 0..n {
        let mut alts = vec![];
        // alternatives of one rule start with different terminals (the terminals cannot be confused)
        let mut ts: Vec<u8> = terms.to_vec();
        rng.shuffle(&mut ts);
        let k = rng.range(1, 3);
        for &t in ts.iter().take(k) {
            let call = if rng.chance(4, 5) { Some((rng.below(n), gen_pexpr(rng))) } else { None };
            alts.push(PAlt { term: Some(t), call, cond: gen_pcond(rng, 1) });
        }
        // a way out: the empty string, or a terminal-free call of a later rule
        if i + 1 < n && rng.chance(1, 2) {
            // (passing the parameter on unchanged: see the known finding in corpus/C05)
            alts.push(PAlt { term: None, call: Some((rng.range(i + 1, n - 1), PE::Same)), cond: gen_pcond(rng, 1) });
        }
        if rng.chance(3, 4) {
            alts.push(PAlt { term: None, call: None, cond: gen_pcond(rng, 1) });
        }
        rules.push(alts);
    }
    PGram { start_value: *rng.pick(&[0u64, 0, 1, 5, 12]), rules }
}

/// counters on bit ranges that do not start at bit 0 and are pushed into saturation
fn counter_pgram(rng: &mut Rng) -> PGram {
    let (r1, r2) = *rng.pick(&[(PRef { x: 0, y: 2 }, PRef { x: 2, y: 4 }), (PRef { x: 1, y: 3 }, PRef { x: 3, y: 5 }), (PRef { x: 0, y: 1 }, PRef { x: 1, y: 3 }), (PRef { x: 2, y: 4 }, PRef { x: 4, y: 7 })]);
    let up = |r: PRef, rng: &mut Rng| if rng.chance(3, 4) { PE::Incr(r) } else { PE::Decr(r) };
    let exit = match rng.below(3) {
        0 => PC::And(Box::new(PC::IsOnes(r1)), Box::new(PC::IsOnes(r2))),
        1 => PC::And(Box::new(PC::Cmp("ge", r1, r1.ones())), Box::new(PC::Not(Box::new(PC::IsZeros(r2))))),
        _ => PC::Or(Box::new(PC::IsOnes(r1)), Box::new(PC::Cmp("eq", r2, 1))),
    };
    let rules = vec![vec![
        PAlt { term: Some(b'a'), call: Some((0, up(r1, rng))), cond: PC::True },
        PAlt { term: Some(b'b'), call: Some((0, up(r2, rng))), cond: PC::True },
        PAlt { term: Some(b'!'), call: None, cond: exit },
    ]];
    PGram { start_value: if rng.chance(1, 3) { r2.ones() << r2.x } else { 0 }, rules }
}


/// corpus: grammar <TAB> text <TAB> derivable — complete strings judged by the recorded verdict
fn corpus_case(out: &mut Out, line: &str) {
    let parts: Vec<&str> = line.split('\t').collect();
    if parts.len() != 3 {
        return;
    }
    let lark = parts[0].replace("\\n", "\n");
    let want = parts[2].trim() == "1";
    let (ws, eos) = single_byte_vocab();
    let env = make_env(&ws, eos, false);
    let Ok(mut m) = new_matcher(&env, &lark, &[]) else { return };
    let fed = parts[1].bytes().all(|b| !m.is_stopped() && m.consume_token(b as u32).is_ok());
    let acc = fed && m.is_accepting().unwrap_or(false);
    if acc != want {
        out.violation(&format!("parametric grammar [corpus]: {:?} accepted = {acc}, derivable = {want}", parts[1]), lark.clone());
    }
    out.count("corpus_cases", 1);
}

pub fn param_case(rng: &mut Rng, out: &mut Out, maxlen: usize) {
    let g = if rng.chance(1, 3) { counter_pgram(rng) } else { gen_pgram(rng) };
    let lark = g.to_lark();
    let Some(prod) = g.productive() else {
        out.count("param_unproductive_or_too_large", 1);
        return;
    };
    let (ws, eos) = single_byte_vocab();
    let env = make_env(&ws, eos, false);
    let Ok(m) = new_matcher(&env, &lark, &[]) else {
        out.count("grammar_rejected", 1);
        if !prod.is_empty() && prod.contains(&(0, g.start_value)) {
            out.count("param_grammar_rejected", 1);
        }
        return;
    };
    // depth-first over the strings the implementation lets through, compared byte by byte with the evaluator
    let mut stack: Vec<(llguidance::Matcher, Vec<u8>)> = vec![(m, vec![])];
    let mut nodes = 0usize;
    let mut bad = false;
    while let Some((m, s)) = stack.pop() {
        nodes += 1;
        if nodes > 1500 || bad {
            break;
        }
        let mut c = m.deep_clone();
        if c.is_stopped() || c.is_error() {
            continue;
        }
        let acc = c.is_accepting().unwrap_or(false);
        let want_acc = g.derives(0, g.start_value, &s);
        if acc != want_acc {
            out.violation(&format!("parametric grammar: {:?} accepted = {acc}, derivable = {want_acc}", String::from_utf8_lossy(&s)), lark.clone());
            bad = true;
            break;
        }
        if s.len() >= maxlen {
            continue;
        }
        let Ok(mask) = c.compute_mask() else {
            if g.viable(&prod, 0, g.start_value, &s) && [b'a', b'b', b'c', b'!'].iter().any(|&b| { let mut t = s.clone(); t.push(b); g.viable(&prod, 0, g.start_value, &t) }) {
                out.violation(&format!("parametric grammar: no mask after {:?} although the text can be continued", String::from_utf8_lossy(&s)), lark.clone());
                bad = true;
            }
            continue;
        };
        let ml = mask_list(&mask);
        for b in [b'a', b'b', b'c', b'!'] {
            let mut t = s.clone();
            t.push(b);
            let allowed = ml.contains(&(b as u32));
            let want = g.viable(&prod, 0, g.start_value, &t);
            if allowed != want {
                out.violation(&format!("parametric grammar: after {:?} byte {:?} allowed = {allowed}, prefix of a derivable string = {want}", String::from_utf8_lossy(&s), b as char), lark.clone());
                bad = true;
                break;
            }
            if allowed {
                let mut d = c.deep_clone();
                if d.consume_token(b as u32).is_ok() {
                    stack.push((d, t));
                }
            }
        }
    }
    out.count("param_grammars", 1);
    out.count("param_nodes", nodes as u64);
    out.case(tagged("noop", vec![sym("param"), int(nodes)]), tagged("noop", vec![sym("param"), int(nodes)]), nodes > 3);
}


// ------------------------------------------------------------------ ParamExpr / ParamCond evaluation against the model (coq/Param.v)
fn u64_sx(v: u64) -> Sx {
    hex(&v.to_be_bytes())
}
fn gen_wide_ref(rng: &mut Rng) -> (u8, u8) {
    match rng.below(6) {
        0 => (0, 64),
        1 => {
            let x = rng.below(63) as u8;
            (x, x + 1)
        }
        2 => (rng.range(56, 62) as u8, 64),
        _ => {
            let x = rng.below(60) as u8;
            let y = (x as usize + rng.range(1, 8)).min(64) as u8;
            (x, y)
        }
    }
}
fn gen_param_value(rng: &mut Rng, r: (u8, u8)) -> u64 {
    let base = match rng.below(4) {
        0 => 0u64,
        1 => u64::MAX,
        2 => rng.next(),
        _ => rng.next() & 0xFFFF,
    };
    let len = (r.1 - r.0) as u32;
    let mask = if len == 64 { u64::MAX } else { ((1u64 << len) - 1) << r.0 };
    // the field itself: all ones, all zeros, one below / above, or as drawn
    match rng.below(5) {
        0 => base | mask,
        1 => base & !mask,
        2 => (base | mask) & !(1u64 << r.0),
        3 => (base & !mask) | (1u64 << r.0),
        _ => base,
    }
}

pub fn param_eval_case(rng: &mut Rng, out: &mut Out) {
    use llguidance::earley::{ParamCond, ParamExpr, ParamRef, ParamValue};
    let r = gen_wide_ref(rng);
    let pr = ParamRef::new(r.0, r.1);
    let p = gen_param_value(rng, r);
    // expressions
    let v = match rng.below(3) { 0 => rng.next(), 1 => 1u64 << rng.below(64), _ => !(1u64 << rng.below(64)) };
    let (e, esx) = match rng.below(8) {
        0 => (ParamExpr::Null, tagged("null", vec![])),
        1 => (ParamExpr::Const(ParamValue(v)), tagged("const", vec![u64_sx(v)])),
        2 => (ParamExpr::SelfRef, tagged("self", vec![])),
        3 | 4 => (ParamExpr::Incr(pr), tagged("incr", vec![int(r.0), int(r.1)])),
        5 => (ParamExpr::Decr(pr), tagged("decr", vec![int(r.0), int(r.1)])),
        6 => (ParamExpr::BitOr(ParamValue(v)), tagged("or", vec![u64_sx(v)])),
        _ => (ParamExpr::BitAnd(ParamValue(v)), tagged("and", vec![u64_sx(v)])),
    };
    let got = std::panic::catch_unwind(std::panic::AssertUnwindSafe(|| e.eval(ParamValue(p)).0));
    match got {
        Ok(g) => out.case(tagged("pexpr", vec![esx.clone(), u64_sx(p)]), tagged("ok", vec![u64_sx(g)]), true),
        Err(_) => {
            out.violation(&format!("ParamExpr::eval panicked: {e} on 0x{p:x}"), format!("{esx} 0x{p:x}"));
            out.case(tagged("pexpr", vec![esx, u64_sx(p)]), tagged("panic", vec![]), true);
        }
    }
    // conditions
    fn gen_c(rng: &mut Rng, depth: usize) -> (ParamCond, Sx) {
        let r = gen_wide_ref(rng);
        let pr = ParamRef::new(r.0, r.1);
        let len = (r.1 - r.0) as u32;
        let ones = if len == 64 { u64::MAX } else { (1u64 << len) - 1 };
        let v = match rng.below(4) { 0 => 0, 1 => ones, 2 => rng.next() & ones, _ => (rng.next() & ones).wrapping_add(1) };
        let k = rng.below(66) as u8;
        let ops = ["ne", "eq", "le", "lt", "ge", "gt"];
        let oi = rng.below(6);
        match rng.below(if depth == 0 { 3 } else { 6 }) {
            0 => (ParamCond::True, tagged("true", vec![])),
            1 => {
                let pv = ParamValue(v);
                let c = match oi { 0 => ParamCond::NE(pr, pv), 1 => ParamCond::EQ(pr, pv), 2 => ParamCond::LE(pr, pv), 3 => ParamCond::LT(pr, pv), 4 => ParamCond::GE(pr, pv), _ => ParamCond::GT(pr, pv) };
                (c, tagged("cmp", vec![sym(ops[oi]), int(r.0), int(r.1), hex(&v.to_be_bytes())]))
            }
            2 => {
                let c = match oi { 0 => ParamCond::BitCountNE(pr, k), 1 => ParamCond::BitCountEQ(pr, k), 2 => ParamCond::BitCountLE(pr, k), 3 => ParamCond::BitCountLT(pr, k), 4 => ParamCond::BitCountGE(pr, k), _ => ParamCond::BitCountGT(pr, k) };
                (c, tagged("bitcount", vec![sym(ops[oi]), int(r.0), int(r.1), int(k)]))
            }
            3 => {
                let (a, sa) = gen_c(rng, depth - 1);
                let (b, sb) = gen_c(rng, depth - 1);
                (ParamCond::And(Box::new(a), Box::new(b)), tagged("and", vec![sa, sb]))
            }
            4 => {
                let (a, sa) = gen_c(rng, depth - 1);
                let (b, sb) = gen_c(rng, depth - 1);
                (ParamCond::Or(Box::new(a), Box::new(b)), tagged("or", vec![sa, sb]))
            }
            _ => {
                let (a, sa) = gen_c(rng, depth - 1);
                (ParamCond::Not(Box::new(a)), tagged("not", vec![sa]))
            }
        }
    }
    let (c, csx) = gen_c(rng, 2);
    let got = c.eval(ParamValue(p));
    out.case(tagged("pcond", vec![csx, u64_sx(p)]), tagged("ok", vec![boolean(got)]), true);
    out.count("param_eval_cases", 1);
}

pub fn run(rng: &mut Rng, out: &mut Out, tier: &str) {
    let (n, maxlen) = if tier == "thorough" { (1500, 7) } else { (250, 5) };
    for line in corpus_lines("C05") {
        corpus_case(out, &line);
    }
    for i in 0..n {
        let mut r = rng.fork(i as u64);
        case(&mut r, out, maxlen);
        if i % 4 == 0 {
            let mut r = rng.fork(0x0500_0000 + i as u64);
            rep_case(&mut r, out);
        }
        let mut r = rng.fork(0x0510_0000 + i as u64);
        param_case(&mut r, out, maxlen + 4);
        for j in 0..4 {
            let mut r = rng.fork(0x0520_0000 + (i * 4 + j) as u64);
            param_eval_case(&mut r, out);
        }
    }
}
