//! C05: a Lark CFG with non-confusable terminals admits exactly the grammar's language.
//! Complete strings are judged by the independent recogniser of coq/CfgSpec.v.
use crate::eng::*;
use crate::out::Out;
use crate::rng::Rng;
use crate::sexp::*;

/// terminals that cannot be confused: literals with pairwise different first bytes, single-byte classes
fn gen_terminals(rng: &mut Rng) -> Vec<Rx> {
    let pool: Vec<Rx> = vec![
        Rx::Lit("a".into()),
        Rx::Lit("bc".into()),
        Rx::Lit("d".into()),
        Rx::Lit("(".into()),
        Rx::Lit(")".into()),
        Rx::Lit("+".into()),
        Rx::Lit("ee".into()),
        Rx::Class(vec![(b'0', b'1')]),
        Rx::Class(vec![(b'x', b'x')]),
    ];
    let mut idx: Vec<usize> = (0..pool.len()).collect();
    rng.shuffle(&mut idx);
    let k = rng.range(1, 4);
    idx[..k].iter().map(|&i| pool[i].clone()).collect()
}

pub fn gen_cfg_pub(rng: &mut Rng) -> Gram {
    gen_cfg(rng)
}

fn gen_cfg(rng: &mut Rng) -> Gram {
    let lexemes = gen_terminals(rng);
    let nlex = lexemes.len();
    let nnt = rng.range(1, 4);
    let mut rules = vec![];
    for i in 0..nnt {
        let mut alts: Vec<Vec<Sym>> = vec![];
        let tl = rng.below(3);
        if tl == 0 && i > 0 {
            alts.push(vec![]);
        } else {
            alts.push((0..tl.max(1)).map(|_| Sym::T(rng.below(nlex))).collect());
        }
        for _ in 0..rng.below(3) {
            let len = rng.range(1, 3);
            let alt: Vec<Sym> = (0..len)
                .map(|_| if rng.chance(3, 5) { Sym::N(rng.below(nnt)) } else { Sym::T(rng.below(nlex)) })
                .collect();
            if alt == vec![Sym::N(i)] {
                continue;
            }
            alts.push(alt);
        }
        rules.push(alts);
    }
    Gram { rules, lexemes }
}

fn alphabet(g: &Gram) -> Vec<u8> {
    let mut a = vec![];
    for l in &g.lexemes {
        match l {
            Rx::Lit(s) => a.extend_from_slice(s.as_bytes()),
            Rx::Class(rs) => {
                for &(lo, hi) in rs {
                    for b in lo..=hi {
                        a.push(b);
                    }
                }
            }
            _ => {}
        }
    }
    a.sort();
    a.dedup();
    a
}

pub fn case(rng: &mut Rng, out: &mut Out, maxlen: usize) {
    let g = gen_cfg(rng);
    let lark = g.to_lark();
    let (ws, eos) = single_byte_vocab();
    let env = make_env(&ws, eos, false);
    let Ok(m) = new_matcher(&env, &lark, &[]) else {
        out.count("grammar_rejected", 1);
        return;
    };
    let alpha = alphabet(&g);
    // every string over the alphabet up to maxlen (capped), by a DFS that prunes at rejected prefixes:
    // a rejected prefix rejects all its extensions, which the spec must confirm for the prefix itself
    let mut strings: Vec<Vec<u8>> = vec![];
    let mut verdicts: Vec<bool> = vec![];
    let mut stack: Vec<(Vec<u8>, llguidance::Matcher)> = vec![(vec![], m.deep_clone())];
    let mut viable_nodes = 0u64;
    while let Some((s, mut st)) = stack.pop() {
        let acc = st.is_accepting().unwrap_or(false);
        strings.push(s.clone());
        verdicts.push(acc);
        viable_nodes += 1;
        if s.len() >= maxlen || strings.len() > 1500 {
            continue;
        }
        for &b in &alpha {
            let mut c = st.deep_clone();
            let mut s2 = s.clone();
            s2.push(b);
            if !c.is_stopped() && c.consume_token(b as u32).is_ok() {
                stack.push((s2, c));
            } else {
                // rejected: not in the language (and no extension is)
                strings.push(s2);
                verdicts.push(false);
            }
        }
    }
    out.count("strings", strings.len() as u64);
    out.count("accepted", verdicts.iter().filter(|&&b| b).count() as u64);
    out.count("viable_prefixes", viable_nodes);
    out.case(
        tagged("cfg", vec![g.to_sx(), list(strings.iter().map(|s| hex(s)).collect())]),
        tagged("ok", verdicts.iter().map(|&b| boolean(b)).collect()),
        verdicts.iter().any(|&b| b),
    );
}

/// rule-level bounded repetition written x{lo,hi} in Lark; the model gets the naive expansion
/// (one alternative per count), so the builder's factorised encoding is compared with the plain meaning
pub fn rep_case(rng: &mut Rng, out: &mut Out) {
    let lo = rng.below(4);
    let hi = lo + *rng.pick(&[0usize, 1, 2, 3, 5, 11, 12, 13, 14, 15, 16, 17, 20, 24]);
    let two = rng.chance(1, 3) && hi <= 6;
    let lark = format!(
        "start: n0\nn0: \"b\" x{{{lo},{hi}}} \"c\"\nx: \"a\"{}\n",
        if two { " | \"d\"" } else { "" }
    );
    let (ws, eos) = single_byte_vocab();
    let env = make_env(&ws, eos, false);
    let Ok(m) = new_matcher(&env, &lark, &[]) else {
        out.count("grammar_rejected", 1);
        return;
    };
    // specification side: n0 -> T1 n1 T2 ; n1 -> x^k for lo <= k <= hi ; n2 (= x) -> T0 [| T3]
    let mut lexemes = vec![Rx::Lit("a".into()), Rx::Lit("b".into()), Rx::Lit("c".into())];
    if two {
        lexemes.push(Rx::Lit("d".into()));
    }
    let n1: Vec<Vec<Sym>> = (lo..=hi).map(|k| vec![Sym::N(2); k]).collect();
    let mut n2 = vec![vec![Sym::T(0)]];
    if two {
        n2.push(vec![Sym::T(3)]);
    }
    let g = Gram { rules: vec![vec![vec![Sym::T(1), Sym::N(1), Sym::T(2)]], n1, n2], lexemes };
    let alpha: Vec<u8> = if two { b"abcd".to_vec() } else { b"abc".to_vec() };
    let maxlen = hi + 4;
    let mut strings: Vec<Vec<u8>> = vec![];
    let mut verdicts: Vec<bool> = vec![];
    let mut stack: Vec<(Vec<u8>, llguidance::Matcher)> = vec![(vec![], m.deep_clone())];
    while let Some((s, mut st)) = stack.pop() {
        strings.push(s.clone());
        verdicts.push(st.is_accepting().unwrap_or(false));
        if s.len() >= maxlen || strings.len() > 1200 {
            continue;
        }
        for &b in &alpha {
            let mut c = st.deep_clone();
            let mut s2 = s.clone();
            s2.push(b);
            if !c.is_stopped() && c.consume_token(b as u32).is_ok() {
                stack.push((s2, c));
            } else {
                strings.push(s2);
                verdicts.push(false);
            }
        }
    }
    out.count("repetition_grammars", 1);
    out.case(
        tagged("cfg", vec![g.to_sx(), list(strings.iter().map(|s| hex(s)).collect())]),
        tagged("ok", verdicts.iter().map(|&b| boolean(b)).collect()),
        true,
    );
}

pub fn run(rng: &mut Rng, out: &mut Out, tier: &str) {
    let (n, maxlen) = if tier == "thorough" { (1500, 7) } else { (250, 5) };
    for i in 0..n {
        let mut r = rng.fork(i as u64);
        case(&mut r, out, maxlen);
        if i % 4 == 0 {
            let mut r = rng.fork(0x0500_0000 + i as u64);
            rep_case(&mut r, out);
        }
    }
}
