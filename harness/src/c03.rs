//! C03: allowed tokens never lead into a dead end.
use crate::eng::*;
use crate::out::Out;
use crate::rng::Rng;
use crate::sexp::*;
use llguidance::api::TopLevelGrammar;
use llguidance::toktrie::{InferenceCapabilities, TokEnv};
use llguidance::{Matcher, ParserFactory};

fn mk(env: &TokEnv, g: TopLevelGrammar) -> Result<Matcher, String> {
    let mut f = ParserFactory::new(env, InferenceCapabilities::default(), &[]).map_err(|e| e.to_string())?;
    f.quiet();
    let p = f.create_parser(g).map_err(|e| e.to_string())?;
    let m = Matcher::new(Ok(p));
    if m.is_error() {
        return Err(m.get_error().unwrap_or_default());
    }
    Ok(m)
}

/// Is there a completion of at most `depth` bytes?  Exhaustive depth-first search over the
/// byte-level engine (closing characters first).  Some(true): found; Some(false): the whole
/// tree up to `depth` was explored and contains no accepting state; None: budget exhausted
/// (inconclusive — never reported).
fn completion_within(m: &Matcher, depth: usize, budget: &mut usize) -> Option<bool> {
    if *budget == 0 {
        return None;
    }
    *budget -= 1;
    let mut c = m.deep_clone();
    if c.is_stopped() {
        return Some(c.stop_reason().is_ok());
    }
    if c.is_accepting().unwrap_or(false) {
        return Some(true);
    }
    if depth == 0 {
        return Some(false);
    }
    let Ok(mask) = c.compute_mask() else {
        return Some(c.stop_reason().is_ok());
    };
    let mut ml: Vec<u32> = mask_list(&mask).into_iter().filter(|&t| t < 256).collect();
    // closers and short literals first
    let prio = |t: u32| -> usize {
        let b = t as u8;
        match b {
            b'"' => 0,
            b'}' | b']' | b')' => 1,
            b'0'..=b'9' => 2,
            b'a'..=b'z' => 3,
            _ => 4,
        }
    };
    ml.sort_by_key(|&t| (prio(t), t));
    let mut exhausted = true;
    for t in ml {
        let mut d = c.deep_clone();
        if d.consume_token(t).is_err() {
            continue;
        }
        match completion_within(&d, depth - 1, budget) {
            Some(true) => return Some(true),
            Some(false) => {}
            None => {
                exhausted = false;
                break;
            }
        }
    }
    if exhausted {
        Some(false)
    } else {
        None
    }
}

fn gen_json_schema(rng: &mut Rng, depth: usize) -> serde_json::Value {
    use serde_json::json;
    let k = if depth == 0 { rng.below(6) } else { rng.below(10) };
    // intersections whose two sides are alive separately but jointly empty after some prefix
    if rng.chance(1, 4) {
        let a = rng.below(300) as i64 - 50;
        return match rng.below(3) {
            0 => json!({"type": "integer", "minimum": a, "maximum": a + rng.range(1, 15) as i64, "multipleOf": rng.range(2, 9)}),
            1 => json!({"type": "string", "pattern": *rng.pick(&["^a+bb$", "^[ab]*c$", "^(ab)+$", "^x[a-c]*yz$"]), "maxLength": rng.range(2, 5)}),
            _ => json!({"type": "number", "minimum": a as f64 / 4.0, "maximum": a as f64 / 4.0 + rng.range(1, 6) as f64 / 8.0, "multipleOf": *rng.pick(&[0.5, 0.25, 0.2, 0.75])}),
        };
    }
    match k {
        0 => json!({"type": "integer", "minimum": rng.below(20) as i64 - 10, "maximum": rng.below(200) as i64 + 10}),
        1 => json!({"type": "integer", "multipleOf": rng.range(2, 7), "minimum": 1, "maximum": 100}),
        2 => json!({"type": "number", "exclusiveMinimum": -1.5, "maximum": rng.below(9) as f64 + 0.25}),
        3 => json!({"type": "string", "minLength": rng.below(3), "maxLength": rng.range(3, 8)}),
        4 => json!({"type": "string", "format": *rng.pick(&["date", "time", "uuid", "date-time", "ipv4", "email"])}),
        5 => json!({"enum": ["ab", "abc", 1, null, true]}),
        6 => json!({"type": "array", "items": gen_json_schema(rng, depth - 1), "minItems": rng.below(2), "maxItems": rng.range(2, 3)}),
        7 => json!({"type": "object", "properties": {"a": gen_json_schema(rng, depth - 1), "ab": gen_json_schema(rng, depth - 1)}, "required": ["a"], "additionalProperties": false}),
        8 => json!({"allOf": [{"type": "integer", "minimum": 0}, {"type": "integer", "maximum": 50, "multipleOf": 5}]}),
        _ => json!({"anyOf": [gen_json_schema(rng, depth - 1), gen_json_schema(rng, depth - 1)]}),
    }
}


/// a sub-schema with no instance, written so that each part is satisfiable on its own
fn gen_empty_schema(rng: &mut Rng) -> serde_json::Value {
    use serde_json::json;
    match if rng.chance(1, 3) { 8 } else { rng.below(13) } {
        // numeric: bounds and multipleOf that are satisfiable separately but have no common value
        8 => {
            // an integer range that holds a fractional multiple only (6..9 and 2.5)
            let (lo, hi, m) = *rng.pick(&[(6, 9, 2.5), (1, 2, 1.5), (8, 14, 7.5), (11, 12, 2.5), (-9, -6, 2.5), (9, 11, 0.8), (5, 7, 0.8), (7, 9, 1.2), (-11, -9, 0.8), (13, 14, 1.2)]);
            json!({"type": "integer", "minimum": lo, "maximum": hi, "multipleOf": m})
        }
        9 => {
            let (lo, hi, m) = *rng.pick(&[(1.1, 1.4, 0.5), (0.26, 0.49, 0.25), (-0.9, -0.1, 1.0), (10.5, 11.5, 4.0)]);
            json!({"type": "number", "minimum": lo, "maximum": hi, "multipleOf": m})
        }
        10 => json!({"type": "integer", "exclusiveMinimum": 3, "exclusiveMaximum": 4}),
        11 => json!({"allOf": [{"type": "integer", "minimum": 0, "maximum": 5}, {"type": "integer", "minimum": 6, "maximum": 9}]}),
        12 => json!({"type": "integer", "minimum": 1, "maximum": 5, "multipleOf": 6}),
        0 => json!({"allOf": [{"const": "a"}, {"const": "b"}]}),
        1 => json!({"allOf": [{"enum": ["x", "y"]}, {"enum": ["z", "w"]}]}),
        2 => json!({"allOf": [{"type": "string", "pattern": "^a+$"}, {"type": "string", "pattern": "^b+$"}]}),
        3 => json!({"allOf": [{"enum": ["x", "yy"]}, {"type": "string", "minLength": 3}]}),
        4 => json!({"type": "string", "pattern": "^ab+$", "maxLength": 1}),
        5 => json!({"allOf": [{"const": "ab"}, {"type": "string", "pattern": "^b"}]}),
        6 => json!({"allOf": [{"enum": ["k", 1]}, {"enum": ["m", 2]}]}),
        _ => json!({"allOf": [{"const": "a"}, {"enum": ["b", "c"]}, {"type": "string"}]}),
    }
}

/// a satisfiable schema with an unsatisfiable part in an optional position (optional property,
/// array items with minItems 0, one branch of anyOf)
fn gen_optional_empty_schema(rng: &mut Rng) -> serde_json::Value {
    use serde_json::json;
    let e = gen_empty_schema(rng);
    // the optional property comes first, so that its key is a few bytes from the start
    match rng.below(6) {
        0 => json!({"type": "object", "properties": {"t": e, "n": {"type": "integer", "minimum": 0, "maximum": 9}}, "required": ["n"], "additionalProperties": false}),
        1 | 5 => json!({"type": "object", "properties": {"t": e, "n": {"type": "boolean"}}, "additionalProperties": false}),
        2 => json!({"type": "array", "items": e, "maxItems": 2}),
        3 => json!({"anyOf": [e, {"type": "null"}]}),
        _ => json!({"type": "object", "properties": {"t": gen_empty_schema(rng), "k": {"anyOf": [e, {"const": 0}]}}, "required": ["k"], "additionalProperties": false}),
    }
}

/// breadth-first exploration of every state reachable through mask-allowed bytes (up to `max_states`
/// states and `max_depth` bytes): no state may be a dead end
fn explore_case(out: &mut Out, tg: TopLevelGrammar, descr: &str, kind: &str, max_states: usize, max_depth: usize) {
    let (wb, eosb) = single_byte_vocab();
    let envb = make_env(&wb, eosb, false);
    let Ok(m0) = mk(&envb, tg) else {
        out.count("grammar_rejected", 1);
        return;
    };
    let mut queue: std::collections::VecDeque<(Matcher, Vec<u8>)> = std::collections::VecDeque::new();
    queue.push_back((m0, vec![]));
    let mut seen = 0usize;
    while let Some((m, hist)) = queue.pop_front() {
        if seen >= max_states {
            break;
        }
        seen += 1;
        let mut c = m.deep_clone();
        if c.is_stopped() {
            continue;
        }
        let acc = c.is_accepting().unwrap_or(false);
        let ml: Vec<u32> = match c.compute_mask() {
            Ok(mask) => mask_list(&mask),
            Err(_) => {
                if !acc {
                    out.violation(&format!("compute_mask failed ({:?}) in a non-accepting state after {:?} [{kind}]", c.stop_reason(), String::from_utf8_lossy(&hist)), descr.to_string());
                    break;
                }
                continue;
            }
        };
        if ml.is_empty() && !acc {
            out.violation(&format!("empty mask returned after {:?} [{kind}]", String::from_utf8_lossy(&hist)), descr.to_string());
            break;
        }
        let mut budget = 3000;
        if let Some(false) = completion_within(&m, 48, &mut budget) {
            out.violation(&format!("dead end: after {:?} the state is not accepting and no byte string of length <= 48 completes it (exhaustive search) [{kind}]", String::from_utf8_lossy(&hist)), descr.to_string());
            break;
        }
        out.count("states_checked", 1);
        if hist.len() >= max_depth {
            continue;
        }
        // all allowed bytes when few, otherwise a spread of them
        let all: Vec<u32> = ml.into_iter().filter(|&t| t < 256).collect();
        // optional whitespace multiplies the states without changing them: follow it only when nothing else is allowed
        let solid: Vec<u32> = all.iter().copied().filter(|&t| !matches!(t as u8, b' ' | b'\n' | b'\t' | b'\r')).collect();
        let bytes = if solid.is_empty() || hist.last().map(|&b| b == b'"' || b.is_ascii_alphanumeric()).unwrap_or(false) && hist.iter().filter(|&&b| b == b'"').count() % 2 == 1 { all } else { solid };
        let step = if bytes.len() > 8 { bytes.len() / 4 } else { 1 };
        for &t in bytes.iter().step_by(step.max(1)) {
            let mut d = c.deep_clone();
            if d.consume_token(t).is_ok() {
                let mut h = hist.clone();
                h.push(t as u8);
                queue.push_back((d, h));
            }
        }
    }
    out.count(kind, 1);
    out.case(tagged("noop", vec![sym("explore"), int(seen)]), tagged("noop", vec![sym("explore"), int(seen)]), seen > 1);
}

fn walk_case(rng: &mut Rng, out: &mut Out, env: &TokEnv, ws: &[Vec<u8>], eos: u32, tg: TopLevelGrammar, descr: &str, kind: &str) {
    let Ok(mut m) = mk(env, tg.clone()) else {
        out.count("grammar_rejected", 1);
        return;
    };
    // byte-level engine of the same grammar, kept in step, for the exhaustive completion search
    let (wb, eosb) = single_byte_vocab();
    let envb = make_env(&wb, eosb, false);
    let Ok(mut mb) = mk(&envb, tg) else { return };
    let mut hist: Vec<u8> = vec![];
    for _ in 0..rng.range(2, 6) {
        match m.compute_mask() {
            Ok(mask) => {
                let ml = mask_list(&mask);
                if ml.is_empty() {
                    out.violation(&format!("empty mask returned after {:?}", String::from_utf8_lossy(&hist)), descr.to_string());
                    break;
                }
                let mut budget = 40000;
                match completion_within(&mb, 64, &mut budget) {
                    Some(false) => {
                        out.violation(
                            &format!("dead end: after {:?} the state is not accepting and no byte string of length <= 64 completes it (exhaustive search) [{kind}]", String::from_utf8_lossy(&hist)),
                            descr.to_string(),
                        );
                        break;
                    }
                    Some(true) => out.count("completion_found", 1),
                    None => out.count("completion_search_inconclusive", 1),
                }
                out.count("states_checked", 1);
                let Some(t) = pick_token(rng, &ml, ws, eos) else { break };
                if t == eos {
                    break;
                }
                if m.consume_token(t).is_err() {
                    break;
                }
                for &b in &ws[t as usize] {
                    let _ = mb.consume_token(b as u32);
                }
                hist.extend_from_slice(&ws[t as usize]);
                if m.is_stopped() {
                    if !m.stop_reason().is_ok() || !matches!(m.stop_reason(), llguidance::api::StopReason::NoExtension | llguidance::api::StopReason::EndOfSentence) {
                        out.violation(&format!("stopped with {:?} after {:?}", m.stop_reason(), String::from_utf8_lossy(&hist)), descr.to_string());
                    }
                    break;
                }
            }
            Err(_) => {
                // "no extension" must only happen in an accepting state
                let acc = m.deep_clone().is_accepting().unwrap_or(false);
                if !matches!(m.stop_reason(), llguidance::api::StopReason::NoExtension | llguidance::api::StopReason::NoExtensionBias) || (!acc && !m.is_stopped()) {
                    out.violation(&format!("compute_mask failed ({:?}) in a non-accepting state after {:?}", m.stop_reason(), String::from_utf8_lossy(&hist)), descr.to_string());
                }
                if matches!(m.stop_reason(), llguidance::api::StopReason::NoExtensionBias) {
                    out.violation(&format!("stopped with 'no extension' (empty mask) after {:?}", String::from_utf8_lossy(&hist)), descr.to_string());
                }
                break;
            }
        }
    }
    out.count(kind, 1);
    out.case(tagged("noop", vec![int(hist.len())]), tagged("noop", vec![int(hist.len())]), hist.len() > 1);
}

pub fn run(rng: &mut Rng, out: &mut Out, tier: &str) {
    let n = if tier == "thorough" { 3000 } else { 300 };
    // corpus: grammars recorded as findings are replayed first
    for line in corpus_lines("C03") {
        let lark = line.replace("\\n", "\n");
        let (ws, eos) = single_byte_vocab();
        let env = make_env(&ws, eos, false);
        let mut r = rng.fork(0xC03);
        walk_case(&mut r, out, &env, &ws, eos, TopLevelGrammar::from_lark(lark.clone()), &lark, "corpus");
    }
    for i in 0..n {
        let mut r = rng.fork(i as u64);
        let (ws, eos) = if r.chance(1, 3) { single_byte_vocab() } else { gen_engine_vocab(&mut r, 30) };
        let env = make_env(&ws, eos, false);
        if i % 5 == 2 {
            // an unsatisfiable sub-schema in an optional position: every reachable state explored
            let mut sc = gen_optional_empty_schema(&mut r);
            // without optional whitespace the exhaustive completion search is conclusive (a state that
            // allows whitespace for ever cannot be told from a dead end by a bounded search)
            if r.chance(3, 4) {
                sc["x-guidance"] = serde_json::json!({"whitespace_flexible": false});
            }
            explore_case(out, TopLevelGrammar::from_json_schema(sc.clone()), &sc.to_string(), "json_optional_empty", 150, 14);
            walk_case(&mut r, out, &env, &ws, eos, TopLevelGrammar::from_json_schema(sc.clone()), &sc.to_string(), "json_optional_empty_walk");
        } else if i % 5 == 4 {
            // a terminal built with & / ~ whose sides can each continue while their intersection cannot
            let mut t = String::new();
            gen_rx_tension(&mut r).to_lark_term(&mut t);
            let lark = format!("start: T \"!\"\nT: {t}\n");
            walk_case(&mut r, out, &env, &ws, eos, TopLevelGrammar::from_lark(lark.clone()), &lark, "tension");
        } else if i % 2 == 0 {
            // productive CFG over non-confusable terminals
            let g = crate::c05::gen_cfg_pub(&mut r);
            let lark = g.to_lark();
            walk_case(&mut r, out, &env, &ws, eos, TopLevelGrammar::from_lark(lark.clone()), &lark, "cfg");
        } else {
            let s = gen_json_schema(&mut r, 2);
            walk_case(&mut r, out, &env, &ws, eos, TopLevelGrammar::from_json_schema(s.clone()), &s.to_string(), "json");
        }
    }
}
