//! C14: clones are independent and results do not depend on scheduling.
use crate::eng::*;
use crate::out::Out;
use crate::rng::Rng;
use crate::sexp::*;
use llguidance::Matcher;
use std::sync::{Arc, Barrier};

/// expected (mask after each prefix of the history) from a private, freshly built engine
fn private_run(env: &llguidance::toktrie::TokEnv, lark: &str, hist: &[u32]) -> Option<Vec<Option<Vec<u32>>>> {
    let mut m = new_matcher(env, lark, &[]).ok()?;
    let mut masks = vec![];
    for &t in hist {
        masks.push(m.compute_mask().ok().map(|v| mask_list(&v)));
        m.consume_token(t).ok()?;
    }
    masks.push(if m.is_stopped() { None } else { m.compute_mask().ok().map(|v| mask_list(&v)) });
    Some(masks)
}

/// a history reachable through the masks
fn plan_history(rng: &mut Rng, env: &llguidance::toktrie::TokEnv, lark: &str, ws: &[Vec<u8>], eos: u32, prefix: &[u32], n: usize) -> Vec<u32> {
    let Ok(mut m) = new_matcher(env, lark, &[]) else { return prefix.to_vec() };
    let mut h = vec![];
    for &t in prefix {
        if m.consume_token(t).is_err() {
            return h;
        }
        h.push(t);
    }
    for _ in 0..n {
        if m.is_stopped() {
            break;
        }
        let Ok(mask) = m.compute_mask() else { break };
        let ml: Vec<u32> = mask_list(&mask).into_iter().filter(|&t| t != eos).collect();
        let Some(t) = pick_token(rng, &ml, ws, eos) else { break };
        if m.consume_token(t).is_err() {
            break;
        }
        h.push(t);
    }
    h
}

struct Worker {
    m: Matcher,
    todo: Vec<u32>,
    got: Vec<Option<Vec<u32>>>,
    /// the clone's own operations and what they returned (replayed on the engine model)
    ops: Vec<Op>,
    res: Vec<Sx>,
}
impl Worker {
    fn step(&mut self) -> bool {
        if self.todo.is_empty() {
            if self.got.len() == 0 || self.got.last().is_some() {
                // final mask
            }
            return false;
        }
        let (r, mask) = run_op(&mut self.m, &Op::Mask);
        self.ops.push(Op::Mask);
        self.res.push(r);
        self.got.push(mask);
        let t = self.todo.remove(0);
        let (r, _) = run_op(&mut self.m, &Op::Commit(t));
        self.ops.push(Op::Commit(t));
        self.res.push(r);
        true
    }
    fn finish(&mut self) {
        if self.m.is_stopped() {
            self.got.push(None);
        } else {
            let (r, mask) = run_op(&mut self.m, &Op::Mask);
            self.ops.push(Op::Mask);
            self.res.push(r);
            self.got.push(mask);
        }
    }
}

pub fn case(rng: &mut Rng, out: &mut Out, threads: bool) {
    let g = if rng.chance(1, 3) { gen_diamond_gram(rng) } else { gen_gram(rng) };
    let lark = g.to_lark();
    let (ws, eos) = gen_engine_vocab(rng, 30);
    let env = make_env(&ws, eos, false);
    let Ok(mut base) = new_matcher(&env, &lark, &[]) else {
        out.count("grammar_rejected", 1);
        return;
    };
    // common prefix, then clones with different continuations
    let np = rng.below(3);
    let prefix = plan_history(rng, &env, &lark, &ws, eos, &[], np);
    let mut pre_ops: Vec<Op> = vec![];
    let mut pre_res: Vec<Sx> = vec![];
    for &t in &prefix {
        let (r, _) = run_op(&mut base, &Op::Mask);
        pre_ops.push(Op::Mask);
        pre_res.push(r);
        let (r, _) = run_op(&mut base, &Op::Commit(t));
        let ok = r.to_string() == "(ok)";
        pre_ops.push(Op::Commit(t));
        pre_res.push(r);
        if !ok {
            return;
        }
    }
    if base.is_stopped() {
        return;
    }
    let k = rng.range(2, if threads { 16 } else { 5 });
    let mut workers: Vec<Worker> = vec![];
    let mut expected = vec![];
    for i in 0..k {
        let nh = rng.range(1, 5);
        let hist = plan_history(rng, &env, &lark, &ws, eos, &prefix, nh);
        let Some(exp) = private_run(&env, &lark, &hist) else { return };
        expected.push(exp[prefix.len()..].to_vec());
        let m = if i % 2 == 0 { base.clone() } else { base.deep_clone() };
        workers.push(Worker { m, todo: hist[prefix.len()..].to_vec(), got: vec![], ops: vec![], res: vec![] });
    }
    let mut sched_descr = String::new();
    if threads {
        // real threads, started together; each yields between steps
        let barrier = Arc::new(Barrier::new(workers.len()));
        let handles: Vec<_> = workers
            .into_iter()
            .map(|mut w| {
                let b = barrier.clone();
                std::thread::spawn(move || {
                    b.wait();
                    while w.step() {
                        std::thread::yield_now();
                    }
                    w.finish();
                    w
                })
            })
            .collect();
        workers = handles.into_iter().map(|h| h.join().unwrap()).collect();
        sched_descr.push_str("threads");
        out.count("thread_runs", 1);
    } else {
        // an explicit interleaving of the clones' steps
        let mut alive: Vec<usize> = (0..workers.len()).collect();
        while !alive.is_empty() {
            let j = rng.below(alive.len());
            let i = alive[j];
            sched_descr.push_str(&format!("{i} "));
            if !workers[i].step() {
                workers[i].finish();
                alive.remove(j);
            }
        }
        out.count("interleaved_runs", 1);
    }
    let mut bad = false;
    for (i, w) in workers.iter().enumerate() {
        if w.got != expected[i] {
            bad = true;
            out.violation(
                &format!(
                    "clone {i} ({}) got masks {:?} but a private fresh engine gives {:?} (schedule: {})",
                    if i % 2 == 0 { "shared lexer" } else { "deep clone" },
                    w.got,
                    expected[i],
                    sched_descr
                ),
                lark.clone(),
            );
            break;
        }
    }
    // model side: what the first clones did under this schedule, replayed on the engine model
    // (prefix on the common engine, then the clone's own operations)
    for w in workers.iter().take(2) {
        let mut ops = pre_ops.clone();
        ops.extend(w.ops.iter().cloned());
        let mut res = pre_res.clone();
        res.extend(w.res.iter().cloned());
        let mut inp = vec![g.to_sx()];
        inp.extend(vocab_sx(&ws, eos));
        inp.push(tagged("canonical", vec![int(0)]));
        inp.push(tagged("ops", ops.iter().map(|o| o.to_sx()).collect()));
        out.case(tagged("session", inp), tagged("session", res), true);
        out.count("clone_sessions_on_model", 1);
    }
    let hists: Vec<Sx> = expected.iter().map(|e| int(e.len())).collect();
    out.case(tagged("noop", vec![int(k), list(hists)]), tagged("noop", vec![int(k), list(expected.iter().map(|e| int(e.len())).collect())]), !bad);
    out.count("clones", k as u64);
}


/// the batch mask computation of the C API over clones of one constraint (llg_clone_constraint),
/// each with its own history: every batch step, run on the rayon pool into caller buffers that are
/// re-used from step to step, gives each clone what a private, freshly built engine with the same
/// history gives ({EOS} once that engine has stopped)
pub fn par_case(rng: &mut Rng, out: &mut Out) {
    use llguidance::api::TopLevelGrammar;
    use llguidance::ffi::*;
    use llguidance::toktrie::InferenceCapabilities;
    use llguidance::{Constraint, ParserFactory};
    let g = if rng.chance(1, 3) { gen_diamond_gram(rng) } else { gen_gram(rng) };
    let lark = g.to_lark();
    let (ws, eos) = gen_engine_vocab(rng, 30);
    let env = make_env(&ws, eos, false);
    let Ok(mut f) = ParserFactory::new(&env, InferenceCapabilities::default(), &[]) else { return };
    f.quiet();
    let fresh = |f: &ParserFactory| -> Option<Constraint> { f.create_parser(TopLevelGrammar::from_lark(lark.clone())).ok().map(Constraint::new) };
    if fresh(&f).is_none() {
        out.count("grammar_rejected", 1);
        return;
    }
    let tok = crate::c17::c_tokenizer(&ws, eos);
    if tok.is_null() {
        return;
    }
    let init = crate::c17::c_init(tok);
    let clark = std::ffi::CString::new(lark.clone()).unwrap();
    let base = llg_new_constraint_lark(&init, clark.as_ptr());
    let words = ws.len().div_ceil(32);
    // common prefix on the base constraint
    let np = rng.below(3);
    let prefix = plan_history(rng, &env, &lark, &ws, eos, &[], np);
    let mut ok = true;
    for &t in &prefix {
        let mut mres: LlgMaskResult = unsafe { std::mem::zeroed() };
        let mut cres: LlgCommitResult = unsafe { std::mem::zeroed() };
        if llg_compute_mask(unsafe { &mut *base }, &mut mres) != 0 || llg_commit_token(unsafe { &mut *base }, t, &mut cres) != 0 {
            ok = false;
            break;
        }
    }
    let k = rng.range(2, 8);
    let mut clones: Vec<*mut LlgConstraint> = vec![];
    let mut todo: Vec<Vec<u32>> = vec![];
    let mut done_hist: Vec<Vec<u32>> = vec![];
    let mut privs: Vec<Constraint> = vec![];
    if ok {
        for _ in 0..k {
            let nh = rng.range(0, 5);
            let hist = plan_history(rng, &env, &lark, &ws, eos, &prefix, nh);
            if hist.len() < prefix.len() {
                continue;
            }
            // the private engine: built from scratch, fed the prefix
            let Some(mut p) = fresh(&f) else { continue };
            let mut fine = true;
            for &t in &prefix {
                if p.compute_mask().is_err() || p.commit_token(Some(t)).is_err() {
                    fine = false;
                }
            }
            if !fine {
                continue;
            }
            clones.push(llg_clone_constraint(unsafe { &*base }));
            todo.push(hist[prefix.len()..].to_vec());
            done_hist.push(prefix.clone());
            privs.push(p);
        }
    }
    // caller buffers: allocated once, never cleared between batch steps
    let mut bufs: Vec<Vec<u32>> = clones.iter().map(|_| vec![0xFFFF_FFFFu32; words]).collect();
    let mut viol: Vec<String> = vec![];
    let mut alive: Vec<bool> = clones.iter().map(|_| true).collect();
    let mut rounds = 0;
    while alive.iter().any(|&a| a) && rounds < 8 && viol.is_empty() {
        rounds += 1;
        let idx: Vec<usize> = (0..clones.len()).filter(|&i| alive[i]).collect();
        let steps: Vec<LlgConstraintStep> = idx.iter().map(|&i| LlgConstraintStep { constraint: clones[i], mask_dest: bufs[i].as_mut_ptr(), mask_byte_len: words * 4 }).collect();
        unsafe { llg_par_compute_mask(steps.as_ptr(), steps.len(), std::ptr::null(), None) };
        for &i in &idx {
            // what the private engine says in the same state
            let mut expect = vec![0u32; words];
            let mut stop = false;
            match privs[i].compute_mask() {
                Ok(r) => {
                    if let Some(m) = r.sample_mask.as_ref() {
                        for (j, w) in m.as_slice().iter().enumerate().take(words) {
                            expect[j] = *w;
                        }
                    }
                    if r.is_stop() {
                        stop = true;
                        expect[eos as usize / 32] |= 1 << (eos % 32);
                    }
                }
                Err(_) => {
                    alive[i] = false;
                    continue;
                }
            }
            if bufs[i] != expect {
                let show = |w: &[u32]| -> Vec<u32> { (0..ws.len() as u32).filter(|&t| w[t as usize / 32] & (1 << (t % 32)) != 0).collect() };
                viol.push(format!(
                    "batch step {rounds}, clone {i} with history {:?}: llg_par_compute_mask wrote {:?} but a private fresh engine gives {:?}{}",
                    done_hist[i], show(&bufs[i]), show(&expect), if stop { " (stopped)" } else { "" }
                ));
                break;
            }
            if stop || todo[i].is_empty() {
                alive[i] = false;
                continue;
            }
            let t = todo[i].remove(0);
            let mut cres: LlgCommitResult = unsafe { std::mem::zeroed() };
            let cc = llg_commit_token(unsafe { &mut *clones[i] }, t, &mut cres);
            let pr = privs[i].commit_token(Some(t));
            if (cc == 0) != pr.is_ok() {
                viol.push(format!("clone {i}: llg_commit_token({t}) = {cc} but the private engine returned ok = {}", pr.is_ok()));
                break;
            }
            if cc != 0 {
                alive[i] = false;
                continue;
            }
            done_hist[i].push(t);
            // a clone that has used up its tokens stays in the batch for one more step (its final mask, or its stop)
        }
    }
    unsafe {
        for c in clones.iter() {
            llg_free_constraint(*c);
        }
        llg_free_constraint(base);
        llg_free_tokenizer(tok);
    }
    let n = privs.len();
    for v in viol {
        out.violation(&v, lark.clone());
    }
    out.case(tagged("noop", vec![sym("par"), int(n), int(rounds)]), tagged("noop", vec![sym("par"), int(n), int(rounds)]), n > 1 && rounds > 1);
    out.count("par_batches", rounds as u64);
    out.count("par_cases", 1);
}

pub fn run(rng: &mut Rng, out: &mut Out, tier: &str) {
    let n = if tier == "thorough" { 4000 } else { 400 };
    for i in 0..n {
        let mut r = rng.fork(i as u64);
        case(&mut r, out, i % 2 == 1);
        if i % 2 == 0 {
            let mut r = rng.fork(0x1400_0000 + i as u64);
            par_case(&mut r, out);
        }
    }
}
