use llguidance::api::{GrammarInit, ParserLimits, TopLevelGrammar};
pub fn run() {
    let lark = "start: a b\na: T0 | c\nb: c c\nc: d\nd: T1 T0 | \"\"\nT0: /x/\nT1: /y+/\n";
    let gi = GrammarInit::Serialized(TopLevelGrammar::from_lark(lark.to_string()));
    let (g, lex) = gi.to_internal(None, ParserLimits::default()).unwrap();
    println!("{}", g.to_string(Some(&lex)));
    let o = g.optimize();
    println!("{}", o.to_string(Some(&lex)));
}
