//! scratch probes (not part of any registered check)
use crate::eng::*;
use llguidance::api::TopLevelGrammar;
use llguidance::toktrie::InferenceCapabilities;
use llguidance::{Matcher, ParserFactory};

pub fn run() {
    let args: Vec<String> = std::env::args().collect();
    if args.len() >= 4 && args[2] == "dump" {
        use llguidance::api::{GrammarInit, ParserLimits};
        let gi = GrammarInit::Serialized(TopLevelGrammar::from_lark(args[3].replace("\\n", "\n")));
        match gi.to_internal(None, ParserLimits::default()) {
            Err(e) => println!("rejected: {e}"),
            Ok((gram, lex)) => {
                println!("--- before ---\n{}", gram.to_string(Some(&lex)));
                println!("--- after ---\n{}", gram.optimize().to_string(Some(&lex)));
            }
        }
        return;
    }
    if args.len() >= 4 && args[2] == "dumpjson" {
        use llguidance::api::{GrammarInit, ParserLimits};
        let v: serde_json::Value = serde_json::from_str(&args[3]).unwrap();
        let gi = GrammarInit::Serialized(TopLevelGrammar::from_json_schema(v));
        match gi.to_internal(None, ParserLimits::default()) {
            Err(e) => println!("rejected: {e}"),
            Ok((gram, lex)) => {
                println!("--- before ---\n{}", gram.to_string(Some(&lex)));
                println!("--- after ---\n{}", gram.optimize().to_string(Some(&lex)));
            }
        }
        return;
    }
    if args.len() >= 5 && args[2] == "walk" {
        // llgverif probe walk '<lark>' 't1,t2,...' : commit the tokens, print the mask after each
        let mut ws: Vec<Vec<u8>> = (0..=255u8).map(|b| vec![b]).collect();
        ws.push(b"\xFF<|tool|>".to_vec());
        ws.push(b"\xFF[123]".to_vec());
        ws.push(b"\xFF<|eos|>".to_vec());
        let env = make_env(&ws, 258, false);
        match new_matcher(&env, &args[3].replace("\\n", "\n"), &[]) {
            Err(e) => println!("rejected: {e}"),
            Ok(mut m) => {
                println!("mask: {:?}", m.compute_mask().map(|v| mask_list(&v)).map_err(|e| e.to_string().lines().next().unwrap_or("").to_string()));
                for t in args[4].split(',').filter(|x| !x.is_empty()) {
                    let t: u32 = t.parse().unwrap();
                    println!("commit {t}: {:?}", m.consume_token(t).map_err(|e| e.to_string().lines().next().unwrap_or("").to_string()));
                    println!("mask: {:?}", m.compute_mask().map(|v| mask_list(&v)).map_err(|e| e.to_string().lines().next().unwrap_or("").to_string()));
                }
            }
        }
        return;
    }
    if args.len() >= 4 && args[2] == "special" {
        // single bytes + one special token + EOS
        let mut ws: Vec<Vec<u8>> = (0..=255u8).map(|b| vec![b]).collect();
        ws.push(b"\xFF<|tool|>".to_vec());
        ws.push(b"\xFF<|eos|>".to_vec());
        let env = make_env(&ws, 257, false);
        match new_matcher(&env, &args[3].replace("\\n", "\n"), &[]) {
            Err(e) => println!("rejected: {e}"),
            Ok(mut m) => {
                for step in 0..3 {
                    let r = m.compute_mask().map(|v| mask_list(&v));
                    let l = r.unwrap_or_default();
                    println!("step {step}: special 256 in mask: {}, marker byte 255 in mask: {}, eos: {}, size {}", l.contains(&256), l.contains(&255), l.contains(&257), l.len());
                    if m.consume_token(b'b' as u32).is_err() { break; }
                }
                let mut c = m.deep_clone();
                println!("commit special: {:?}", c.consume_token(256).map_err(|e| e.to_string().lines().next().unwrap_or("").to_string()));
            }
        }
        return;
    }
    if args.len() >= 4 && args[2] == "lark" {
        let (ws, eos) = single_byte_vocab();
        let env = make_env(&ws, eos, false);
        match new_matcher(&env, &args[3].replace("\\n", "\n"), &[]) {
            Err(e) => println!("rejected: {e}"),
            Ok(mut m) => {
                let r = m.compute_mask();
                println!("mask: {:?}", r.map(|v| mask_list(&v)).map_err(|e| e.to_string()));
                println!("error: {:?}", m.get_error().map(|e| e.lines().take(3).collect::<Vec<_>>().join(" | ")));
            }
        }
        return;
    }
    // llgverif probe schema '<json>' [literal...]
    if args.len() >= 4 && args[2] == "schema" {
        let (ws, eos) = single_byte_vocab();
        let env = make_env(&ws, eos, false);
        let v: serde_json::Value = serde_json::from_str(&args[3]).unwrap();
        let t0 = std::time::Instant::now();
        let mut f = ParserFactory::new(&env, InferenceCapabilities::default(), &[]).unwrap();
        f.quiet();
        match f.create_parser(TopLevelGrammar::from_json_schema(v)) {
            Err(e) => println!("rejected: {e}"),
            Ok(p) => {
                let m = Matcher::new(Ok(p));
                println!("compiled in {:?}", t0.elapsed());
                for lit in &args[4..] {
                    let mut c = m.deep_clone();
                    let mut ok = true;
                    for &b in lit.as_bytes() {
                        if c.is_stopped() {
                            println!("  stopped: {:?}", c.stop_reason());
                            ok = false;
                            break;
                        }
                        if let Err(e) = c.consume_token(b as u32) {
                            println!("FULL ERROR: {}", c.get_error().unwrap_or_default());
                            println!("  consume error: {} / stop_reason={:?} is_resource={}", e.to_string().lines().next().unwrap_or("").to_string(), c.stop_reason(), is_resource_limit(&c));
                            ok = false;
                            break;
                        }
                    }
                    let acc = c.is_accepting();
                    println!("{lit}: ok={ok} accepting={:?} err={:?} stop={:?} ({:?})", acc.as_ref().map_err(|e| e.to_string().lines().next().unwrap_or("").to_string()), c.get_error().map(|e| e.lines().rev().take(3).collect::<Vec<_>>().join(" | ")), c.stop_reason(), t0.elapsed());
                    let mk = c.compute_mask();
                    println!("   mask after: {:?}", mk.map(|m| mask_list(&m)).map_err(|e| e.to_string().lines().next().unwrap_or("").to_string()));
                }
            }
        }
    }
}
