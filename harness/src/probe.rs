use crate::eng::*;
pub fn run() {
    let (ws, eos) = single_byte_vocab();
    let env = make_env(&ws, eos, false);
    for lark in [
        "start: T\nT: (\"ab\" | /[c-d]/){1,2} & ~(\"abab\")\n",
        "start: T\nT: ~(/a+/) & /[ab]{0,2}/\n",
        "start: T\nT: (\"a\" \"b\"?)* \n",
        "start: T\nT: \"\\x61\\u00e9\" /[a-b]/\n",
    ] {
        match new_matcher(&env, lark, &[]) {
            Ok(mut m) => {
                print!("OK   {:?}: ", lark);
                for s in ["", "ab", "abab", "abc", "c", "b", "bb", "aa", "aéa"] {
                    let mut c = m.deep_clone();
                    let mut ok = true;
                    for &b in s.as_bytes() { if c.is_stopped() || c.consume_token(b as u32).is_err() { ok = false; break; } }
                    let acc = ok && c.is_accepting().unwrap_or(false);
                    print!("{s:?}={} ", acc);
                }
                println!();
                let _ = m.compute_mask();
            }
            Err(e) => println!("ERR  {:?}: {}", lark, e.lines().next().unwrap_or("")),
        }
    }
}
