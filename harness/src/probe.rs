use crate::eng::*;
pub fn run() {
    let env = llguidance::toktrie::ApproximateTokEnv::single_byte_env();
    let lark = "start: T T\nT: /(ab)+/\n";
    let mut m = new_matcher(&env, lark, &[]).unwrap();
    println!("created");
    let r = m.compute_mask();
    println!("mask {:?}", r.map(|v| mask_list(&v)));
}
