use crate::eng::*;
pub fn run() {
    let (ws, eos) = single_byte_vocab();
    let env = make_env(&ws, eos, false);
    let lark = "start: \"a\" start \"c\" | \"b\"\n";
    let mut m = new_matcher(&env, lark, &[]).unwrap();
    for t in [b'a', b'b'] {
        println!("mask {:?}", m.compute_mask().map(|v| mask_list(&v)));
        println!("commit {:?}", m.consume_token(t as u32).map_err(|e| e.to_string()));
        println!("accepting {:?} stopped {:?}", m.is_accepting(), m.is_stopped());
    }
    println!("mask {:?}", m.compute_mask().map(|v| mask_list(&v)));
}
