use crate::eng::*;
use llguidance::StopController;
pub fn run() {
    let (ws, eos) = single_byte_vocab();
    let env = make_env(&ws, eos, false);
    for (stops, text) in [
        (vec!["b", "ab"], "xxabyy"),
        (vec!["ab", "b"], "xxabyy"),
        (vec!["abc", "b"], "xxabcyy"),
        (vec!["bcd", "abc"], "xabcdy"),
        (vec!["aa"], "xaaay"),
    ] {
        let mut sc = StopController::new(env.clone(), vec![], None, stops.iter().map(|s| s.to_string()).collect()).unwrap();
        let mut out = String::new();
        for b in text.bytes() {
            out.push_str(&sc.commit_token(b as u32));
        }
        println!("{:?} {:?} -> {:?} stopped={}", stops, text, out, sc.is_stopped());
    }
    // regex stop
    let mut sc = StopController::new(env.clone(), vec![], Some("a+b".to_string()), vec![]).unwrap();
    let mut out = String::new();
    for b in "xxaaabyy".bytes() { out.push_str(&sc.commit_token(b as u32)); }
    println!("regex a+b xxaaabyy -> {:?}", out);
}
