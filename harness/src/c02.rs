//! C02: acceptance depends on the bytes, not on how they are split into tokens.
use crate::eng::*;
use crate::out::Out;
use crate::rng::Rng;
use crate::sexp::*;
use std::panic::{catch_unwind, AssertUnwindSafe};

/// `ext`: implementation-only variant — the grammar gets an %ignore lexeme (not modelled) and the
/// multi-byte tokens are cut out of strings of the grammar, some with a leading blank
pub fn case(rng: &mut Rng, out: &mut Out, ext: bool) {
    let g = gen_gram(rng);
    let ignore = ext && rng.chance(2, 3);
    let lark = if ignore { format!("{}%ignore /[ ]+/\n", g.to_lark()) } else { g.to_lark() };
    let (wa, eosa) = match if ext { derived_vocab(rng, &lark, 40, ignore) } else { None } {
        Some(v) => v,
        None => gen_engine_vocab(rng, 50),
    };
    let (wb, eosb) = single_byte_vocab();
    let enva = make_env(&wa, eosa, false);
    let envb = make_env(&wb, eosb, false);
    let (Ok(mut ma), Ok(mut mb)) = (new_matcher(&enva, &lark, &[]), new_matcher(&envb, &lark, &[])) else {
        out.count("grammar_rejected", 1);
        return;
    };
    let mut ops_a: Vec<Op> = vec![];
    let mut res_a: Vec<Sx> = vec![];
    let mut ops_b: Vec<Op> = vec![];
    let mut res_b: Vec<Sx> = vec![];
    let mut viol: Vec<String> = vec![];
    let mut hist: Vec<u32> = vec![];
    let mut spans = 0u64;
    let r = catch_unwind(AssertUnwindSafe(|| {
        for _ in 0..rng.range(2, 7) {
            let (ra, maska) = run_op(&mut ma, &Op::Mask);
            ops_a.push(Op::Mask);
            res_a.push(ra);
            let (rb, maskb) = run_op(&mut mb, &Op::Mask);
            ops_b.push(Op::Mask);
            res_b.push(rb);
            let (Some(maska), Some(maskb)) = (maska, maskb) else {
                if maska_is_some_xor(&res_a, &res_b) {
                    viol.push(format!("one engine has a mask, the other stopped, after bytes of {:?}", hist));
                }
                break;
            };
            // same set of allowed continuations, projected on the common single-byte tokens and EOS
            let pa: Vec<u32> = maska.iter().cloned().filter(|&t| t < 256).collect();
            let pb: Vec<u32> = maskb.iter().cloned().filter(|&t| t < 256).collect();
            if pa != pb || maska.contains(&eosa) != maskb.contains(&eosb) {
                viol.push(format!("after the same bytes ({:?}) the two vocabularies allow different single bytes / EOS: {:?} vs {:?}", hist, pa, pb));
            }
            // a multi-byte token is allowed exactly when its bytes pass one at a time
            for (t, w) in wa.iter().enumerate() {
                if t as u32 == eosa || w.len() < 2 {
                    continue;
                }
                let seq: Vec<u32> = w.iter().map(|&b| b as u32).collect();
                let n = mb.validate_tokens(&seq).unwrap_or(0);
                let bytewise = n == seq.len();
                if bytewise != maska.contains(&(t as u32)) {
                    viol.push(format!(
                        "token {:?}: allowed under the multi-byte vocabulary = {}, but its bytes pass one at a time = {} ({} of {}), after {:?}",
                        w, maska.contains(&(t as u32)), bytewise, n, seq.len(), hist
                    ));
                    break;
                }
            }
            out.count("token_checks", wa.len() as u64);
            let Some(t) = pick_token(rng, &maska, &wa, eosa) else { break };
            let (ra, _) = run_op(&mut ma, &Op::Commit(t));
            let oka = ra.to_string() == "(ok)";
            ops_a.push(Op::Commit(t));
            res_a.push(ra);
            if t == eosa {
                let (rb, _) = run_op(&mut mb, &Op::Commit(eosb));
                if (rb.to_string() == "(ok)") != oka {
                    viol.push("EOS accepted under one vocabulary only".to_string());
                }
                ops_b.push(Op::Commit(eosb));
                res_b.push(rb);
                break;
            }
            if wa[t as usize].len() > 1 {
                spans += 1;
            }
            let mut okb = true;
            for &b in &wa[t as usize] {
                let (rb, _) = run_op(&mut mb, &Op::Commit(b as u32));
                okb &= rb.to_string() == "(ok)";
                ops_b.push(Op::Commit(b as u32));
                res_b.push(rb);
                if !okb {
                    break;
                }
            }
            if oka != okb {
                viol.push(format!("token {:?} committed ok = {} but byte-wise ok = {}, after {:?}", wa[t as usize], oka, okb, hist));
            }
            if !oka || !okb {
                break;
            }
            hist.push(t);
            let (ra, _) = run_op(&mut ma, &Op::Accepting);
            let (rb, _) = run_op(&mut mb, &Op::Accepting);
            if ra.to_string() != rb.to_string() {
                viol.push(format!("accepting differs after the same bytes: {} vs {}", ra, rb));
            }
            ops_a.push(Op::Accepting);
            res_a.push(ra);
            ops_b.push(Op::Accepting);
            res_b.push(rb);
            let (ra, _) = run_op(&mut ma, &Op::Stopped);
            let (rb, _) = run_op(&mut mb, &Op::Stopped);
            let (sa, sb) = (ra.to_string(), rb.to_string());
            ops_a.push(Op::Stopped);
            res_a.push(ra);
            ops_b.push(Op::Stopped);
            res_b.push(rb);
            if sa != sb {
                viol.push(format!("stop status differs after the same bytes: {} vs {}", sa, sb));
            }
            if !sa.starts_with("(stop 0 0") {
                break;
            }
        }
    }));
    if r.is_err() {
        viol.push("panic escaped from the Matcher API".to_string());
    }
    for (ws, eos, ops, res) in [(&wa, eosa, &ops_a, res_a), (&wb, eosb, &ops_b, res_b)] {
        if ignore {
            break; // skip lexemes are outside the modelled fragment: implementation-only comparison
        }
        let mut inp = vec![g.to_sx()];
        inp.extend(vocab_sx(ws, eos));
        inp.push(tagged("canonical", vec![int(0)]));
        inp.push(tagged("ops", ops.iter().map(|o| o.to_sx()).collect()));
        out.case(tagged("session", inp), tagged("session", res), ops.len() > 2);
    }
    for v in viol {
        out.violation(&v, format!("vocabA={:?}\n--- lark ---\n{}", wa.iter().skip(256).collect::<Vec<_>>(), lark));
    }
    out.count(if ext { "pairs_derived_vocab" } else { "pairs" }, 1);
    if ignore {
        out.count("pairs_with_ignore_lexeme", 1);
    }
    out.count("multibyte_commits", spans);
}

fn maska_is_some_xor(a: &[Sx], b: &[Sx]) -> bool {
    let la = a.last().map(|x| x.to_string().starts_with("(ok")).unwrap_or(false);
    let lb = b.last().map(|x| x.to_string().starts_with("(ok")).unwrap_or(false);
    la != lb
}

pub fn run(rng: &mut Rng, out: &mut Out, tier: &str) {
    let n = if tier == "thorough" { 5000 } else { 500 };
    for i in 0..n {
        let mut r = rng.fork(i as u64);
        case(&mut r, out, false);
        let mut r = rng.fork(0x0200_0000 + i as u64);
        case(&mut r, out, true);
    }
}
