//! Minimal s-expression values with a canonical printer (shared syntax with the OCaml driver).
#[derive(Clone, Debug, PartialEq, Eq)]
pub enum Sx {
    A(String),
    L(Vec<Sx>),
}
pub fn sym(s: &str) -> Sx {
    Sx::A(s.to_string())
}
pub fn int<T: std::fmt::Display>(i: T) -> Sx {
    Sx::A(format!("{i}"))
}
pub fn hex(b: &[u8]) -> Sx {
    let mut s = String::with_capacity(1 + 2 * b.len());
    s.push('x');
    for x in b {
        s.push_str(&format!("{x:02x}"));
    }
    Sx::A(s)
}
pub fn list(v: Vec<Sx>) -> Sx {
    Sx::L(v)
}
pub fn ints<T: std::fmt::Display + Copy>(v: &[T]) -> Sx {
    Sx::L(v.iter().map(|x| int(*x)).collect())
}
pub fn tagged(tag: &str, mut v: Vec<Sx>) -> Sx {
    let mut r = vec![sym(tag)];
    r.append(&mut v);
    Sx::L(r)
}
pub fn boolean(b: bool) -> Sx {
    int(if b { 1 } else { 0 })
}
impl std::fmt::Display for Sx {
    fn fmt(&self, f: &mut std::fmt::Formatter<'_>) -> std::fmt::Result {
        match self {
            Sx::A(s) => write!(f, "{s}"),
            Sx::L(v) => {
                write!(f, "(")?;
                for (i, x) in v.iter().enumerate() {
                    if i > 0 {
                        write!(f, " ")?;
                    }
                    write!(f, "{x}")?;
                }
                write!(f, ")")
            }
        }
    }
}
pub fn parse(s: &str) -> Option<Sx> {
    let toks = tokenize(s);
    let mut pos = 0;
    let r = parse_at(&toks, &mut pos)?;
    if pos == toks.len() {
        Some(r)
    } else {
        None
    }
}
fn tokenize(s: &str) -> Vec<String> {
    let mut out = vec![];
    let mut cur = String::new();
    for c in s.chars() {
        match c {
            '(' | ')' => {
                if !cur.is_empty() {
                    out.push(std::mem::take(&mut cur));
                }
                out.push(c.to_string());
            }
            c if c.is_whitespace() => {
                if !cur.is_empty() {
                    out.push(std::mem::take(&mut cur));
                }
            }
            c => cur.push(c),
        }
    }
    if !cur.is_empty() {
        out.push(cur);
    }
    out
}
fn parse_at(t: &[String], pos: &mut usize) -> Option<Sx> {
    let tok = t.get(*pos)?;
    *pos += 1;
    if tok == "(" {
        let mut v = vec![];
        loop {
            if t.get(*pos)? == ")" {
                *pos += 1;
                return Some(Sx::L(v));
            }
            v.push(parse_at(t, pos)?);
        }
    } else if tok == ")" {
        None
    } else {
        Some(Sx::A(tok.clone()))
    }
}
pub fn unhex(s: &str) -> Vec<u8> {
    let s = &s[1..];
    (0..s.len() / 2)
        .map(|i| u8::from_str_radix(&s[2 * i..2 * i + 2], 16).unwrap())
        .collect()
}
