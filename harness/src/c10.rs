//! C10: the slicing optimisation never changes a mask.
//! Engines built with general_slices, with no slices and with random valid slice lists walk
//! the same histories; masks are compared bit for bit. Lark sessions are also replayed on the
//! (unsliced) model.
use crate::eng::*;
use crate::out::Out;
use crate::rng::Rng;
use crate::sexp::*;
use llguidance::api::TopLevelGrammar;
use llguidance::earley::SlicedBiasComputer;
use llguidance::toktrie::{InferenceCapabilities, TokEnv};
use llguidance::{Matcher, ParserFactory};

fn mk(env: &TokEnv, g: &TopLevelGrammar, slices: &[String]) -> Result<Matcher, String> {
    let mut f = ParserFactory::new(env, InferenceCapabilities::default(), slices).map_err(|e| e.to_string())?;
    f.quiet();
    let p = f.create_parser(g.clone()).map_err(|e| e.to_string())?;
    let m = Matcher::new(Ok(p));
    if m.is_error() {
        return Err(m.get_error().unwrap_or_default());
    }
    Ok(m)
}

/// vocabulary of JSON-string-like tokens of many lengths (so that slices are only partly contained)
fn string_vocab(rng: &mut Rng, extra: usize) -> (Vec<Vec<u8>>, u32) {
    let mut ws: Vec<Vec<u8>> = (0..=255u8).map(|b| vec![b]).collect();
    let pieces: &[&str] = &["a", "b", "c", "d", "e", "x", "0", "1", " ", "  ", "é", "€", "ab", "the", "\n", "\t", ",", ":", "\"", "\\", "{", "}", "[", "]"];
    for _ in 0..extra {
        let n = rng.range(1, 7);
        let mut w = vec![];
        for _ in 0..n {
            let lim = if rng.chance(1, 5) { pieces.len() } else { 13 };
            w.extend_from_slice(pieces[rng.below(lim)].as_bytes());
        }
        ws.push(w);
    }
    // long runs: longer than the {1,10} / {1,30} slices
    for n in [9usize, 10, 11, 12, 29, 30, 31, 40] {
        ws.push(vec![b'a'; n]);
        ws.push(vec![b' '; n]);
    }
    ws.push(b"\xFF<|eos|>".to_vec());
    let eos = (ws.len() - 1) as u32;
    (ws, eos)
}

fn gen_slices(rng: &mut Rng) -> Vec<String> {
    let classes = ["[a-e]", "[a-ex01]", "[a-z0-9 ]", "[^\"\\\\\\x00-\\x1F\\x7F]", "[\\x20\\x0A\\x0D\\x09]", "[ab]"];
    let mut v = vec![];
    for _ in 0..rng.range(1, 4) {
        let c = classes[rng.below(classes.len())];
        let q = match rng.below(4) {
            0 => "+".to_string(),
            1 => format!("{{1,{}}}", rng.range(2, 12)),
            2 => format!("{{1,{}}}", rng.range(12, 31)),
            _ => format!("{{2,{}}}", rng.range(3, 8)),
        };
        let s = format!("{c}{q}");
        if !v.contains(&s) {
            v.push(s);
        }
    }
    v
}

fn gen_json_schema(rng: &mut Rng) -> serde_json::Value {
    let str_schema = |rng: &mut Rng| -> serde_json::Value {
        match rng.below(7) {
            0 => serde_json::json!({"type": "string"}),
            1 => serde_json::json!({"type": "string", "maxLength": *rng.pick(&[5, 10, 12, 31])}),
            2 => serde_json::json!({"type": "string", "minLength": 2, "maxLength": *rng.pick(&[5, 10, 12, 31])}),
            3 => serde_json::json!({"type": "string", "pattern": *rng.pick(&["^[a-e ]{0,12}$", "^(ab|the )+$", "^[a-z]+@[a-z]+$"])}),
            4 => serde_json::json!({"enum": ["aaaaaaaaaaab", "aaaaaaaaaa", "the  the", "ab"]}),
            5 => serde_json::json!({"type": "string", "format": *rng.pick(&["date", "uuid", "time"])}),
            _ => serde_json::json!({"type": "integer", "minimum": 0, "maximum": 120}),
        }
    };
    match rng.below(3) {
        0 => str_schema(rng),
        1 => serde_json::json!({"type": "array", "items": str_schema(rng), "maxItems": 3}),
        _ => serde_json::json!({"type": "object", "properties": {"the": str_schema(rng), "ab": str_schema(rng)}, "required": ["the"], "additionalProperties": false}),
    }
}

/// Lark grammars whose terminals are string-like classes with bounds
fn gen_string_gram(rng: &mut Rng) -> Gram {
    let cls = |rng: &mut Rng| -> Rx {
        match rng.below(3) {
            0 => Rx::Class(vec![(b'a', b'e')]),
            1 => Rx::Class(vec![(b'a', b'e'), (b'x', b'x'), (b'0', b'1')]),
            _ => Rx::Class(vec![(b' ', b' '), (b'a', b'z'), (b'0', b'9')]),
        }
    };
    let nlex = rng.range(2, 4);
    let mut lexemes = vec![];
    for _ in 0..nlex {
        let c = cls(rng);
        lexemes.push(match rng.below(4) {
            0 => Rx::Rep(Box::new(c), 1, None),
            1 => Rx::Rep(Box::new(c), 1, Some(rng.range(5, 12) as u32)),
            2 => Rx::Cat(vec![Rx::Lit("\"".into()), Rx::Rep(Box::new(c), 0, Some(*rng.pick(&[5u32, 10, 12, 31]))), Rx::Lit("\"".into())]),
            _ => Rx::Lit(gen_lit(rng, 3)),
        });
    }
    let mut g = gen_gram(rng);
    g.lexemes = lexemes;
    for alts in g.rules.iter_mut() {
        for alt in alts.iter_mut() {
            for s in alt.iter_mut() {
                if let Sym::T(t) = s {
                    *t %= nlex;
                }
            }
        }
    }
    g
}

/// free text interleaved with tagged sections whose head is a lazy terminal (docs/syntax.md):
/// a lazy lexeme can end in the middle of a token, so slices must not be applied while one is live
fn gen_lazy_lark(rng: &mut Rng) -> (String, Vec<Vec<u8>>) {
    let tag = *rng.pick(&["<fn", "<a", "[[", "<x"]);
    let close = *rng.pick(&["</fn>", "]]", ">"]);
    let text = *rng.pick(&["/(.|\\n)*/", "/[a-z <>=\\/0-9\\[\\]]*/", "/[^\\x00]*/"]);
    let body = *rng.pick(&["/[0-9]+/", "/[a-e]{1,12}/", "TEXT2"]);
    let rules = if rng.chance(1, 2) {
        "start: f_end | f_foo start\nf_end: TEXT\n".to_string()
    } else {
        "start: ( f_foo )* f_end\nf_end: TEXT\n".to_string()
    };
    // the order of the terminal definitions decides the lexeme indices
    let t_text = format!("TEXT: {text}\n");
    let t_hd = format!("f_foo_hd[lazy]: TEXT \"{tag}\"\n");
    let t_foo = format!("f_foo: f_foo_hd \"=foo>\" {body} \"{close}\"\nTEXT2: /[a-z ]{{0,20}}/\n");
    let lark = match rng.below(3) {
        0 => format!("{rules}{t_text}{t_hd}{t_foo}"),
        1 => format!("{rules}{t_hd}{t_text}{t_foo}"),
        _ => format!("{rules}{t_foo}{t_hd}{t_text}"),
    };
    let mut extra: Vec<Vec<u8>> = vec![];
    for suf in [">", "x", "=foo>", "=foo>1", "=", "=f"] {
        extra.push(format!("{tag}{suf}").into_bytes());
    }
    extra.push(format!("{tag}{tag}").into_bytes());
    extra.push(tag.as_bytes()[1..].to_vec());
    extra.push(format!("{}>", &tag[1..]).into_bytes());
    extra.push(format!("a{tag}").into_bytes());
    extra.push(format!(" {tag}=foo>12{close}").into_bytes());
    extra.push(close.as_bytes().to_vec());
    extra.push(format!("1{close}").into_bytes());
    (lark, extra)
}

pub fn case(rng: &mut Rng, out: &mut Out) {
    let (mut ws, _) = string_vocab(rng, 80);
    let lazy = rng.chance(1, 4);
    let lazy_lark = if lazy {
        let (l, extra) = gen_lazy_lark(rng);
        ws.pop(); // the EOS entry goes last
        ws.extend(extra);
        ws.push(b"\xFF<|eos|>".to_vec());
        Some(l)
    } else {
        None
    };
    let eos = (ws.len() - 1) as u32;
    let env = make_env(&ws, eos, false);
    let use_json = !lazy && rng.chance(1, 2);
    let (tg, lark_g) = if let Some(l) = &lazy_lark {
        (TopLevelGrammar::from_lark(l.clone()), None)
    } else if use_json {
        (TopLevelGrammar::from_json_schema(gen_json_schema(rng)), None)
    } else {
        let g = gen_string_gram(rng);
        (TopLevelGrammar::from_lark(g.to_lark()), Some(g))
    };
    let custom = gen_slices(rng);
    let confs: Vec<(&str, Vec<String>)> = vec![
        ("none", vec![]),
        ("general", SlicedBiasComputer::general_slices()),
        ("custom", custom.clone()),
    ];
    let mut ms: Vec<(&str, Matcher)> = vec![];
    for (name, sl) in &confs {
        match mk(&env, &tg, sl) {
            Ok(m) => ms.push((name, m)),
            Err(e) => {
                if *name == "none" {
                    out.count("grammar_rejected", 1);
                    return;
                }
                // a slice list the factory does not accept is outside the claim
                out.count("slice_list_rejected", 1);
                if out.stats.get("slice_list_rejected").cloned().unwrap_or(0) <= 3 {
                    eprintln!("slice list {:?} rejected: {}", sl, e.lines().next().unwrap_or(""));
                }
            }
        }
    }
    let mut ops: Vec<Op> = vec![];
    let mut results: Vec<Sx> = vec![];
    let mut hist: Vec<u32> = vec![];
    let mut applied = 0u64;
    let descr = format!("grammar={} custom_slices={:?}", serde_json::to_string(&tg).unwrap_or_default(), custom);
    for _ in 0..rng.range(3, 12) {
        let mut masks: Vec<(String, Option<Vec<u32>>)> = vec![];
        for (name, m) in ms.iter_mut() {
            let r = m.compute_mask().ok().map(|v| mask_list(&v));
            if let Ok(st) = m.last_step_stats() {
                applied += st.slices_applied as u64;
            }
            masks.push((name.to_string(), r));
        }
        let base = masks[0].1.clone();
        for (name, mk) in &masks[1..] {
            if mk != &base {
                let (a, b) = (base.clone().unwrap_or_default(), mk.clone().unwrap_or_default());
                let only_plain: Vec<u32> = a.iter().cloned().filter(|t| !b.contains(t)).collect();
                let only_sliced: Vec<u32> = b.iter().cloned().filter(|t| !a.contains(t)).collect();
                out.violation(
                    &format!(
                        "mask with slices '{name}' differs from the unsliced mask after {:?}: only unsliced {:?}, only sliced {:?}",
                        hist.iter().map(|&t| String::from_utf8_lossy(&ws[t as usize]).to_string()).collect::<Vec<_>>(),
                        only_plain.iter().map(|&t| String::from_utf8_lossy(&ws[t as usize]).to_string()).collect::<Vec<_>>(),
                        only_sliced.iter().map(|&t| String::from_utf8_lossy(&ws[t as usize]).to_string()).collect::<Vec<_>>()
                    ),
                    descr.clone(),
                );
                break;
            }
        }
        out.count("masks_compared", (masks.len() - 1) as u64);
        // the sliced engine is the one replayed on the (unsliced) model
        ops.push(Op::Mask);
        let shown = masks.last().unwrap().1.clone();
        results.push(match &shown {
            Some(l) => tagged("ok", vec![ints(l)]),
            None => err_sx(),
        });
        let Some(base) = base else { break };
        let Some(t) = pick_token(rng, &base, &ws, eos) else { break };
        let mut ok = true;
        for (_, m) in ms.iter_mut() {
            ok &= m.consume_token(t).is_ok();
        }
        ops.push(Op::Commit(t));
        results.push(if ok { tagged("ok", vec![]) } else { err_sx() });
        if !ok || ms.iter().any(|(_, m)| m.is_stopped()) {
            break;
        }
        hist.push(t);
    }
    out.count("slices_applied", applied);
    out.count(if lazy { "lazy_lexeme_grammars" } else if use_json { "json_grammars" } else { "lark_grammars" }, 1);
    if let Some(g) = lark_g {
        if ms.len() == confs.len() {
            let mut inp = vec![g.to_sx()];
            inp.extend(vocab_sx(&ws, eos));
            inp.push(tagged("canonical", vec![int(0)]));
            inp.push(tagged("ops", ops.iter().map(|o| o.to_sx()).collect()));
            out.case(tagged("session", inp), tagged("session", results), true);
        }
    } else {
        // JSON grammars are not replayed on the model: record the comparison itself
        out.case(tagged("noop", vec![int(hist.len())]), tagged("noop", vec![int(hist.len())]), false);
    }
}

pub fn run(rng: &mut Rng, out: &mut Out, tier: &str) {
    let n = if tier == "thorough" { 6000 } else { 600 };
    for i in 0..n {
        let mut r = rng.fork(i as u64);
        case(&mut r, out);
    }
}
