//! C08: numeric bound keywords admit exactly the numbers inside the bounds.
use crate::eng::*;
use crate::out::Out;
use crate::rng::Rng;
use crate::sexp::*;
use llguidance::api::TopLevelGrammar;
use llguidance::toktrie::{InferenceCapabilities, TokEnv};
use llguidance::{Matcher, ParserFactory};

fn matcher_for(env: &TokEnv, schema: &str) -> Result<Matcher, String> {
    let v: serde_json::Value = serde_json::from_str(schema).map_err(|e| e.to_string())?;
    let mut f = ParserFactory::new(env, InferenceCapabilities::default(), &[]).map_err(|e| e.to_string())?;
    f.quiet();
    let p = f.create_parser(TopLevelGrammar::from_json_schema(v)).map_err(|e| e.to_string())?;
    let m = Matcher::new(Ok(p));
    if m.is_error() {
        return Err(m.get_error().unwrap_or_default());
    }
    Ok(m)
}

/// set when a literal was refused because of a resource limit (lexer / parser too complex):
/// such a refusal says nothing about the bounds
static RESOURCE: std::sync::atomic::AtomicBool = std::sync::atomic::AtomicBool::new(false);
fn resource_hit() -> bool {
    RESOURCE.swap(false, std::sync::atomic::Ordering::SeqCst)
}

fn accepts(m: &Matcher, lit: &str) -> bool {
    let mut c = m.deep_clone();
    for &b in lit.as_bytes() {
        if c.is_stopped() || c.consume_token(b as u32).is_err() {
            if is_resource_limit(&c) {
                RESOURCE.store(true, std::sync::atomic::Ordering::SeqCst);
            }
            return false;
        }
    }
    c.is_accepting().unwrap_or(false)
}

/// exact decimal: value = mant * 10^-scale
#[derive(Clone, Copy, Debug, PartialEq, Eq)]
struct Dec {
    mant: i128,
    scale: u32,
}
impl Dec {
    fn parse(s: &str) -> Dec {
        let neg = s.starts_with('-');
        let t = s.trim_start_matches('-');
        let (ip, fp) = match t.split_once('.') {
            Some((a, b)) => (a, b),
            None => (t, ""),
        };
        let mant: i128 = format!("{ip}{fp}").parse().unwrap();
        Dec { mant: if neg { -mant } else { mant }, scale: fp.len() as u32 }
    }
    fn cmp(&self, o: &Dec) -> std::cmp::Ordering {
        let s = self.scale.max(o.scale);
        let a = self.mant * 10i128.pow(s - self.scale);
        let b = o.mant * 10i128.pow(s - o.scale);
        a.cmp(&b)
    }
    /// canonical text as Rust prints an f64 with this value (no trailing zeros)
    fn text(&self) -> String {
        let neg = self.mant < 0;
        let m = self.mant.abs().to_string();
        let sc = self.scale as usize;
        let m = if m.len() <= sc { format!("{}{}", "0".repeat(sc + 1 - m.len()), m) } else { m };
        let (ip, fp) = m.split_at(m.len() - sc);
        let fp = fp.trim_end_matches('0');
        let body = if fp.is_empty() { ip.to_string() } else { format!("{ip}.{fp}") };
        if neg && body.chars().any(|c| c != '0' && c != '.') { format!("-{body}") } else { body }
    }
    fn to_sx(&self) -> Sx {
        // (neg intdigits fracdigits) as float_to_str prints it
        let t = self.text();
        let neg = t.starts_with('-');
        let t = t.trim_start_matches('-');
        let (ip, fp) = match t.split_once('.') {
            Some((a, b)) => (a.to_string(), b.to_string()),
            None => (t.to_string(), String::new()),
        };
        list(vec![boolean(neg), hex(ip.as_bytes()), hex(fp.as_bytes())])
    }
}

fn in_range(v: &Dec, lo: &Option<(Dec, bool)>, hi: &Option<(Dec, bool)>) -> bool {
    use std::cmp::Ordering::*;
    if let Some((l, incl)) = lo {
        match v.cmp(l) {
            Less => return false,
            Equal if !incl => return false,
            _ => {}
        }
    }
    if let Some((h, incl)) = hi {
        match v.cmp(h) {
            Greater => return false,
            Equal if !incl => return false,
            _ => {}
        }
    }
    true
}

fn int_case(out: &mut Out, env: &TokEnv, lo: Option<i64>, hi: Option<i64>, span: i64) {
    let mut schema = String::from("{\"type\":\"integer\"");
    if let Some(l) = lo {
        schema.push_str(&format!(",\"minimum\":{l}"));
    }
    if let Some(h) = hi {
        schema.push_str(&format!(",\"maximum\":{h}"));
    }
    schema.push('}');
    let a = lo.unwrap_or(hi.unwrap_or(0) - 12);
    let b = hi.unwrap_or(lo.unwrap_or(0) + 12);
    let mut lits: Vec<i64> = if b - a <= 60 {
        ((a - span)..=(b + span)).collect()
    } else {
        // long ranges: both ends and a few interior points
        let mut v: Vec<i64> = ((a - span)..=(a + span)).chain((b - span)..=(b + span)).collect();
        v.extend([a / 2 + b / 2, a / 3 + 2 * (b / 3), 0, a + (b - a) / 7]);
        v
    };
    // magnitudes around powers of ten relative to the bounds
    for k in [9i64, 10, 11, 99, 100, 101, 999, 1000, 1001] {
        for s in [1i64, -1] {
            lits.push(s * k);
        }
    }
    lits.sort();
    lits.dedup();
    let empty = matches!((lo, hi), (Some(l), Some(h)) if l > h);
    match matcher_for(env, &schema) {
        Err(_) => {
            if !empty {
                out.violation(&format!("integer bounds {lo:?}..{hi:?} rejected at compile time although satisfiable"), schema.clone());
            }
            out.case(tagged("intrange", vec![opt_int(lo), opt_int(hi), list(vec![])]), tagged("err", vec![]), true);
        }
        Ok(m) => {
            if empty {
                out.violation(&format!("integer bounds {lo:?}..{hi:?} admit no value but the schema compiled"), schema.clone());
            }
            let mut verdicts = vec![];
            for &z in &lits {
                let acc = accepts(&m, &z.to_string());
                let want = lo.map(|l| z >= l).unwrap_or(true) && hi.map(|h| z <= h).unwrap_or(true);
                if acc != want {
                    out.violation(&format!("integer {z} with bounds {lo:?}..{hi:?}: accepted = {acc}, in range = {want}"), schema.clone());
                }
                verdicts.push(boolean(acc));
            }
            // non-literals must be rejected
            for bad in ["007", "1.5", "+3", "1e2", "--1", ""] {
                if accepts(&m, bad) {
                    out.violation(&format!("integer schema accepts {bad:?}"), schema.clone());
                }
            }
            out.case(
                tagged("intrange", vec![opt_int(lo), opt_int(hi), list(lits.iter().map(|z| int(*z)).collect())]),
                tagged("ok", verdicts),
                true,
            );
        }
    }
    out.count("int_ranges", 1);
}

fn opt_int(x: Option<i64>) -> Sx {
    match x {
        Some(v) => int(v),
        None => sym("none"),
    }
}

fn float_literals(lo: &Option<(Dec, bool)>, hi: &Option<(Dec, bool)>) -> Vec<String> {
    let mut vals: Vec<Dec> = vec![];
    for b in [lo, hi].into_iter().flatten() {
        let (d, _) = b;
        for sc in 0..=(d.scale + 1) {
            for k in -3i128..=3 {
                let s = d.scale.max(sc);
                let m = d.mant * 10i128.pow(s - d.scale) + k * 10i128.pow(s - sc);
                vals.push(Dec { mant: m, scale: s });
            }
        }
    }
    for k in -3i128..=3 {
        vals.push(Dec { mant: k, scale: 0 });
        vals.push(Dec { mant: k * 5, scale: 1 });
    }
    let mut lits: Vec<String> = vec![];
    for v in vals {
        let t = v.text();
        if t.starts_with('-') && v.mant == 0 {
            continue;
        }
        lits.push(t.clone());
        // trailing-zero and .0 forms of the same value
        if t.contains('.') {
            lits.push(format!("{t}0"));
            lits.push(format!("{t}00"));
        } else {
            lits.push(format!("{t}.0"));
            lits.push(format!("{t}.00"));
        }
    }
    lits.sort();
    lits.dedup();
    lits.retain(|l| l != "-0" && !l.starts_with("-0.0") || l.chars().any(|c| c.is_ascii_digit() && c != '0'));
    lits
}

fn float_case(out: &mut Out, env: &TokEnv, lo: Option<(Dec, bool)>, hi: Option<(Dec, bool)>) {
    let mut schema = String::from("{\"type\":\"number\"");
    if let Some((l, incl)) = &lo {
        schema.push_str(&format!(",\"{}\":{}", if *incl { "minimum" } else { "exclusiveMinimum" }, l.text()));
    }
    if let Some((h, incl)) = &hi {
        schema.push_str(&format!(",\"{}\":{}", if *incl { "maximum" } else { "exclusiveMaximum" }, h.text()));
    }
    schema.push('}');
    let lits = float_literals(&lo, &hi);
    let empty = match (&lo, &hi) {
        (Some((l, li)), Some((h, hi_))) => match l.cmp(h) {
            std::cmp::Ordering::Greater => true,
            std::cmp::Ordering::Equal => !(*li && *hi_),
            _ => false,
        },
        _ => false,
    };
    let bsx = |b: &Option<(Dec, bool)>| match b {
        Some((d, i)) => list(vec![d.to_sx(), boolean(*i)]),
        None => sym("none"),
    };
    match matcher_for(env, &schema) {
        Err(_) => {
            if !empty {
                out.violation("number bounds rejected at compile time although satisfiable", schema.clone());
            }
            out.case(tagged("floatrange", vec![bsx(&lo), bsx(&hi), list(vec![])]), tagged("err", vec![]), true);
        }
        Ok(m) => {
            if empty {
                out.violation("number bounds admit no value but the schema compiled", schema.clone());
            }
            let mut verdicts = vec![];
            for l in &lits {
                let acc = accepts(&m, l);
                let want = in_range(&Dec::parse(l), &lo, &hi);
                if acc != want {
                    let class = if acc { "accepted outside the bounds" } else if l.ends_with('0') && l.contains('.') { "trailing-zero literal inside the bounds rejected" } else { "literal inside the bounds rejected" };
                    out.violation(&format!("number {l}: {class} ({schema})"), schema.clone());
                }
                verdicts.push(boolean(acc));
            }
            out.case(
                tagged("floatrange", vec![bsx(&lo), bsx(&hi), list(lits.iter().map(|l| hex(l.as_bytes())).collect())]),
                tagged("ok", verdicts),
                true,
            );
        }
    }
    out.count("float_ranges", 1);
}


/// integer schema with fractional and/or exclusive bounds (normalize_integer_bounds): an integer
/// literal is accepted exactly when it lies inside the bounds; no integer inside => compile error
/// (model: IntBounds.rx_int_bounds)
fn int_frac_case(out: &mut Out, env: &TokEnv, lo: Option<(Dec, bool)>, hi: Option<(Dec, bool)>) {
    let mut schema = String::from("{\"type\":\"integer\"");
    if let Some((l, incl)) = &lo {
        schema.push_str(&format!(",\"{}\":{}", if *incl { "minimum" } else { "exclusiveMinimum" }, l.text()));
    }
    if let Some((h, incl)) = &hi {
        schema.push_str(&format!(",\"{}\":{}", if *incl { "maximum" } else { "exclusiveMaximum" }, h.text()));
    }
    schema.push('}');
    let fl = |d: &Dec| -> i128 { d.mant.div_euclid(10i128.pow(d.scale)) };
    let a = lo.as_ref().map(|(d, _)| fl(d)).unwrap_or_else(|| hi.as_ref().map(|(d, _)| fl(d)).unwrap_or(0) - 6);
    let b = hi.as_ref().map(|(d, _)| fl(d)).unwrap_or_else(|| lo.as_ref().map(|(d, _)| fl(d)).unwrap_or(0) + 6);
    let mut lits: Vec<i128> = if b - a <= 40 && b >= a { ((a - 3)..=(b + 4)).collect() } else { ((a - 3)..=(a + 4)).chain((b - 3)..=(b + 4)).collect() };
    lits.extend([0, 1, -1]);
    lits.sort();
    lits.dedup();
    let inside = |z: i128| in_range(&Dec { mant: z, scale: 0 }, &lo, &hi);
    let any_inside = {
        // the integers inside form an interval around the bounds; the literal list covers both ends
        lits.iter().any(|&z| inside(z)) || (lo.is_none() || hi.is_none())
    };
    // the model reads (dec excl) with excl = !inclusive
    let bsx = |b: &Option<(Dec, bool)>| match b {
        Some((d, i)) => list(vec![d.to_sx(), boolean(!*i)]),
        None => sym("none"),
    };
    match matcher_for(env, &schema) {
        Err(e) => {
            if e.contains("panic") {
                out.violation("internal panic compiling an integer schema with fractional bounds", format!("{schema}: {e}"));
            } else if any_inside {
                out.violation("integer schema with fractional/exclusive bounds rejected at compile time although an integer satisfies them", schema.clone());
            }
            out.case(tagged("intbounds", vec![bsx(&lo), bsx(&hi), list(vec![])]), tagged("err", vec![]), true);
        }
        Ok(m) => {
            if !any_inside {
                out.violation("integer schema whose bounds contain no integer compiled", schema.clone());
            }
            let mut verdicts = vec![];
            for &z in &lits {
                let acc = accepts(&m, &z.to_string());
                let want = inside(z);
                if acc != want {
                    out.violation(&format!("integer {z} under {schema}: accepted = {acc}, inside the bounds = {want}"), schema.clone());
                }
                verdicts.push(boolean(acc));
            }
            for bad in ["1.5", "2.0", "-1.0", "007"] {
                if accepts(&m, bad) {
                    out.violation(&format!("integer schema accepts {bad:?}"), schema.clone());
                }
            }
            out.case(
                tagged("intbounds", vec![bsx(&lo), bsx(&hi), list(lits.iter().map(|z| int(*z as i64)).collect())]),
                tagged("ok", verdicts),
                true,
            );
        }
    }
    out.count("int_frac_ranges", 1);
}


/// minimum together with exclusiveMinimum (and the same for the upper side): every keyword constrains
/// (schema.rs get_minimum / get_maximum pick the stronger one); exact-arithmetic oracle
fn both_bounds_case(out: &mut Out, env: &TokEnv, integer: bool, min: Option<Dec>, xmin: Option<Dec>, max: Option<Dec>, xmax: Option<Dec>) {
    let mut parts = vec![format!("\"type\":\"{}\"", if integer { "integer" } else { "number" })];
    for (k, v) in [("minimum", &min), ("exclusiveMinimum", &xmin), ("maximum", &max), ("exclusiveMaximum", &xmax)] {
        if let Some(d) = v {
            parts.push(format!("\"{k}\":{}", d.text()));
        }
    }
    let schema = format!("{{{}}}", parts.join(","));
    use std::cmp::Ordering::*;
    let inside = |d: &Dec| -> bool {
        min.as_ref().map_or(true, |b| d.cmp(b) != Less)
            && xmin.as_ref().map_or(true, |b| d.cmp(b) == Greater)
            && max.as_ref().map_or(true, |b| d.cmp(b) != Greater)
            && xmax.as_ref().map_or(true, |b| d.cmp(b) == Less)
            && (!integer || d.scale == 0 || d.mant % 10i128.pow(d.scale) == 0)
    };
    let mut lits: Vec<String> = vec![];
    for b in [&min, &xmin, &max, &xmax].into_iter().flatten() {
        lits.extend(float_literals(&Some((*b, true)), &None));
    }
    lits.sort();
    lits.dedup();
    if integer {
        lits.retain(|l| !l.contains('.'));
    }
    let any_inside = lits.iter().any(|l| inside(&Dec::parse(l)));
    match matcher_for(env, &schema) {
        Err(e) => {
            if e.contains("panic") {
                out.violation("internal panic compiling a schema with inclusive and exclusive bounds", format!("{schema}: {e}"));
            } else if any_inside {
                out.violation("bounds rejected at compile time although a value satisfies all of them", schema.clone());
            }
            out.count("both_bounds_rejected", 1);
        }
        Ok(m) => {
            for l in &lits {
                let d = Dec::parse(l);
                if l.starts_with("-0") && d.mant == 0 {
                    continue;
                }
                let want = inside(&d);
                let got = accepts(&m, l);
                if got != want {
                    out.violation(&format!("literal {l}: accepted = {got}, satisfies every bound keyword = {want}"), schema.clone());
                    break;
                }
            }
            out.count("both_bounds_compiled", 1);
        }
    }
    out.case(tagged("noop", vec![sym("bothbounds"), hex(schema.as_bytes())]), tagged("noop", vec![sym("bothbounds"), hex(schema.as_bytes())]), true);
}

/// allOf of two multipleOf: the combined step is the exact lcm or the schema is rejected
/// (model: decimal_lcm with the variant read from numeric.rs)
pub fn lcm_case(out: &mut Out, env: &TokEnv, a: u64, b: u64) {
    let schema = format!("{{\"type\":\"integer\",\"allOf\":[{{\"multipleOf\":{a}}},{{\"multipleOf\":{b}}}]}}");
    fn gcd(a: u128, b: u128) -> u128 {
        if b == 0 { a } else { gcd(b, a % b) }
    }
    let l = (a as u128) * (b as u128) / gcd(a as u128, b as u128).max(1);
    let wrapped = ((a as u128 * b as u128) % (1u128 << 32)) / gcd(a as u128, b as u128).max(1);
    let mut lits: Vec<u128> = vec![0, a as u128, b as u128, l, 2 * l, l + a as u128, wrapped, 2 * wrapped, 1];
    lits.retain(|&z| z < (1u128 << 62));
    lits.sort();
    lits.dedup();
    let input = tagged("lcm", vec![int(a), int(b), Sx::L(lits.iter().map(|z| int(*z)).collect())]);
    match matcher_for(env, &schema) {
        Err(e) => {
            if e.contains("panic") {
                out.violation("internal panic while combining multipleOf", format!("{schema}: {e}"));
            }
            if e.contains("fuel") {
                out.count("lcm_resource_limited", 1);
                return;
            }
            out.count("lcm_rejected", 1);
            out.case(input, tagged("err", vec![]), true);
        }
        Ok(m) => {
            let mut res = vec![];
            let mut viol: Vec<String> = vec![];
            for &z in &lits {
                let got = accepts(&m, &z.to_string());
                let want = if l == 0 { z == 0 } else { z % l == 0 };
                if got != want {
                    viol.push(format!("allOf multipleOf {a} and {b}: literal {z} accepted = {got}, is a common multiple = {want}"));
                }
                res.push(int(got as usize));
            }
            if resource_hit() {
                out.count("lcm_resource_limited", 1);
                return;
            }
            for v in viol {
                out.violation(&v, schema.clone());
            }
            out.count("lcm_compiled", 1);
            out.case(input, tagged("ok", res), true);
        }
    }
}

/// a single integer multipleOf, small and close to the u32 limits (model: the u32 remainder
/// arithmetic of derivre behind the compile-time guard)
pub fn multof_case(out: &mut Out, env: &TokEnv, m: u64) {
    let schema = format!("{{\"type\":\"integer\",\"multipleOf\":{m}}}");
    let mut lits: Vec<u128> = vec![0, 1, m as u128, 2 * m as u128, 3 * m as u128, m as u128 + 1, (m as u128).saturating_sub(1), 10 * m as u128, 7 * m as u128 + 3];
    lits.sort();
    lits.dedup();
    let input = tagged("multof", vec![int(m), Sx::L(lits.iter().map(|z| int(*z)).collect())]);
    match matcher_for(env, &schema) {
        Err(e) => {
            if e.contains("panic") {
                out.violation("internal panic compiling multipleOf", format!("{schema}: {e}"));
            }
            if e.contains("fuel") {
                out.count("multof_resource_limited", 1);
                return;
            }
            out.count("multof_rejected", 1);
            out.case(input, tagged("err", vec![]), true);
        }
        Ok(mm) => {
            let mut res = vec![];
            let mut viol = vec![];
            for &z in &lits {
                let got = accepts(&mm, &z.to_string());
                let want = m != 0 && z % (m as u128) == 0;
                if got != want {
                    viol.push(format!("multipleOf {m}: literal {z} accepted = {got}, is a multiple = {want}"));
                }
                res.push(int(got as usize));
            }
            if resource_hit() {
                out.count("multof_resource_limited", 1);
                return;
            }
            for v in viol {
                out.violation(&v, schema.clone());
            }
            out.count("multof_compiled", 1);
            out.case(input, tagged("ok", res), true);
        }
    }
}

/// bounds combined with multipleOf: exact arithmetic decides (implementation-only)
fn multiple_case(rng: &mut Rng, out: &mut Out, env: &TokEnv) {
    let integer = rng.chance(1, 2);
    // step = sm * 10^-ss
    // integer schemas get a fractional step too (2.5 admits 5, 10, ...; 0.8 admits 4, 8, ...)
    let (sm, ss): (i128, u32) = if (integer && rng.chance(2, 3)) || (!integer && rng.chance(1, 2)) { (rng.range(1, 13) as i128, 0) } else { (*rng.pick(&[5i128, 25, 1, 2, 125, 3, 15, 8, 75, 12]), rng.range(1, 3) as u32) };
    let lo = rng.below(60) as i128 - 30;
    let hi = lo + rng.below(40) as i128;
    let (xlo, xhi) = (rng.chance(1, 3), rng.chance(1, 3));
    let has_lo = rng.chance(4, 5);
    let has_hi = rng.chance(4, 5);
    multiple_case_with(out, env, integer, sm, ss, lo, hi, xlo, xhi, has_lo, has_hi);
}

#[allow(clippy::too_many_arguments)]
fn multiple_case_with(out: &mut Out, env: &TokEnv, integer: bool, sm: i128, ss: u32, lo: i128, hi: i128, xlo: bool, xhi: bool, has_lo: bool, has_hi: bool) {
    let mut parts = vec![format!("\"type\":\"{}\"", if integer { "integer" } else { "number" })];
    let step = Dec { mant: sm, scale: ss };
    parts.push(format!("\"multipleOf\":{}", step.text()));
    if has_lo {
        parts.push(format!("\"{}\":{}", if xlo { "exclusiveMinimum" } else { "minimum" }, lo));
    }
    if has_hi {
        parts.push(format!("\"{}\":{}", if xhi { "exclusiveMaximum" } else { "maximum" }, hi));
    }
    let schema = format!("{{{}}}", parts.join(","));
    let inside = |d: &Dec| -> bool {
        use std::cmp::Ordering::*;
        let l = Dec { mant: lo, scale: 0 };
        let h = Dec { mant: hi, scale: 0 };
        (!has_lo || match d.cmp(&l) { Less => false, Equal => !xlo, Greater => true })
            && (!has_hi || match d.cmp(&h) { Greater => false, Equal => !xhi, Less => true })
    };
    let is_multiple = |d: &Dec| -> bool {
        let s = d.scale.max(ss);
        let a = d.mant * 10i128.pow(s - d.scale);
        let b = sm * 10i128.pow(s - ss);
        a % b == 0
    };
    // literals: every multiple and near-multiple in and around the interval
    let mut lits: Vec<String> = vec![];
    for z in (lo - 3)..=(hi + 3) {
        lits.push(z.to_string());
        if !integer {
            for f in ["5", "25", "50", "0", "125", "3"] {
                lits.push(format!("{}.{}", z, f));
                if z == 0 {
                    lits.push(format!("-0.{}", f));
                }
            }
        }
    }
    let any_inside = lits.iter().any(|l| { let d = Dec::parse(l); inside(&d) && is_multiple(&d) && (!integer || d.scale == 0) });
    match matcher_for(env, &schema) {
        Err(e) => {
            out.count("multiple_rejected", 1);
            if e.contains("panic") {
                out.violation("internal panic compiling bounds with multipleOf", format!("{schema}: {e}"));
            } else if any_inside {
                out.violation("bounds with multipleOf rejected although a value satisfies them", format!("{schema}: {e}"));
            }
        }
        Ok(m) => {
            out.count("multiple_compiled", 1);
            // for integer schemas the literal list holds every candidate, so emptiness is decided exactly
            if integer && has_lo && has_hi && !any_inside {
                out.violation("integer bounds with multipleOf admit no value but the schema compiled", schema.clone());
            }
            for l in &lits {
                if l.starts_with("-0") && Dec::parse(l).mant == 0 {
                    continue;
                }
                let d = Dec::parse(l);
                let want = inside(&d) && is_multiple(&d) && (!integer || d.scale == 0);
                let got = accepts(&m, l);
                if resource_hit() {
                    out.count("multiple_resource_limited", 1);
                    break;
                }
                if got != want {
                    out.violation(&format!("literal {l}: accepted = {got}, satisfies bounds and multipleOf = {want}"), schema.clone());
                    break;
                }
            }
            out.count("multiple_literals", lits.len() as u64);
        }
    }
}

pub fn run(rng: &mut Rng, out: &mut Out, tier: &str) {
    let (ws, eos) = single_byte_vocab();
    let env = make_env(&ws, eos, false);
    let w: i64 = if tier == "thorough" { 120 } else { 25 };
    // all integer pairs in a window (including empty ones: rejected at compile time)
    for lo in -w..=w {
        for hi in (lo - 1).max(-w)..=w {
            if tier != "thorough" || (hi - lo) % 3 == 0 || hi - lo < 12 {
                int_case(out, &env, Some(lo), Some(hi), 2);
            }
        }
    }
    for b in -w..=w {
        int_case(out, &env, Some(b), None, 3);
        int_case(out, &env, None, Some(b), 3);
    }
    int_case(out, &env, None, None, 3);
    // large magnitudes near powers of ten
    for e in [3u32, 6, 9, 12, 15] {
        let p = 10i64.pow(e);
        for (lo, hi) in [(p - 2, p + 2), (-p - 1, -p + 1), (p - 1, 2 * p + 3), (-(p / 2), p)] {
            int_case(out, &env, Some(lo), Some(hi), 2);
        }
    }
    // decimal bounds: grid with up to three fractional digits, every inclusive / exclusive combination
    let n = if tier == "thorough" { 6000 } else { 700 };
    for i in 0..n {
        let mut r = rng.fork(0x0800_0000 + i as u64);
        let gen = |r: &mut Rng| -> Dec {
            let scale = r.below(4) as u32;
            let big = r.chance(1, 8);
            let mag: i128 = if big { 10i128.pow(r.range(2, 6) as u32) + r.below(5) as i128 - 2 } else { r.below(40) as i128 };
            let mant = mag * 10i128.pow(scale) + if scale > 0 { r.below(10usize.pow(scale)) as i128 } else { 0 };
            Dec { mant: if r.chance(1, 2) { -mant } else { mant }, scale }
        };
        let a = gen(&mut r);
        let b = if r.chance(1, 6) {
            a
        } else if r.chance(1, 3) && a.scale <= 2 {
            // the other bound continues the digits of this one (0.5 and 0.57, 1 and 1.05, -2.7 and -2.75)
            let e = r.range(1, 2) as u32;
            let d = r.range(1, 10usize.pow(e) - 1) as i128;
            Dec { mant: a.mant * 10i128.pow(e) + if a.mant < 0 { -d } else { d }, scale: a.scale + e }
        } else {
            gen(&mut r)
        };
        let (lo, hi) = if a.cmp(&b) == std::cmp::Ordering::Greater && r.chance(9, 10) { (b, a) } else { (a, b) };
        let lo = if r.chance(1, 8) { None } else { Some((lo, r.chance(1, 2))) };
        let hi = if r.chance(1, 8) { None } else { Some((hi, r.chance(1, 2))) };
        float_case(out, &env, lo.clone(), hi.clone());
        // the same bounds on an integer schema (rounded by normalize_integer_bounds); small magnitudes only
        let small = |b: &Option<(Dec, bool)>| b.as_ref().map(|(d, _)| d.mant.abs() < 10i128.pow(d.scale) * 1000).unwrap_or(true);
        if small(&lo) && small(&hi) {
            int_frac_case(out, &env, lo, hi);
        }
    }
    // integer schemas: every bound k/4 in a window, every inclusive / exclusive combination, one- and two-sided
    let q: i128 = if tier == "thorough" { 40 } else { 14 };
    for n in -q..=q {
        let d = if n % 4 == 0 { Dec { mant: n / 4, scale: 0 } } else if n % 2 == 0 { Dec { mant: n * 5 / 2, scale: 1 } } else { Dec { mant: n * 25, scale: 2 } };
        for incl in [true, false] {
            int_frac_case(out, &env, Some((d.clone(), incl)), None);
            int_frac_case(out, &env, None, Some((d.clone(), incl)));
            for w in [0i128, 1, 2, 3, 5, 9] {
                let m2 = n + w;
                let d2 = if m2 % 4 == 0 { Dec { mant: m2 / 4, scale: 0 } } else if m2 % 2 == 0 { Dec { mant: m2 * 5 / 2, scale: 1 } } else { Dec { mant: m2 * 25, scale: 2 } };
                for incl2 in [true, false] {
                    int_frac_case(out, &env, Some((d.clone(), incl)), Some((d2.clone(), incl2)));
                }
            }
        }
    }
    // multipleOf: alone with bounds (exact-arithmetic oracle) and combined under allOf (model: lcm)
    let n = if tier == "thorough" { 3000 } else { 300 };
    for i in 0..n {
        let mut r = rng.fork(0x0900_0000 + i as u64);
        multiple_case(&mut r, out, &env);
    }
    // inclusive and exclusive keyword on the same side: a small grid of quarter steps, both orders of strength
    let g: i128 = if tier == "thorough" { 10 } else { 5 };
    for a in -g..=g {
        for db in [-3i128, -1, 0, 1, 2] {
            let q = |n: i128| if n % 4 == 0 { Dec { mant: n / 4, scale: 0 } } else if n % 2 == 0 { Dec { mant: n * 5 / 2, scale: 1 } } else { Dec { mant: n * 25, scale: 2 } };
            let (x, y) = (q(a), q(a + db));
            for integer in [false, true] {
                both_bounds_case(out, &env, integer, Some(x), Some(y), None, None);
                both_bounds_case(out, &env, integer, None, None, Some(x), Some(y));
                if db >= 0 {
                    both_bounds_case(out, &env, integer, Some(q(a - 6)), Some(q(a - 5)), Some(x), Some(y));
                }
            }
        }
    }
    // integer schemas with a fractional step over narrow ranges (the range may hold fractional multiples only)
    let wmax: i128 = if tier == "thorough" { 6 } else { 3 };
    for (sm, ss) in [(8i128, 1u32), (12, 1), (25, 1), (15, 1), (75, 1), (5, 1), (125, 2), (4, 1)] {
        for lo in -12i128..=12 {
            for w in 0..=wmax {
                multiple_case_with(out, &env, true, sm, ss, lo, lo + w, false, false, true, true);
                if w >= 1 && (lo + w) % 3 == 0 {
                    multiple_case_with(out, &env, true, sm, ss, lo, lo + w, true, true, true, true);
                }
            }
        }
    }
    lcm_cases(rng, out, &env, if tier == "thorough" { 400 } else { 60 });
}

pub fn lcm_cases(rng: &mut Rng, out: &mut Out, env: &TokEnv, n: usize) {
    for m in [1u64, 2, 3, 7, 10, 12, 64, 100, 999, 1000, 4096, 9973, 4294901760, 429496729, 429496728, 429496730, 1000000000, 2147483648, 3000000000, 4294967295, 858993459, 500000000] {
        multof_case(out, env, m);
    }
    for i in 0..n {
        let mut r = rng.fork(0x0b00_0000 + i as u64);
        let m = match r.below(3) {
            0 => r.range(1, 3000) as u64,
            1 => 429496729u64.saturating_sub(r.below(20) as u64) + r.below(40) as u64,
            _ => (r.next() % (1u64 << 32)).max(1),
        };
        multof_case(out, env, m);
    }
    for (a, b) in [(65537u64, 65539u64), (4, 6), (65536, 65535), (65536, 65536), (4294967295, 2), (4294967295, 4294967295), (0, 7), (1, 1), (99991, 99989), (46341, 46349)] {
        lcm_case(out, env, a, b);
    }
    for i in 0..n {
        let mut r = rng.fork(0x0a00_0000 + i as u64);
        let pick = |r: &mut Rng| -> u64 {
            match r.below(4) {
                0 => r.range(1, 50) as u64,
                1 => r.range(1000, 70000) as u64,
                2 => (1u64 << r.range(10, 32)) - r.below(3) as u64,
                _ => r.range(60000, 70000) as u64,
            }
        };
        let (a, b) = (pick(&mut r), pick(&mut r));
        lcm_case(out, env, a, b);
    }
}
