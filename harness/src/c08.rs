//! C08: numeric bound keywords admit exactly the numbers inside the bounds.
use crate::eng::*;
use crate::out::Out;
use crate::rng::Rng;
use crate::sexp::*;
use llguidance::api::TopLevelGrammar;
use llguidance::toktrie::{InferenceCapabilities, TokEnv};
use llguidance::{Matcher, ParserFactory};

fn matcher_for(env: &TokEnv, schema: &str) -> Result<Matcher, String> {
    let v: serde_json::Value = serde_json::from_str(schema).map_err(|e| e.to_string())?;
    let mut f = ParserFactory::new(env, InferenceCapabilities::default(), &[]).map_err(|e| e.to_string())?;
    f.quiet();
    let p = f.create_parser(TopLevelGrammar::from_json_schema(v)).map_err(|e| e.to_string())?;
    let m = Matcher::new(Ok(p));
    if m.is_error() {
        return Err(m.get_error().unwrap_or_default());
    }
    Ok(m)
}

fn accepts(m: &Matcher, lit: &str) -> bool {
    let mut c = m.deep_clone();
    for &b in lit.as_bytes() {
        if c.is_stopped() || c.consume_token(b as u32).is_err() {
            return false;
        }
    }
    c.is_accepting().unwrap_or(false)
}

/// exact decimal: value = mant * 10^-scale
#[derive(Clone, Copy, Debug, PartialEq, Eq)]
struct Dec {
    mant: i128,
    scale: u32,
}
impl Dec {
    fn parse(s: &str) -> Dec {
        let neg = s.starts_with('-');
        let t = s.trim_start_matches('-');
        let (ip, fp) = match t.split_once('.') {
            Some((a, b)) => (a, b),
            None => (t, ""),
        };
        let mant: i128 = format!("{ip}{fp}").parse().unwrap();
        Dec { mant: if neg { -mant } else { mant }, scale: fp.len() as u32 }
    }
    fn cmp(&self, o: &Dec) -> std::cmp::Ordering {
        let s = self.scale.max(o.scale);
        let a = self.mant * 10i128.pow(s - self.scale);
        let b = o.mant * 10i128.pow(s - o.scale);
        a.cmp(&b)
    }
    /// canonical text as Rust prints an f64 with this value (no trailing zeros)
    fn text(&self) -> String {
        let neg = self.mant < 0;
        let m = self.mant.abs().to_string();
        let sc = self.scale as usize;
        let m = if m.len() <= sc { format!("{}{}", "0".repeat(sc + 1 - m.len()), m) } else { m };
        let (ip, fp) = m.split_at(m.len() - sc);
        let fp = fp.trim_end_matches('0');
        let body = if fp.is_empty() { ip.to_string() } else { format!("{ip}.{fp}") };
        if neg && body.chars().any(|c| c != '0' && c != '.') { format!("-{body}") } else { body }
    }
    fn to_sx(&self) -> Sx {
        // (neg intdigits fracdigits) as float_to_str prints it
        let t = self.text();
        let neg = t.starts_with('-');
        let t = t.trim_start_matches('-');
        let (ip, fp) = match t.split_once('.') {
            Some((a, b)) => (a.to_string(), b.to_string()),
            None => (t.to_string(), String::new()),
        };
        list(vec![boolean(neg), hex(ip.as_bytes()), hex(fp.as_bytes())])
    }
}

fn in_range(v: &Dec, lo: &Option<(Dec, bool)>, hi: &Option<(Dec, bool)>) -> bool {
    use std::cmp::Ordering::*;
    if let Some((l, incl)) = lo {
        match v.cmp(l) {
            Less => return false,
            Equal if !incl => return false,
            _ => {}
        }
    }
    if let Some((h, incl)) = hi {
        match v.cmp(h) {
            Greater => return false,
            Equal if !incl => return false,
            _ => {}
        }
    }
    true
}

fn int_case(out: &mut Out, env: &TokEnv, lo: Option<i64>, hi: Option<i64>, span: i64) {
    let mut schema = String::from("{\"type\":\"integer\"");
    if let Some(l) = lo {
        schema.push_str(&format!(",\"minimum\":{l}"));
    }
    if let Some(h) = hi {
        schema.push_str(&format!(",\"maximum\":{h}"));
    }
    schema.push('}');
    let a = lo.unwrap_or(hi.unwrap_or(0) - 12);
    let b = hi.unwrap_or(lo.unwrap_or(0) + 12);
    let mut lits: Vec<i64> = if b - a <= 60 {
        ((a - span)..=(b + span)).collect()
    } else {
        // long ranges: both ends and a few interior points
        let mut v: Vec<i64> = ((a - span)..=(a + span)).chain((b - span)..=(b + span)).collect();
        v.extend([a / 2 + b / 2, a / 3 + 2 * (b / 3), 0, a + (b - a) / 7]);
        v
    };
    // magnitudes around powers of ten relative to the bounds
    for k in [9i64, 10, 11, 99, 100, 101, 999, 1000, 1001] {
        for s in [1i64, -1] {
            lits.push(s * k);
        }
    }
    lits.sort();
    lits.dedup();
    let empty = matches!((lo, hi), (Some(l), Some(h)) if l > h);
    match matcher_for(env, &schema) {
        Err(_) => {
            if !empty {
                out.violation(&format!("integer bounds {lo:?}..{hi:?} rejected at compile time although satisfiable"), schema.clone());
            }
            out.case(tagged("intrange", vec![opt_int(lo), opt_int(hi), list(vec![])]), tagged("err", vec![]), true);
        }
        Ok(m) => {
            if empty {
                out.violation(&format!("integer bounds {lo:?}..{hi:?} admit no value but the schema compiled"), schema.clone());
            }
            let mut verdicts = vec![];
            for &z in &lits {
                let acc = accepts(&m, &z.to_string());
                let want = lo.map(|l| z >= l).unwrap_or(true) && hi.map(|h| z <= h).unwrap_or(true);
                if acc != want {
                    out.violation(&format!("integer {z} with bounds {lo:?}..{hi:?}: accepted = {acc}, in range = {want}"), schema.clone());
                }
                verdicts.push(boolean(acc));
            }
            // non-literals must be rejected
            for bad in ["007", "1.5", "+3", "1e2", "--1", ""] {
                if accepts(&m, bad) {
                    out.violation(&format!("integer schema accepts {bad:?}"), schema.clone());
                }
            }
            out.case(
                tagged("intrange", vec![opt_int(lo), opt_int(hi), list(lits.iter().map(|z| int(*z)).collect())]),
                tagged("ok", verdicts),
                true,
            );
        }
    }
    out.count("int_ranges", 1);
}

fn opt_int(x: Option<i64>) -> Sx {
    match x {
        Some(v) => int(v),
        None => sym("none"),
    }
}

fn float_literals(lo: &Option<(Dec, bool)>, hi: &Option<(Dec, bool)>) -> Vec<String> {
    let mut vals: Vec<Dec> = vec![];
    for b in [lo, hi].into_iter().flatten() {
        let (d, _) = b;
        for sc in 0..=(d.scale + 1) {
            for k in -3i128..=3 {
                let s = d.scale.max(sc);
                let m = d.mant * 10i128.pow(s - d.scale) + k * 10i128.pow(s - sc);
                vals.push(Dec { mant: m, scale: s });
            }
        }
    }
    for k in -3i128..=3 {
        vals.push(Dec { mant: k, scale: 0 });
        vals.push(Dec { mant: k * 5, scale: 1 });
    }
    let mut lits: Vec<String> = vec![];
    for v in vals {
        let t = v.text();
        if t.starts_with('-') && v.mant == 0 {
            continue;
        }
        lits.push(t.clone());
        // trailing-zero and .0 forms of the same value
        if t.contains('.') {
            lits.push(format!("{t}0"));
            lits.push(format!("{t}00"));
        } else {
            lits.push(format!("{t}.0"));
            lits.push(format!("{t}.00"));
        }
    }
    lits.sort();
    lits.dedup();
    lits.retain(|l| l != "-0" && !l.starts_with("-0.0") || l.chars().any(|c| c.is_ascii_digit() && c != '0'));
    lits
}

fn float_case(out: &mut Out, env: &TokEnv, lo: Option<(Dec, bool)>, hi: Option<(Dec, bool)>) {
    let mut schema = String::from("{\"type\":\"number\"");
    if let Some((l, incl)) = &lo {
        schema.push_str(&format!(",\"{}\":{}", if *incl { "minimum" } else { "exclusiveMinimum" }, l.text()));
    }
    if let Some((h, incl)) = &hi {
        schema.push_str(&format!(",\"{}\":{}", if *incl { "maximum" } else { "exclusiveMaximum" }, h.text()));
    }
    schema.push('}');
    let lits = float_literals(&lo, &hi);
    let empty = match (&lo, &hi) {
        (Some((l, li)), Some((h, hi_))) => match l.cmp(h) {
            std::cmp::Ordering::Greater => true,
            std::cmp::Ordering::Equal => !(*li && *hi_),
            _ => false,
        },
        _ => false,
    };
    let bsx = |b: &Option<(Dec, bool)>| match b {
        Some((d, i)) => list(vec![d.to_sx(), boolean(*i)]),
        None => sym("none"),
    };
    match matcher_for(env, &schema) {
        Err(_) => {
            if !empty {
                out.violation("number bounds rejected at compile time although satisfiable", schema.clone());
            }
            out.case(tagged("floatrange", vec![bsx(&lo), bsx(&hi), list(vec![])]), tagged("err", vec![]), true);
        }
        Ok(m) => {
            if empty {
                out.violation("number bounds admit no value but the schema compiled", schema.clone());
            }
            let mut verdicts = vec![];
            for l in &lits {
                let acc = accepts(&m, l);
                let want = in_range(&Dec::parse(l), &lo, &hi);
                if acc != want {
                    let class = if acc { "accepted outside the bounds" } else if l.ends_with('0') && l.contains('.') { "trailing-zero literal inside the bounds rejected" } else { "literal inside the bounds rejected" };
                    out.violation(&format!("number {l}: {class} ({schema})"), schema.clone());
                }
                verdicts.push(boolean(acc));
            }
            out.case(
                tagged("floatrange", vec![bsx(&lo), bsx(&hi), list(lits.iter().map(|l| hex(l.as_bytes())).collect())]),
                tagged("ok", verdicts),
                true,
            );
        }
    }
    out.count("float_ranges", 1);
}

pub fn run(rng: &mut Rng, out: &mut Out, tier: &str) {
    let (ws, eos) = single_byte_vocab();
    let env = make_env(&ws, eos, false);
    let w: i64 = if tier == "thorough" { 120 } else { 25 };
    // all integer pairs in a window (including empty ones: rejected at compile time)
    for lo in -w..=w {
        for hi in (lo - 1).max(-w)..=w {
            if tier != "thorough" || (hi - lo) % 3 == 0 || hi - lo < 12 {
                int_case(out, &env, Some(lo), Some(hi), 2);
            }
        }
    }
    for b in -w..=w {
        int_case(out, &env, Some(b), None, 3);
        int_case(out, &env, None, Some(b), 3);
    }
    int_case(out, &env, None, None, 3);
    // large magnitudes near powers of ten
    for e in [3u32, 6, 9, 12, 15] {
        let p = 10i64.pow(e);
        for (lo, hi) in [(p - 2, p + 2), (-p - 1, -p + 1), (p - 1, 2 * p + 3), (-(p / 2), p)] {
            int_case(out, &env, Some(lo), Some(hi), 2);
        }
    }
    // decimal bounds: grid with up to three fractional digits, every inclusive / exclusive combination
    let n = if tier == "thorough" { 6000 } else { 700 };
    for i in 0..n {
        let mut r = rng.fork(0x0800_0000 + i as u64);
        let gen = |r: &mut Rng| -> Dec {
            let scale = r.below(4) as u32;
            let big = r.chance(1, 8);
            let mag: i128 = if big { 10i128.pow(r.range(2, 6) as u32) + r.below(5) as i128 - 2 } else { r.below(40) as i128 };
            let mant = mag * 10i128.pow(scale) + if scale > 0 { r.below(10usize.pow(scale)) as i128 } else { 0 };
            Dec { mant: if r.chance(1, 2) { -mant } else { mant }, scale }
        };
        let a = gen(&mut r);
        let b = if r.chance(1, 6) { a } else { gen(&mut r) };
        let (lo, hi) = if a.cmp(&b) == std::cmp::Ordering::Greater && r.chance(9, 10) { (b, a) } else { (a, b) };
        let lo = if r.chance(1, 8) { None } else { Some((lo, r.chance(1, 2))) };
        let hi = if r.chance(1, 8) { None } else { Some((hi, r.chance(1, 2))) };
        float_case(out, &env, lo, hi);
    }
}
