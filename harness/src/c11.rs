//! C11 (caches never change a mask) and C12 (rollback restores the earlier state):
//! random interleavings of read-only queries, commits, rollbacks and resets; three engines
//! in lock-step on the implementation (as generated / invalidating before every mask /
//! fresh replay of the surviving commits), and the same op list replayed on the model.
use crate::eng::*;
use crate::out::Out;
use crate::rng::Rng;
use crate::sexp::*;
use std::panic::{catch_unwind, AssertUnwindSafe};

fn fresh_replay(env: &llguidance::toktrie::TokEnv, lark: &str, hist: &[u32]) -> Option<llguidance::Matcher> {
    let mut m = new_matcher(env, lark, &[]).ok()?;
    for &t in hist {
        m.consume_token(t).ok()?;
    }
    Some(m)
}

fn observe(m: &mut llguidance::Matcher) -> String {
    let mask = m.compute_mask().map(|v| format!("{:?}", mask_list(&v))).unwrap_or("err".into());
    let acc = m.is_accepting().map(|b| b.to_string()).unwrap_or("err".into());
    let ff = m.compute_ff_bytes();
    if ff.len() > 10000 {
        return "resource-limit".to_string();
    }
    format!("mask={mask} acc={acc} ff={ff:?} stop={}", stop_code(m))
}

pub fn session(rng: &mut Rng, out: &mut Out, with_rollback: bool, prop: &str, script: Option<ParsedSession>) {
    let scripted = script.is_some();
    // `ext`: implementation-only sessions — the grammar gets an %ignore lexeme (not modelled) and the
    // multi-byte tokens are cut out of strings of the grammar, some with a leading blank, so that the
    // token walk crosses skipped lexemes
    let mut ext = false;
    let (g, ws, eos, script_ops) = match script {
        Some(p) => (p.gram, p.ws, p.eos, p.ops),
        None => {
            let g = if rng.chance(1, 8) { gen_diamond_gram(rng) } else { gen_gram(rng) };
            ext = rng.chance(1, 4);
            let dv = if ext { derived_vocab(rng, &format!("{}%ignore /[ ]+/\n", g.to_lark()), 40, true) } else { None };
            ext = dv.is_some();
            let (ws, eos) = match dv {
                Some(v) => v,
                None => if rng.chance(1, 6) { single_byte_vocab() } else { gen_engine_vocab(rng, 30) },
            };
            (g, ws, eos, vec![])
        }
    };
    let lark = if ext { format!("{}%ignore /[ ]+/\n", g.to_lark()) } else { g.to_lark() };
    let env = make_env(&ws, eos, false);
    let Ok(mut m) = new_matcher(&env, &lark, &[]) else {
        out.count("grammar_rejected", 1);
        return;
    };
    let Ok(mut m_inv) = new_matcher(&env, &lark, &[]) else { return };
    let mut ops: Vec<Op> = vec![];
    let mut results: Vec<Sx> = vec![];
    let mut viol: Vec<String> = vec![];
    let mut hist: Vec<u32> = vec![];
    let mut last_mask: Option<Vec<u32>> = None;
    let mut n_rollbacks = 0;
    let mut limit_hit = false;
    let nsteps = if scripted { script_ops.len() } else { rng.range(6, 22) };
    // operations planned ahead: after a rollback, a commit that is NOT preceded by any query on this
    // engine (the token is chosen on a private engine), followed by a forced-bytes query
    let mut planned: std::collections::VecDeque<Op> = std::collections::VecDeque::new();
    let res = catch_unwind(AssertUnwindSafe(|| {
        for step in 0..nsteps {
            let k = rng.below(if with_rollback { 12 } else { 9 });
            let op = if scripted { script_ops[step].clone() } else if let Some(o) = planned.pop_front() { o } else { match k {
                0 | 1 | 2 => Op::Mask,
                3 | 4 => {
                    let t = match (&last_mask, rng.chance(9, 10)) {
                        (Some(mk), true) => pick_token(rng, mk, &ws, eos),
                        _ => None,
                    };
                    match t {
                        Some(t) => Op::Commit(t),
                        None => Op::Mask,
                    }
                }
                5 => Op::Validate((0..rng.range(1, 3)).map(|_| match &last_mask {
                    Some(mk) if !mk.is_empty() && rng.chance(2, 3) => *rng.pick(mk),
                    _ => rng.below(ws.len()) as u32,
                }).collect()),
                6 => Op::Accepting,
                7 => Op::FfBytes,
                8 => Op::Invalidate,
                9 | 10 => Op::Rollback(if hist.is_empty() { 0 } else { rng.range(1, hist.len().min(3)) }),
                _ => Op::Reset,
            } };
            let (r, mask) = run_op(&mut m, &op);
            let ok = !r.to_string().starts_with("(err");
            if !matches!(op, Op::Mask) {
                let _ = run_op(&mut m_inv, &op);
            }
            if is_resource_limit(&m) || (matches!(op, Op::FfBytes) && r.to_string().len() > 20000) {
                limit_hit = true;
                break;
            }
            match &op {
                Op::Mask => {
                    // (a) invalidating engine
                    m_inv.invalidate_bias_cache();
                    let mi = m_inv.compute_mask().ok().map(|v| mask_list(&v));
                    if mi != mask {
                        viol.push(format!("mask differs from the mask of an engine whose cache is invalidated first, after {:?}: {:?} vs {:?}", hist, mask, mi));
                    }
                    // (a') the walk itself leaves no trace: invalidate and walk again in the same state
                    m_inv.invalidate_bias_cache();
                    let mi2 = m_inv.compute_mask().ok().map(|v| mask_list(&v));
                    if mi2 != mask {
                        viol.push(format!("mask differs when the cache is invalidated and the mask computed a second time in the same state, after {:?}: {:?} vs {:?}", hist, mask, mi2));
                    }
                    // (b) fresh engine replaying the surviving commits
                    if let Some(mut f) = fresh_replay(&env, &lark, &hist) {
                        let mf = f.compute_mask().ok().map(|v| mask_list(&v));
                        if mf != mask {
                            viol.push(format!("mask differs from a fresh engine that replayed {:?}: {:?} vs {:?}", hist, mask, mf));
                        }
                    }
                    // (c) twice in the same state
                    let again = m.compute_mask().ok().map(|v| mask_list(&v));
                    if again != mask {
                        viol.push(format!("mask computed twice differs after {:?}", hist));
                    }
                    last_mask = mask;
                }
                Op::Commit(t) => {
                    if ok {
                        hist.push(*t);
                        // every observable (mask, accepting, forced bytes, stop) equals that of an engine
                        // that saw only the surviving tokens
                        if n_rollbacks > 0 && !m.is_stopped() {
                            if let Some(mut f) = fresh_replay(&env, &lark, &hist) {
                                let (a, b) = (observe(&mut m.deep_clone()), observe(&mut f));
                                if a != b && a != "resource-limit" && b != "resource-limit" {
                                    viol.push(format!("after rollbacks and the commits {:?}: {} but an engine that saw only these tokens: {}", hist, a, b));
                                }
                            }
                        }
                    }
                    last_mask = None;
                }
                Op::Rollback(n) => {
                    if ok {
                        let l = hist.len() - *n;
                        hist.truncate(l);
                        n_rollbacks += 1;
                        // every observable equals that of an engine that never saw the tokens
                        if let Some(mut f) = fresh_replay(&env, &lark, &hist) {
                            let (a, b) = (observe(&mut m.deep_clone()), observe(&mut f));
                            if a != b && a != "resource-limit" && b != "resource-limit" {
                                viol.push(format!("after rollback({n}) to {:?}: {} but an engine that never saw the tokens: {}", hist, a, b));
                            }
                            if !scripted && rng.chance(2, 3) && !f.is_stopped() {
                                if let Ok(fm) = f.compute_mask() {
                                    if let Some(t) = pick_token(rng, &mask_list(&fm), &ws, eos) {
                                        planned.push_back(Op::Commit(t));
                                        planned.push_back(if rng.chance(1, 2) { Op::FfBytes } else { Op::Mask });
                                    }
                                }
                            }
                        }
                    }
                    last_mask = None;
                }
                Op::Reset => {
                    if ok {
                        hist.clear();
                        n_rollbacks += 1;
                        if let Some(mut f) = fresh_replay(&env, &lark, &hist) {
                            let (a, b) = (observe(&mut m.deep_clone()), observe(&mut f));
                            if a != b && a != "resource-limit" && b != "resource-limit" {
                                viol.push(format!("after reset: {} but a fresh engine: {}", a, b));
                            }
                        }
                    }
                    last_mask = None;
                }
                _ => {}
            }
            ops.push(op);
            results.push(r);
            if scripted {
                continue;
            }
            let (r, _) = run_op(&mut m, &Op::Stopped);
            let stopped = !r.to_string().starts_with("(stop 0 0");
            ops.push(Op::Stopped);
            results.push(r);
            if m.is_error() {
                break;
            }
            if stopped && !with_rollback {
                break;
            }
        }
    }));
    if res.is_err() {
        viol.push("panic escaped from the Matcher API".to_string());
    }
    if limit_hit {
        // a documented resource-limit stop: item accounting is not part of the model
        out.count("resource_limit_sessions", 1);
        return;
    }
    let mut inp = vec![g.to_sx()];
    inp.extend(vocab_sx(&ws, eos));
    inp.push(tagged("canonical", vec![int(0)]));
    inp.push(tagged("ops", ops.iter().map(|o| o.to_sx()).collect()));
    let input = tagged("session", inp);
    for v in viol {
        out.violation(&v, format!("{}\n--- lark ---\n{}", input, lark));
    }
    out.count(&format!("{prop}_sessions"), 1);
    out.count("ops", ops.len() as u64);
    out.count("rollbacks_or_resets", n_rollbacks);
    if ext {
        // skip lexemes are outside the modelled fragment: the three-engine comparison above is the check
        out.count("sessions_with_ignore_lexeme", 1);
        out.case(tagged("noop", vec![int(ops.len())]), tagged("noop", vec![int(ops.len())]), ops.len() > 6);
        return;
    }
    out.case(input, tagged("session", results), ops.len() > 6);
}

pub fn run(rng: &mut Rng, out: &mut Out, tier: &str, with_rollback: bool, prop: &str) {
    for line in corpus_lines(prop) {
        if let Some(p) = parse_session(&line) {
            let mut r = rng.fork(0xC0FFEE);
            out.count("corpus_cases", 1);
            session(&mut r, out, with_rollback, prop, Some(p));
        }
    }
    let n = if tier == "thorough" { 12000 } else { 1200 };
    for i in 0..n {
        let mut r = rng.fork(i as u64);
        if std::env::var("LLGVERIF_TRACE").is_ok() {
            eprintln!("case {i}");
        }
        // a third of the C11 sessions also roll back: stale caches after a rollback are cache defects too
        session(&mut r, out, with_rollback || i % 3 == 2, prop, None);
    }
}
