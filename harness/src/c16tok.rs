//! C16, tokenizer-description clause: vocabularies loaded from byte-level / byte-fallback
//! tokenizer.json files and from tiktoken rank tables give every regular token exactly the bytes
//! it stands for, prefix special tokens with the marker byte, and tokenising text and
//! concatenating the token bytes returns the text.  The descriptions are synthesised here
//! (no network): random merge tables over the respective alphabets.
use crate::out::Out;
use crate::rng::Rng;
use crate::sexp::*;
use llguidance::toktrie::TokenizerEnv;
use serde_json::{json, Map, Value};
use std::collections::HashSet;

/// OpenAI's bytes_to_unicode table, written the way the GPT-2 encoder defines it (independent
/// of the adapter's build_char_map)
fn gpt2_table() -> Vec<char> {
    let mut bs: Vec<u32> = (b'!' as u32..=b'~' as u32).chain(0xA1..=0xAC).chain(0xAE..=0xFF).collect();
    let mut cs = bs.clone();
    let mut n = 0;
    for b in 0..256u32 {
        if !bs.contains(&b) {
            bs.push(b);
            cs.push(256 + n);
            n += 1;
        }
    }
    let mut t = vec!['\0'; 256];
    for (b, c) in bs.iter().zip(cs.iter()) {
        t[*b as usize] = char::from_u32(*c).unwrap();
    }
    t
}

fn random_bytes(rng: &mut Rng, n: usize) -> Vec<u8> {
    (0..n)
        .map(|_| match rng.below(6) {
            0 => rng.below(256) as u8,
            1 => *rng.pick(b" \n\t"),
            2 => *rng.pick(&[0xC3u8, 0xA9, 0xE2, 0x82, 0xAC, 0xF0, 0x9F, 0x98, 0x80]),
            _ => *rng.pick(b"abcdehlorw01,.<>|"),
        })
        .collect()
}

fn added_token(id: usize, content: &str, special: bool) -> Value {
    json!({"id": id, "content": content, "single_word": false, "lstrip": false, "rstrip": false, "normalized": false, "special": special})
}

/// byte-level BPE description: 256 single-character entries in random order, then merges
pub fn byte_level_case(rng: &mut Rng, out: &mut Out) {
    let table = gpt2_table();
    let enc = |w: &[u8]| -> String { w.iter().map(|b| table[*b as usize]).collect() };
    let mut order: Vec<u8> = (0..=255u8).collect();
    rng.shuffle(&mut order);
    let mut entries: Vec<Vec<u8>> = order.iter().map(|b| vec![*b]).collect();
    let mut seen: HashSet<Vec<u8>> = entries.iter().cloned().collect();
    let mut merges: Vec<String> = vec![];
    for _ in 0..rng.range(5, 60) {
        let a = rng.pick(&entries).clone();
        let b = rng.pick(&entries).clone();
        let mut ab = a.clone();
        ab.extend_from_slice(&b);
        if ab.len() <= 12 && seen.insert(ab.clone()) {
            merges.push(format!("{} {}", enc(&a), enc(&b)));
            entries.push(ab);
        }
    }
    let mut vocab = Map::new();
    for (i, w) in entries.iter().enumerate() {
        vocab.insert(enc(w), json!(i));
    }
    let n = entries.len();
    let specials = ["<|endoftext|>", "<|im_end|>", "<think>", "plainadded"];
    let mut added = vec![];
    let mut expected: Vec<Vec<u8>> = entries.clone();
    for (k, name) in specials.iter().enumerate() {
        let is_special = k < 2 || rng.chance(1, 2);
        added.push(added_token(n + k, name, is_special));
        let looks_special = name.starts_with('<') && name.ends_with('>');
        if is_special || looks_special {
            let mut w = vec![0xFFu8];
            w.extend_from_slice(name.as_bytes());
            expected.push(w);
        } else {
            expected.push(name.as_bytes().to_vec());
        }
    }
    let tj = json!({
        "version": "1.0", "truncation": null, "padding": null, "added_tokens": added, "normalizer": null,
        "pre_tokenizer": {"type": "ByteLevel", "add_prefix_space": false, "trim_offsets": true, "use_regex": false},
        "post_processor": null,
        "decoder": {"type": "ByteLevel", "add_prefix_space": false, "trim_offsets": true, "use_regex": false},
        "model": {"type": "BPE", "dropout": null, "unk_token": null, "continuing_subword_prefix": null, "end_of_word_suffix": null,
                  "fuse_unk": false, "byte_fallback": false, "vocab": vocab, "merges": merges}
    });
    let bt = match toktrie_hf_tokenizers::ByteTokenizer::from_json_bytes(tj.to_string().as_bytes()) {
        Ok(b) => b,
        Err(e) => {
            out.count("bytelevel_description_rejected", 1);
            if out.stats.get("bytelevel_description_rejected").cloned().unwrap_or(0) <= 2 {
                eprintln!("byte-level description rejected: {e}");
            }
            return;
        }
    };
    let got = bt.token_bytes();
    let env = match toktrie_hf_tokenizers::ByteTokenizerEnv::new(bt, None) {
        Ok(e) => e,
        Err(e) => {
            out.violation("ByteTokenizerEnv::new failed on a well-formed byte-level description", e.to_string());
            return;
        }
    };
    for (i, w) in expected.iter().enumerate() {
        if got.get(i) != Some(w) {
            out.violation(
                &format!("byte-level token {i}: the adapter gives bytes {:?}, the entry stands for {:?}", got.get(i), w),
                format!("entry {:?}", if i < n { enc(&entries[i]) } else { specials[i - n].to_string() }),
            );
            break;
        }
        if env.tok_trie().token(i as u32) != &w[..] {
            out.violation(&format!("byte-level token {i}: the trie stores {:?}, expected {:?}", env.tok_trie().token(i as u32), w), String::new());
            break;
        }
    }
    // text -> tokens -> bytes gives the text back (0xFF excepted)
    for _ in 0..4 {
        let tl = rng.range(0, 24);
        let text: Vec<u8> = random_bytes(rng, tl).into_iter().filter(|b| *b != 0xFF).collect();
        let toks = env.tokenize_bytes(&text);
        let back: Vec<u8> = toks.iter().flat_map(|t| env.tok_trie().token(*t).to_vec()).collect();
        if back != text {
            out.violation(
                &format!("byte-level tokenizer: tokens {:?} of text {:?} decode to {:?}", toks, String::from_utf8_lossy(&text), String::from_utf8_lossy(&back)),
                String::new(),
            );
            break;
        }
        out.count("bytelevel_roundtrips", 1);
    }
    // model: decode the entries (as code points) — a sample keeps the case small
    let mut idx: Vec<usize> = (0..n).collect();
    rng.shuffle(&mut idx);
    idx.truncate(40);
    let mut names: Vec<Sx> = idx.iter().map(|&i| ints(&enc(&entries[i]).chars().map(|c| c as u32).collect::<Vec<_>>())).collect();
    let mut res: Vec<Sx> = idx.iter().map(|&i| hex(&got[i])).collect();
    // an entry with a code point outside the alphabet is skipped by the adapter (stays empty)
    names.push(ints(&[0x4E2Du32, 'a' as u32]));
    res.push(sym("skipped"));
    out.case(tagged("bytelevel", names), tagged("ok", res), true);
    out.count("bytelevel_descriptions", 1);
}

/// byte-fallback (SentencePiece-style) description: <0xNN> for every byte, text pieces with the
/// replaced space character, specials
pub fn byte_fallback_case(rng: &mut Rng, out: &mut Out) {
    let space = "\u{2581}";
    let mut names: Vec<String> = vec!["<unk>".into(), "<s>".into(), "</s>".into()];
    for b in 0..256u32 {
        names.push(if rng.chance(1, 2) { format!("<0x{:02X}>", b) } else { format!("<0x{:02X}>", b) });
    }
    let first_piece = names.len();
    let alphabet: Vec<String> = ["a", "b", "c", "e", "h", "l", "o", "é", "€", space, ".", "<", ">", "0", "x"].iter().map(|s| s.to_string()).collect();
    let mut pieces: Vec<String> = alphabet.clone();
    let mut seen: HashSet<String> = pieces.iter().cloned().collect();
    let mut merges = vec![];
    for _ in 0..rng.range(5, 40) {
        let a = rng.pick(&pieces).clone();
        let b = rng.pick(&pieces).clone();
        let ab = format!("{a}{b}");
        if ab.chars().count() <= 8 && !ab.starts_with("<0x") && seen.insert(ab.clone()) {
            merges.push(format!("{a} {b}"));
            pieces.push(ab);
        }
    }
    names.extend(pieces.iter().cloned());
    let mut vocab = Map::new();
    for (i, nme) in names.iter().enumerate() {
        vocab.insert(nme.clone(), json!(i));
    }
    let added = vec![added_token(0, "<unk>", true), added_token(1, "<s>", true), added_token(2, "</s>", true)];
    let tj = json!({
        "version": "1.0", "truncation": null, "padding": null, "added_tokens": added,
        "normalizer": {"type": "Sequence", "normalizers": [{"type": "Prepend", "prepend": space}, {"type": "Replace", "pattern": {"String": " "}, "content": space}]},
        "pre_tokenizer": null, "post_processor": null,
        "decoder": {"type": "Sequence", "decoders": [{"type": "Replace", "pattern": {"String": space}, "content": " "}, {"type": "ByteFallback"}, {"type": "Fuse"},
                                                      {"type": "Strip", "content": " ", "start": 1, "stop": 0}]},
        "model": {"type": "BPE", "dropout": null, "unk_token": "<unk>", "continuing_subword_prefix": null, "end_of_word_suffix": null,
                  "fuse_unk": true, "byte_fallback": true, "vocab": vocab, "merges": merges}
    });
    let bt = match toktrie_hf_tokenizers::ByteTokenizer::from_json_bytes(tj.to_string().as_bytes()) {
        Ok(b) => b,
        Err(e) => {
            out.count("bytefallback_description_rejected", 1);
            if out.stats.get("bytefallback_description_rejected").cloned().unwrap_or(0) <= 2 {
                eprintln!("byte-fallback description rejected: {e}");
            }
            return;
        }
    };
    let got = bt.token_bytes();
    let env = match toktrie_hf_tokenizers::ByteTokenizerEnv::new(bt, None) {
        Ok(e) => e,
        Err(e) => {
            out.violation("ByteTokenizerEnv::new failed on a well-formed byte-fallback description", e.to_string());
            return;
        }
    };
    for (i, nme) in names.iter().enumerate() {
        let want: Vec<u8> = if i < 3 {
            let mut w = vec![0xFFu8];
            w.extend_from_slice(nme.as_bytes());
            w
        } else if i < first_piece {
            vec![(i - 3) as u8]
        } else {
            nme.replace(space, " ").into_bytes()
        };
        if got.get(i) != Some(&want) {
            out.violation(&format!("byte-fallback token {i} ({nme:?}): the adapter gives {:?}, the entry stands for {:?}", got.get(i), want), String::new());
            break;
        }
    }
    // valid UTF-8 text (the tokenizer works on strings): pieces, spaces, characters without a piece
    for _ in 0..4 {
        let n = rng.range(0, 10);
        let text: String = (0..n).map(|_| *rng.pick(&["a", "b", " ", "é", "€", "z", "he", "llo", ".", "😀", "<", "\n"])).collect();
        let toks = env.tokenize_bytes(text.as_bytes());
        let back: Vec<u8> = toks.iter().flat_map(|t| env.tok_trie().token(*t).to_vec()).collect();
        if back != text.as_bytes() {
            out.violation(&format!("byte-fallback tokenizer: tokens {:?} of text {:?} decode to {:?}", toks, text, String::from_utf8_lossy(&back)), String::new());
            break;
        }
        out.count("bytefallback_roundtrips", 1);
    }
    // model: the regular entries (specials are added tokens, handled by id)
    let mut idx: Vec<usize> = (3..names.len()).collect();
    rng.shuffle(&mut idx);
    idx.truncate(40);
    let mut items: Vec<Sx> = vec![hex(space.as_bytes())];
    items.extend(idx.iter().map(|&i| hex(names[i].as_bytes())));
    out.case(tagged("bytefallback", items), tagged("ok", idx.iter().map(|&i| hex(&got[i])).collect()), true);
    out.count("bytefallback_descriptions", 1);
}

/// tiktoken rank table: all 256 bytes plus merged byte strings at random ranks, specials, holes
pub fn tiktoken_case(rng: &mut Rng, out: &mut Out) {
    let mut ranks: Vec<u32> = (0..(256 + rng.range(0, 40)) as u32).collect();
    rng.shuffle(&mut ranks);
    let mut encoder: Vec<(Vec<u8>, u32)> = vec![];
    let mut seen: HashSet<Vec<u8>> = HashSet::new();
    for b in 0..=255u8 {
        encoder.push((vec![b], ranks[b as usize]));
        seen.insert(vec![b]);
    }
    for k in 256..ranks.len() {
        let a = rng.pick(&encoder).0.clone();
        let b = rng.pick(&encoder).0.clone();
        let mut ab = a;
        ab.extend_from_slice(&b);
        if ab.len() <= 10 && seen.insert(ab.clone()) {
            encoder.push((ab, ranks[k]));
        }
        // else: the rank stays unused (a hole -> placeholder)
    }
    let top = ranks.len() as u32;
    let hole = rng.below(3) as u32;
    let specials: Vec<(String, u32)> = vec![("<|endoftext|>".into(), top + hole), ("<|fim|>".into(), top + hole + 1 + rng.below(2) as u32)];
    let over = if rng.chance(1, 2) { Some((top + hole + 3 + rng.below(5) as u32) as usize) } else { None };
    let eos = specials[0].1;
    let r = toktrie_tiktoken::TikTokenBPE::new(encoder.clone(), specials.clone(), r"[^\s]+|\s+", over, eos);
    let input = tagged(
        "tiktoken",
        vec![
            int(over.map(|v| v as i64).unwrap_or(-1)),
            list(encoder.iter().map(|(w, r)| list(vec![hex(w), int(*r)])).collect()),
            list(specials.iter().map(|(n, r)| list(vec![hex(n.as_bytes()), int(*r)])).collect()),
        ],
    );
    match r {
        Err(_) => {
            out.case(input, tagged("err", vec![]), true);
            out.count("tiktoken_rejected", 1);
        }
        Ok(t) => {
            let n = t.tok_trie().vocab_size();
            let toks: Vec<Sx> = (0..n as u32).map(|i| hex(t.tok_trie().token(i))).collect();
            for (w, r) in &encoder {
                if t.tok_trie().token(*r) != &w[..] {
                    out.violation(&format!("tiktoken rank {r}: the trie stores {:?}, the table says {:?}", t.tok_trie().token(*r), w), String::new());
                    break;
                }
            }
            for (name, r) in &specials {
                let mut w = vec![0xFFu8];
                w.extend_from_slice(name.as_bytes());
                if t.tok_trie().token(*r) != &w[..] {
                    out.violation(&format!("tiktoken special {name}: the trie stores {:?}", t.tok_trie().token(*r)), String::new());
                }
            }
            for _ in 0..3 {
                let tl = rng.range(0, 20);
                let text: Vec<u8> = random_bytes(rng, tl).into_iter().filter(|b| *b != 0xFF).collect();
                let ids = t.tokenize_bytes(&text);
                let back: Vec<u8> = ids.iter().flat_map(|i| t.tok_trie().token(*i).to_vec()).collect();
                if back != text {
                    out.violation(&format!("tiktoken: tokens {:?} of text {:?} decode to {:?}", ids, String::from_utf8_lossy(&text), String::from_utf8_lossy(&back)), String::new());
                    break;
                }
                out.count("tiktoken_roundtrips", 1);
            }
            out.case(input, tagged("ok", toks), true);
            out.count("tiktoken_tables", 1);
        }
    }
}
