//! C01: mask = set of tokens the engine accepts next (mask / validate / commit / EOS / longest prefix).
use crate::eng::*;
use crate::out::Out;
use crate::rng::Rng;
use crate::sexp::*;
use std::panic::{catch_unwind, AssertUnwindSafe};

pub struct SessionCfg {
    pub steps: usize,
    pub extra_vocab: usize,
    /// check mask == validate == commit for every token id at every state
    pub check_all_tokens: bool,
    /// multi-byte tokens cut out of strings of the grammar (tokens spanning several lexemes)
    pub derived_vocab: bool,
}

pub fn session_case(rng: &mut Rng, out: &mut Out, cfg: &SessionCfg, prop: &str) {
    let g = gen_gram(rng);
    let lark = g.to_lark();
    let (ws, eos) = if rng.chance(1, 5) {
        single_byte_vocab()
    } else {
        match if cfg.derived_vocab { derived_vocab(rng, &lark, cfg.extra_vocab, false) } else { None } {
            Some(v) => v,
            None => gen_engine_vocab(rng, cfg.extra_vocab),
        }
    };
    // a fifth of the sessions run over a truncated vocabulary: most single-byte tokens are missing, so
    // there are states where the grammar could continue but no token of the vocabulary can
    let (ws, eos) = if rng.chance(1, 5) {
        let keep: Vec<Vec<u8>> = ws[..ws.len() - 1]
            .iter()
            .filter(|w| if w.len() == 1 { w[0].is_ascii_graphic() && rng.chance(1, 3) } else { rng.chance(2, 3) })
            .cloned()
            .collect();
        let mut k = keep;
        if k.is_empty() {
            k.push(b"a".to_vec());
        }
        k.push(b"\xFF<|eos|>".to_vec());
        out.count("truncated_vocab_sessions", 1);
        let e = (k.len() - 1) as u32;
        (k, e)
    } else {
        (ws, eos)
    };
    // a quarter of the sessions run over a tokenizer with a second end-of-sequence token
    let mut ws = ws;
    let extra_eos = if rng.chance(1, 4) {
        ws.push(b"\xFF<|end2|>".to_vec());
        Some((ws.len() - 1) as u32)
    } else {
        None
    };
    let env = make_env2(&ws, eos, extra_eos, false);
    let mut m = match new_matcher(&env, &lark, &[]) {
        Ok(m) => m,
        Err(e) => {
            out.count("grammar_rejected", 1);
            if out.stats.get("grammar_rejected").cloned().unwrap_or(0) <= 3 {
                eprintln!("grammar rejected: {e}\n{lark}");
            }
            return;
        }
    };
    let mut ops: Vec<Op> = vec![];
    let mut results: Vec<Sx> = vec![];
    let mut viol: Vec<String> = vec![];
    let mut history: Vec<u32> = vec![];
    let mut nontrivial = false;
    let mut limit_hit = false;
    let res = catch_unwind(AssertUnwindSafe(|| {
        for _step in 0..cfg.steps {
            // sometimes ask for the forced bytes first: the mask is then computed relative to a pending
            // byte prefix (the text the grammar forces next)
            if rng.chance(1, 4) {
                let (r, _) = run_op(&mut m, &Op::FfBytes);
                // a grammar that forces text without end stops at the step item limit: item
                // accounting is not modelled, such sessions are skipped
                if r.to_string().len() > 20000 || is_resource_limit(&m) {
                    limit_hit = true;
                    break;
                }
                ops.push(Op::FfBytes);
                results.push(r);
            }
            // mask
            let mut pre = m.deep_clone();
            let (r, mask) = run_op(&mut m, &Op::Mask);
            ops.push(Op::Mask);
            results.push(r);
            if mask.is_none() && !pre.is_stopped() && pre.is_accepting().unwrap_or(false) {
                // the engine accepts the end-of-sequence token here, so there is a mask and it holds EOS
                let mut c = pre.deep_clone();
                if pre.validate_tokens(&[eos]).unwrap_or(0) == 1 && c.consume_token(eos).is_ok() {
                    viol.push(format!("no mask ({}) in an accepting state in which the engine validates and commits the EOS token, after {:?}", stop_code(&m), history));
                }
            }
            let Some(mask) = mask else {
                // mask error: must be a stop with no extension in an accepting state (C03/C18 look at it)
                let (r, _) = run_op(&mut m, &Op::Stopped);
                ops.push(Op::Stopped);
                results.push(r);
                break;
            };
            let (r, _) = run_op(&mut m, &Op::Accepting);
            let acc = r.to_string() == "(ok 1)";
            ops.push(Op::Accepting);
            results.push(r);
            // ---- the property on the implementation alone
            if mask.contains(&eos) != acc {
                viol.push(format!("EOS in mask = {} but is_accepting = {} after {:?}", mask.contains(&eos), acc, history));
            }
            if let Some(x) = extra_eos {
                if mask.contains(&x) != acc {
                    viol.push(format!("second EOS token in mask = {} but is_accepting = {} after {:?}", mask.contains(&x), acc, history));
                }
            }
            if cfg.check_all_tokens {
                for t in 0..ws.len() as u32 {
                    if t == eos {
                        continue;
                    }
                    let in_mask = mask.contains(&t);
                    let val = m.validate_tokens(&[t]).unwrap_or(99);
                    let mut c = m.deep_clone();
                    let com = c.consume_token(t).is_ok();
                    if (val == 1) != in_mask || com != in_mask {
                        viol.push(format!(
                            "token {} ({:?}): in mask = {}, validate = {}, commit ok = {} after {:?}",
                            t, ws[t as usize], in_mask, val, com, history
                        ));
                        break;
                    }
                }
                out.count("token_checks", ws.len() as u64);
            }
            if mask.iter().any(|&t| ws[t as usize].len() > 1 && t != eos) {
                nontrivial = true;
            }
            // validate a sequence: walk on a clone, maybe append a rejected token
            if rng.chance(1, 2) {
                let mut c = m.deep_clone();
                let mut seq = vec![];
                let mut expect = 0usize;
                let mut alive = true;
                for _ in 0..rng.range(1, 4) {
                    let cm = if alive { c.compute_mask().ok().map(|v| mask_list(&v)) } else { None };
                    let t = match (&cm, rng.chance(4, 5)) {
                        (Some(cm), true) => pick_token(rng, cm, &ws, eos),
                        _ => Some(rng.below(ws.len()) as u32),
                    };
                    let Some(t) = t else { break };
                    seq.push(t);
                    if alive && c.consume_token(t).is_ok() {
                        expect += 1;
                        if c.is_stopped() {
                            alive = false;
                        }
                    } else {
                        alive = false;
                    }
                }
                let op = Op::Validate(seq.clone());
                let (r, _) = run_op(&mut m, &op);
                // EOS inside the sequence ends validation by definition; only judge EOS-free sequences
                if !seq.contains(&eos) && extra_eos.map_or(true, |x| !seq.contains(&x)) {
                    let got = r.to_string();
                    if got != format!("(ok {expect})") {
                        viol.push(format!(
                            "validate_tokens({:?}) = {} but {} tokens commit one by one, after {:?}",
                            seq, got, expect, history
                        ));
                    }
                }
                // the batch entry points agree with committing one by one: try_consume_tokens consumes exactly
                // the validated prefix, consume_tokens of that prefix ends in the same state
                if !seq.contains(&eos) && extra_eos.map_or(true, |x| !seq.contains(&x)) {
                    let obs = |c: &mut llguidance::Matcher| -> String {
                        let st = c.is_stopped();
                        let mk = if st { None } else { c.compute_mask().ok().map(|v| mask_list(&v)) };
                        format!("stopped={st} code={} acc={:?} mask={mk:?}", stop_code(c), if st { None } else { c.is_accepting().ok() })
                    };
                    let mut one = m.deep_clone();
                    let fine = seq[..expect].iter().all(|&t| one.consume_token(t).is_ok());
                    let mut c2 = m.deep_clone();
                    match c2.try_consume_tokens(&seq) {
                        Ok(k) if k != expect => viol.push(format!("try_consume_tokens({seq:?}) consumed {k} tokens but {expect} commit one by one, after {history:?}")),
                        Ok(_) if fine => {
                            let (a, b) = (obs(&mut c2), obs(&mut one.deep_clone()));
                            if a != b {
                                viol.push(format!("after try_consume_tokens({seq:?}): {a}; after committing the same {expect} tokens one by one: {b} (history {history:?})"));
                            }
                        }
                        Err(e) if !is_resource_limit(&c2) => viol.push(format!(
                            "try_consume_tokens({seq:?}) fails ({}) instead of consuming the {expect} tokens that commit one by one, after {history:?}",
                            e.to_string().lines().next().unwrap_or("")
                        )),
                        _ => {}
                    }
                    if fine && expect > 1 {
                        let mut c3 = m.deep_clone();
                        if c3.consume_tokens(&seq[..expect]).is_ok() {
                            let (a, b) = (obs(&mut c3), obs(&mut one));
                            if a != b {
                                viol.push(format!("after consume_tokens({:?}): {a}; after committing them one by one: {b} (history {history:?})", &seq[..expect]));
                            }
                        } else {
                            viol.push(format!("consume_tokens({:?}) fails although the tokens commit one by one, after {history:?}", &seq[..expect]));
                        }
                    }
                    out.count("batch_commit_checks", 1);
                }
                ops.push(op);
                results.push(r);
            }
            // commit
            let t = if rng.chance(1, 12) { Some(rng.below(ws.len()) as u32) } else { pick_token(rng, &mask, &ws, eos) };
            let Some(t) = t else { break };
            let op = Op::Commit(t);
            let (r, _) = run_op(&mut m, &op);
            let ok = r.to_string() == "(ok)";
            if ok != mask.contains(&t) {
                viol.push(format!("commit of token {} ok = {} but in mask = {} after {:?}", t, ok, mask.contains(&t), history));
            }
            ops.push(op);
            results.push(r);
            let (r, _) = run_op(&mut m, &Op::Stopped);
            let stopped = !r.to_string().starts_with("(stop 0");
            ops.push(Op::Stopped);
            results.push(r);
            // committing any end-of-sequence token in an accepting state ends the run
            if ok && (t == eos || Some(t) == extra_eos) && !stopped {
                viol.push(format!("end-of-sequence token {t} committed in an accepting state but the engine did not stop, after {:?}", history));
            }
            if !ok || stopped {
                break;
            }
            history.push(t);
        }
    }));
    if res.is_err() {
        viol.push("panic escaped from the Matcher API".to_string());
    }
    if limit_hit || is_resource_limit(&m) {
        out.count("resource_limit_sessions", 1);
        return;
    }
    let mut inp = vec![g.to_sx()];
    inp.extend(vocab_sx2(&ws, eos, extra_eos));
    inp.push(tagged("canonical", vec![int(0)]));
    inp.push(tagged("ops", ops.iter().map(|o| o.to_sx()).collect()));
    let input = tagged("session", inp);
    for v in viol {
        out.violation(&v, format!("{}\n--- lark ---\n{}", input, lark));
    }
    if extra_eos.is_some() {
        out.count("sessions_with_two_eos_tokens", 1);
    }
    out.count(&format!("{prop}_sessions"), 1);
    out.count("ops", ops.len() as u64);
    out.count("commits", history.len() as u64);
    if ws.len() > 257 {
        out.count("multibyte_vocab_sessions", 1);
    }
    out.case(input, tagged("session", results), nontrivial || history.len() > 1);
}

pub fn run(rng: &mut Rng, out: &mut Out, tier: &str) {
    let n = if tier == "thorough" { 6000 } else { 500 };
    let cfg = SessionCfg { steps: 8, extra_vocab: 40, check_all_tokens: true, derived_vocab: false };
    let cfg2 = SessionCfg { steps: 8, extra_vocab: 40, check_all_tokens: true, derived_vocab: true };
    for i in 0..n {
        let mut r = rng.fork(i as u64);
        session_case(&mut r, out, &cfg, "C01");
        let mut r = rng.fork(0x0100_0000 + i as u64);
        session_case(&mut r, out, &cfg2, "C01");
    }
}
