//! C17: the C API returns what the Rust API returns and stays inside caller buffers.
use crate::eng::*;
use crate::gen::boundary_size;
use crate::out::Out;
use crate::rng::Rng;
use crate::sexp::*;
use llguidance::api::TopLevelGrammar;
use llguidance::ffi::*;
use llguidance::toktrie::InferenceCapabilities;
use llguidance::{Constraint, ParserFactory};
use std::ffi::CString;

const CANARY: u32 = 0xA5A5_A5A5;

/// greedy tokenisation over a TokTrie passed as user data: the canonical tokenizer callback of the C API
extern "C" fn greedy_cb(user: *const std::os::raw::c_void, bytes: *const u8, len: usize, out: *mut u32, out_len: usize) -> usize {
    let trie = unsafe { &*(user as *const llguidance::toktrie::TokTrie) };
    let s = if len == 0 { &[][..] } else { unsafe { std::slice::from_raw_parts(bytes, len) } };
    let toks = trie.greedy_tokenize(s);
    for (i, t) in toks.iter().enumerate().take(out_len) {
        unsafe { *out.add(i) = *t };
    }
    toks.len()
}

pub(crate) fn c_tokenizer(ws: &[Vec<u8>], eos: u32) -> *mut LlgTokenizer {
    c_tokenizer_with(ws, eos, std::ptr::null())
}

/// with a trie: the tokenizer is canonical (tokenize_fn set), as make_env(.., true) on the Rust side
pub(crate) fn c_tokenizer_with(ws: &[Vec<u8>], eos: u32, trie: *const llguidance::toktrie::TokTrie) -> *mut LlgTokenizer {
    let lens: Vec<u32> = ws.iter().map(|w| w.len() as u32).collect();
    let bytes: Vec<u8> = ws.iter().flat_map(|w| w.clone()).collect();
    let no_slices: [*const std::os::raw::c_char; 1] = [std::ptr::null()];
    let init = LlgTokenizerInit {
        vocab_size: ws.len() as u32,
        tok_eos: eos,
        token_lens: lens.as_ptr(),
        token_bytes: bytes.as_ptr(),
        tokenizer_json: std::ptr::null(),
        tokenize_assumes_string: false,
        tokenize_fn: if trie.is_null() { None } else { Some(greedy_cb) },
        use_approximate_greedy_tokenize_fn: trie.is_null(),
        tokenize_user_data: trie as *const std::os::raw::c_void,
        slices: no_slices.as_ptr(),
    };
    let mut err = vec![0i8; 256];
    unsafe { llg_new_tokenizer(&init, err.as_mut_ptr() as *mut _, err.len()) }
}

pub(crate) fn c_init(tok: *const LlgTokenizer) -> LlgConstraintInit {
    let mut init: LlgConstraintInit = unsafe { std::mem::zeroed() };
    llg_constraint_init_set_defaults(&mut init, tok);
    init.log_stderr_level = 0;
    init.log_buffer_level = 0;
    init
}

/// the V2 constructor with further end-of-sequence tokens (llg_new_tokenizer_v2)
pub(crate) fn c_tokenizer_v2(ws: &[Vec<u8>], eos: u32, extra: &[u32], trie: *const llguidance::toktrie::TokTrie) -> *mut LlgTokenizer {
    let lens: Vec<u32> = ws.iter().map(|w| w.len() as u32).collect();
    let bytes: Vec<u8> = ws.iter().flat_map(|w| w.clone()).collect();
    let no_slices: [*const std::os::raw::c_char; 1] = [std::ptr::null()];
    let mut init: LlgTokenizerInitV2 = unsafe { std::mem::zeroed() };
    init.struct_size = std::mem::size_of::<LlgTokenizerInitV2>();
    init.vocab_size = ws.len() as u32;
    init.tok_eos = eos;
    init.token_lens = lens.as_ptr();
    init.token_bytes = bytes.as_ptr();
    init.tokenize_fn = if trie.is_null() { None } else { Some(greedy_cb) };
    init.use_approximate_greedy_tokenize_fn = trie.is_null();
    init.tokenize_user_data = trie as *const std::os::raw::c_void;
    init.slices = no_slices.as_ptr();
    init.tok_eos_extra = extra.as_ptr();
    init.tok_eos_extra_count = extra.len() as u32;
    let mut err = vec![0i8; 256];
    unsafe { llg_new_tokenizer_v2(&init, err.as_mut_ptr() as *mut _, err.len()) }
}

/// a third of the sessions: one token below the primary EOS becomes a second end-of-sequence token
fn second_eos(rng: &mut Rng, ws: &mut [Vec<u8>], eos: u32) -> Option<u32> {
    if rng.chance(1, 3) && eos > 16 {
        let x = rng.range(14, eos as usize - 1);
        ws[x] = b"\xFF<|end2|>".to_vec();
        Some(x as u32)
    } else {
        None
    }
}

/// vocabulary of a given size around a word boundary: single bytes of the grammar alphabet first
fn sized_vocab(rng: &mut Rng, size: usize) -> (Vec<Vec<u8>>, u32) {
    let mut ws: Vec<Vec<u8>> = vec![];
    for b in b"abcdex01 ,\"" {
        ws.push(vec![*b]);
    }
    for s in ["é", "€"] {
        for b in s.as_bytes() {
            if !ws.contains(&vec![*b]) {
                ws.push(vec![*b]);
            }
        }
    }
    while ws.len() + 1 < size {
        let n = rng.range(2, 4);
        let mut w = vec![];
        for _ in 0..n {
            w.extend_from_slice(rng.pick(CHARS).as_bytes());
        }
        ws.push(w);
    }
    ws.truncate(size.max(ws.len().min(size)).max(2) - 1);
    ws.push(b"\xFF<|eos|>".to_vec());
    let eos = (ws.len() - 1) as u32;
    (ws, eos)
}

fn words_of(ptr: *const u32, n: usize) -> Vec<u32> {
    if ptr.is_null() {
        return vec![];
    }
    unsafe { std::slice::from_raw_parts(ptr, n).to_vec() }
}

pub fn constraint_case(rng: &mut Rng, out: &mut Out) {
    let g = gen_gram(rng);
    let size = boundary_size(rng, 3).max(24);
    let (mut ws, eos) = sized_vocab(rng, size);
    let v = ws.len();
    let lark = g.to_lark();
    let extra_eos = second_eos(rng, &mut ws, eos);
    let env = make_env2(&ws, eos, extra_eos, false);
    // Rust reference
    let mut f = match ParserFactory::new(&env, InferenceCapabilities::default(), &[]) {
        Ok(f) => f,
        Err(_) => return,
    };
    f.quiet();
    let Ok(p) = f.create_parser(TopLevelGrammar::from_lark(lark.clone())) else {
        out.count("grammar_rejected", 1);
        return;
    };
    let mut rc = Constraint::new(p);
    // C side
    let tok = match extra_eos {
        Some(x) => {
            out.count("sessions_with_second_eos", 1);
            c_tokenizer_v2(&ws, eos, &[x], std::ptr::null())
        }
        None => c_tokenizer(&ws, eos),
    };
    if tok.is_null() {
        out.violation("llg_new_tokenizer failed", lark.clone());
        return;
    }
    let init = c_init(tok);
    let clark = CString::new(lark.clone()).unwrap();
    let cc = llg_new_constraint_lark(&init, clark.as_ptr());
    let mask_words = (v + 1).div_ceil(32);
    let mut viol: Vec<String> = vec![];
    let mut hist: Vec<u32> = vec![];
    for _step in 0..rng.range(2, 8) {
        // Rust
        let (rmask, rstop) = match rc.compute_mask() {
            Ok(r) => (r.sample_mask.as_ref().map(|m| m.as_slice().to_vec()), r.is_stop()),
            Err(_) => {
                break;
            }
        };
        // C, on a clone: llg_compute_mask
        let clone = llg_clone_constraint(unsafe { &*cc });
        let mut mres: LlgMaskResult = unsafe { std::mem::zeroed() };
        let rcode = llg_compute_mask(unsafe { &mut *clone }, &mut mres);
        if rcode != 0 {
            viol.push(format!("llg_compute_mask returned {rcode} where the Rust API succeeded, after {hist:?}"));
            unsafe { llg_free_constraint(clone) };
            break;
        }
        let cmask = if mres.sample_mask.is_null() { None } else { Some(words_of(mres.sample_mask, mask_words)) };
        if cmask != rmask || mres.is_stop != rstop {
            viol.push(format!("llg_compute_mask != Constraint::compute_mask after {hist:?}: {:?}/{} vs {:?}/{}", cmask, mres.is_stop, rmask, rstop));
        }
        unsafe { llg_free_constraint(clone) };
        // C: llg_par_compute_mask into a caller buffer of L words between guard words
        let l = rng.below(mask_words + 4);
        let mut buf = vec![CANARY; l + 4];
        let step = LlgConstraintStep {
            constraint: cc,
            mask_dest: unsafe { buf.as_mut_ptr().add(2) },
            mask_byte_len: l * 4,
        };
        unsafe { llg_par_compute_mask(&step, 1, std::ptr::null(), None) };
        let dest = buf[2..2 + l].to_vec();
        if buf[0] != CANARY || buf[1] != CANARY || buf[l + 2] != CANARY || buf[l + 3] != CANARY {
            viol.push(format!("llg_par_compute_mask wrote outside the caller's buffer (len {l} words) after {hist:?}"));
        }
        // the property itself: bits of real token ids only, zero fill, equals the Rust mask
        let mut expect = vec![0u32; l];
        if let Some(m) = &rmask {
            for i in 0..l.min(m.len()) {
                expect[i] = m[i];
            }
        }
        if rstop && (eos as usize) / 32 < l {
            expect[(eos as usize) / 32] |= 1 << (eos % 32);
        }
        if dest != expect {
            viol.push(format!(
                "llg_par_compute_mask dest (vocab {v}, {l} words) = {:x?} but the engine's mask gives {:x?}, after {hist:?}",
                dest, expect
            ));
        }
        for (wi, w) in dest.iter().enumerate() {
            for b in 0..32 {
                if w & (1 << b) != 0 && wi * 32 + b >= v {
                    viol.push(format!("llg_par_compute_mask set bit {} >= vocab size {v}", wi * 32 + b));
                }
            }
        }
        // model case: the word arithmetic
        let inp = tagged(
            "parcopy",
            vec![
                match &rmask {
                    Some(m) => tagged("mask", vec![ints(m), int(v)]),
                    None => tagged("nomask", vec![]),
                },
                int(l),
                boolean(rstop),
                int(eos),
            ],
        );
        out.case(inp, tagged("ok", vec![ints(&dest)]), l > 0);
        out.count("par_copy_cases", 1);
        out.count(
            if l < mask_words - 1 { "dest_shorter" } else if l > mask_words { "dest_longer_than_mask" } else { "dest_about_equal" },
            1,
        );
        if rstop {
            break;
        }
        // commit the same token on both sides (sometimes an id outside the vocabulary)
        let ml = rmask.as_ref().map(|m| {
            let mut r = vec![];
            for (i, w) in m.iter().enumerate() {
                for b in 0..32 {
                    if w & (1u32 << b) != 0 {
                        r.push((i * 32 + b) as u32);
                    }
                }
            }
            r
        });
        let t = if rng.chance(1, 15) {
            (v + rng.below(40)) as u32
        } else {
            match ml.as_ref().and_then(|m| pick_token(rng, m, &ws, eos)) {
                Some(t) => t,
                None => break,
            }
        };
        let rr = rc.commit_token(if (t as usize) < v { Some(t) } else { None });
        let mut cres: LlgCommitResult = unsafe { std::mem::zeroed() };
        let ccode = llg_commit_token(unsafe { &mut *cc }, t, &mut cres);
        match (&rr, ccode) {
            (Ok(r), 0) => {
                let ctoks = words_of(cres.tokens, cres.n_tokens as usize);
                if ctoks != r.ff_tokens || cres.is_stop != r.stop {
                    viol.push(format!("llg_commit_token({t}) = {:?}/{} but Constraint::commit_token = {:?}/{}", ctoks, cres.is_stop, r.ff_tokens, r.stop));
                }
            }
            (Err(_), -1) => {}
            (a, b) => viol.push(format!("llg_commit_token({t}) returned {b} but the Rust API returned ok={}", a.is_ok())),
        }
        out.case(tagged("guard", vec![int(v), int(t)]), tagged("ok", vec![int(if (t as usize) < v { t as i64 } else { -1 })]), false);
        if rr.is_err() {
            break;
        }
        hist.push(t);
    }
    unsafe {
        llg_free_constraint(cc);
        llg_free_tokenizer(tok);
    }
    for x in viol {
        out.violation(&x, format!("vocab_size={v} eos={eos}\n--- lark ---\n{lark}"));
    }
    out.count("constraint_sessions", 1);
    out.count(&format!("vocab_mod32_{}", v % 32), 1);
}

pub fn matcher_case(rng: &mut Rng, out: &mut Out) {
    let g = gen_gram(rng);
    let size = boundary_size(rng, 3).max(24);
    let (mut ws, eos) = sized_vocab(rng, size);
    let v = ws.len();
    let lark = g.to_lark();
    // half of the cases with a canonical tokenizer on both sides (only then are there fast-forward tokens)
    let canonical = rng.chance(1, 2);
    let extra_eos = second_eos(rng, &mut ws, eos);
    let env = make_env2(&ws, eos, extra_eos, canonical);
    let Ok(mut rm) = new_matcher(&env, &lark, &[]) else { return };
    let trie_box: Box<llguidance::toktrie::TokTrie> = Box::new(env.tok_trie().clone());
    let trie_ptr: *const llguidance::toktrie::TokTrie = if canonical { &*trie_box as *const _ } else { std::ptr::null() };
    let tok = match extra_eos {
        Some(x) => {
            out.count("sessions_with_second_eos", 1);
            c_tokenizer_v2(&ws, eos, &[x], trie_ptr)
        }
        None => c_tokenizer_with(&ws, eos, trie_ptr),
    };
    let init = c_init(tok);
    let ctype = CString::new("lark").unwrap();
    let clark = CString::new(lark.clone()).unwrap();
    let cm = unsafe { llg_new_matcher(&init, ctype.as_ptr(), clark.as_ptr()) };
    let cmr = unsafe { &mut *cm };
    let n_elts = v.div_ceil(32);
    let mut viol: Vec<String> = vec![];
    let mut hist: Vec<u32> = vec![];
    if llg_matcher_get_mask_byte_size(cmr) != n_elts * 4 {
        viol.push(format!("llg_matcher_get_mask_byte_size = {} for vocab {v}", llg_matcher_get_mask_byte_size(cmr)));
    }
    for _ in 0..rng.range(2, 8) {
        let rmask = rm.compute_mask_or_eos().ok();
        let rwords: Option<Vec<u32>> = rmask.as_ref().map(|m| m.as_slice()[..n_elts].to_vec());
        // compute_mask_into with the right and with wrong lengths
        let delta: i64 = if rng.chance(1, 2) { 0 } else { *rng.pick(&[-4i64, 4, 8, -8]) };
        let blen = (n_elts as i64 * 4 + delta).max(0) as usize;
        let mut buf = vec![CANARY; blen / 4 + 4];
        let code = unsafe { llg_matcher_compute_mask_into(cmr, buf.as_mut_ptr().add(2), blen) };
        let dest = buf[2..2 + blen / 4].to_vec();
        if buf[0] != CANARY || buf[1] != CANARY || buf[blen / 4 + 2] != CANARY {
            viol.push("llg_matcher_compute_mask_into wrote outside the caller's buffer".to_string());
        }
        if delta == 0 {
            match (&rwords, code) {
                (Some(w), 0) => {
                    if &dest != w {
                        viol.push(format!("llg_matcher_compute_mask_into = {:x?} but Matcher::compute_mask_or_eos = {:x?} after {hist:?}", dest, w));
                    }
                }
                (None, -1) => {}
                (a, b) => viol.push(format!("llg_matcher_compute_mask_into returned {b}, Rust ok = {}", a.is_some())),
            }
            if let Some(m) = &rmask {
                out.case(
                    tagged("maskinto", vec![ints(m.as_slice()), int(v), int(n_elts), int(blen)]),
                    tagged("ok", vec![ints(&dest)]),
                    true,
                );
            }
        } else {
            if code == 0 {
                viol.push(format!("llg_matcher_compute_mask_into accepted a wrong buffer length {blen} (mask is {} bytes)", n_elts * 4));
            }
            if dest.iter().any(|&w| w != CANARY) {
                viol.push("llg_matcher_compute_mask_into wrote into a buffer of the wrong length".to_string());
            }
            if let Some(m) = &rmask {
                out.case(
                    tagged("maskinto", vec![ints(m.as_slice()), int(v), int(n_elts), int(blen)]),
                    tagged("sizeerr", vec![]),
                    true,
                );
            }
            // the size mismatch made the C matcher sticky-failed; the property's comparison ends here
            break;
        }
        if rm.is_stopped() {
            break;
        }
        // accepting / validate / commit / rollback in lock-step
        let ra = rm.is_accepting().ok();
        let ca = llg_matcher_is_accepting(cmr);
        if ra != Some(ca) && ra.is_some() {
            viol.push(format!("llg_matcher_is_accepting = {ca}, Rust = {ra:?}"));
        }
        let ml = rmask.as_ref().map(|m| mask_list(m)).unwrap_or_default();
        let seq: Vec<u32> = (0..rng.range(1, 3))
            .map(|_| if !ml.is_empty() && rng.chance(2, 3) { *rng.pick(&ml) } else { rng.below(v) as u32 })
            .collect();
        let rv = rm.validate_tokens(&seq).map(|n| n as i32).unwrap_or(-1);
        let cv = unsafe { llg_matcher_validate_tokens(cmr, seq.as_ptr(), seq.len()) };
        if rv != cv {
            viol.push(format!("llg_matcher_validate_tokens({seq:?}) = {cv}, Rust = {rv}"));
        }
        let Some(t) = pick_token(rng, &ml, &ws, eos) else { break };
        let rr = rm.consume_token(t).is_ok();
        let cr = llg_matcher_consume_token(cmr, t) == 0;
        if rr != cr {
            viol.push(format!("llg_matcher_consume_token({t}) ok = {cr}, Rust = {rr}"));
        }
        if !rr {
            break;
        }
        hist.push(t);
        if rm.is_stopped() != llg_matcher_is_stopped(cmr) {
            viol.push("llg_matcher_is_stopped differs from Matcher::is_stopped".to_string());
        }
        // ff tokens into a short buffer
        let ff = rm.compute_ff_tokens();
        // buffer lengths around the number of forced tokens
        let olen = if ff.is_empty() || rng.chance(1, 3) { rng.below(3) } else { (ff.len() + rng.below(3)).saturating_sub(1) };
        if !ff.is_empty() {
            out.count("ff_token_queries_nonempty", 1);
        }
        // a wide guard zone behind the buffer: an overrun is reported, not suffered
        let mut obuf = vec![CANARY; olen + 64];
        let n = unsafe { llg_matcher_compute_ff_tokens(cmr, obuf.as_mut_ptr(), olen) };
        let nn = (n.max(0) as usize).min(obuf.len());
        if obuf[olen..].iter().any(|&w| w != CANARY) {
            viol.push(format!("llg_matcher_compute_ff_tokens(len {olen}) wrote behind the caller's buffer; Rust ff tokens = {:?}", ff));
        } else if n != ff.len().min(olen) as i32 || obuf[..nn] != ff[..nn.min(ff.len())] {
            viol.push(format!("llg_matcher_compute_ff_tokens(len {olen}) = {n} {:?}, Rust = {:?}", &obuf[..olen], ff));
        }
        out.case(
            tagged("ffcopy", vec![ints(&ff), int(olen)]),
            tagged("ok", vec![ints(&obuf[..nn]), int(n)]),
            false,
        );
        if rng.chance(1, 4) && !hist.is_empty() {
            let k = rng.range(1, hist.len());
            let r1 = rm.rollback(k).is_ok();
            let c1 = llg_matcher_rollback(cmr, k) == 0;
            if r1 != c1 {
                viol.push(format!("llg_matcher_rollback({k}) ok = {c1}, Rust = {r1}"));
            }
            if r1 {
                let l = hist.len() - k;
                hist.truncate(l);
            } else {
                break;
            }
        }
    }
    unsafe {
        llg_free_matcher(cm);
        llg_free_tokenizer(tok);
    }
    drop(trie_box);
    if canonical {
        out.count("matcher_sessions_canonical", 1);
    }
    for x in viol {
        out.violation(&x, format!("vocab_size={v} eos={eos}\n--- lark ---\n{lark}"));
    }
    out.count("matcher_sessions", 1);
}

pub fn run(rng: &mut Rng, out: &mut Out, tier: &str) {
    let n = if tier == "thorough" { 8000 } else { 800 };
    for i in 0..n {
        let mut r = rng.fork(i as u64);
        constraint_case(&mut r, out);
        let mut r = rng.fork(0x2000_0000 + i as u64);
        matcher_case(&mut r, out);
    }
}
