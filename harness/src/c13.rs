//! C13: fast-forward bytes and tokens are genuinely forced and change nothing.
use crate::eng::*;
use crate::out::Out;
use crate::rng::Rng;
use crate::sexp::*;
use std::panic::{catch_unwind, AssertUnwindSafe};

/// grammars with fixed keys, constants and alternatives sharing prefixes
fn gen_forced_gram(rng: &mut Rng) -> Gram {
    let words = ["name", "nam", "age", "ab", "abc", "abd", "\"x\":", "{", "}", ",", "true", "tru", "null", "é1", "  "];
    let nlex = rng.range(3, 6);
    let mut lexemes: Vec<Rx> = vec![];
    for _ in 0..nlex {
        lexemes.push(match rng.below(5) {
            0 | 1 | 2 => Rx::Lit(rng.pick(&words).to_string()),
            3 => Rx::Rep(Box::new(Rx::Class(vec![(b'0', b'1')])), 1, Some(3)),
            _ => Rx::Cat(vec![Rx::Lit(rng.pick(&words).to_string()), Rx::Class(vec![(b'a', b'c')])]),
        });
    }
    let nnt = rng.range(1, 3);
    let mut rules = vec![];
    for i in 0..nnt {
        let mut alts: Vec<Vec<Sym>> = vec![];
        for _ in 0..rng.range(1, 3) {
            let len = rng.range(1, 4);
            let alt: Vec<Sym> = (0..len)
                .map(|k| if k > 0 && i + 1 < nnt && rng.chance(1, 4) { Sym::N(i + 1) } else { Sym::T(rng.below(nlex)) })
                .collect();
            alts.push(alt);
        }
        rules.push(alts);
    }
    Gram { rules, lexemes }
}

pub fn case(rng: &mut Rng, out: &mut Out) {
    let g = if rng.chance(2, 3) { gen_forced_gram(rng) } else { gen_gram(rng) };
    let lark = g.to_lark();
    // half of the multi-byte vocabularies are cut out of strings of the grammar: tokens then overlap
    // (a proper suffix of one token starts another), which is what token healing has to undo
    let (ws, eos) = if rng.chance(1, 4) {
        single_byte_vocab()
    } else {
        match if rng.chance(1, 2) { derived_vocab(rng, &lark, 40, false) } else { None } {
            Some(v) => v,
            None => gen_engine_vocab(rng, 40),
        }
    };
    let env_c = make_env(&ws, eos, true); // canonical: forcing on
    let (wb, eosb) = single_byte_vocab();
    let env_b = make_env(&wb, eosb, false); // byte-level reference engine
    let (Ok(mut m), Ok(mut mb)) = (new_matcher(&env_c, &lark, &[]), new_matcher(&env_b, &lark, &[])) else {
        out.count("grammar_rejected", 1);
        return;
    };
    let mut ops: Vec<Op> = vec![];
    let mut results: Vec<Sx> = vec![];
    let mut viol: Vec<String> = vec![];
    let mut hist_bytes: Vec<u8> = vec![];
    let mut forced_total = 0u64;
    let mut limit = false;
    let r = catch_unwind(AssertUnwindSafe(|| {
        for _ in 0..rng.range(2, 8) {
            // forced bytes
            let ff = m.compute_ff_bytes();
            if ff.len() > 5000 {
                limit = true;
                return;
            }
            ops.push(Op::FfBytes);
            results.push(tagged("ok", vec![hex(&ff)]));
            forced_total += ff.len() as u64;
            // every forced byte is the only byte the byte-level engine allows at that position
            {
                let mut c = mb.deep_clone();
                for (i, &b) in ff.iter().enumerate() {
                    match c.compute_mask() {
                        Ok(mask) => {
                            let ml = mask_list(&mask);
                            if ml != vec![b as u32] {
                                viol.push(format!(
                                    "forced byte #{i} {:?} after {:?}: the byte-level engine allows {:?}",
                                    b as char,
                                    String::from_utf8_lossy(&hist_bytes),
                                    ml.iter().map(|&t| if t < 256 { (t as u8 as char).to_string() } else { "EOS".into() }).collect::<Vec<_>>()
                                ));
                                break;
                            }
                        }
                        Err(_) => {
                            viol.push(format!("forced byte #{i} but the byte-level engine has stopped"));
                            break;
                        }
                    }
                    if c.consume_token(b as u32).is_err() {
                        viol.push(format!("forced byte {:?} rejected by the byte-level engine", b as char));
                        break;
                    }
                }
            }
            // fast-forward tokens: a prefix of the forced bytes, accepted, same reachable outputs
            let fft = m.compute_ff_tokens();
            ops.push(Op::FfTokens);
            results.push(tagged("ok", vec![ints(&fft)]));
            let dec: Vec<u8> = fft.iter().flat_map(|&t| ws[t as usize].clone()).collect();
            if !ff.starts_with(&dec) {
                viol.push(format!("ff tokens decode to {:?}, not a prefix of the forced bytes {:?}", String::from_utf8_lossy(&dec), String::from_utf8_lossy(&ff)));
            }
            // after the ff tokens the rest of the forced text is still pending, nothing lost or invented,
            // and every token the next mask offers agrees with that pending text
            if !fft.is_empty() {
                // consume_ff_tokens = compute_ff_tokens followed by committing them
                let mut cf = m.deep_clone();
                let took = cf.consume_ff_tokens();
                let mut one = m.deep_clone();
                let fine = fft.iter().all(|&t| one.consume_token(t).is_ok());
                if took != fft {
                    viol.push(format!("consume_ff_tokens returned {took:?} but compute_ff_tokens {fft:?}"));
                } else if fine && (cf.is_stopped() != one.is_stopped() || (!one.is_stopped() && cf.compute_ff_bytes() != one.compute_ff_bytes())
                    || (!one.is_stopped() && cf.compute_mask().ok().map(|v| mask_list(&v)) != one.compute_mask().ok().map(|v| mask_list(&v)))) {
                    viol.push(format!("the state after consume_ff_tokens differs from the state after committing {fft:?} one by one"));
                }
                let mut c = m.deep_clone();
                if fft.iter().all(|&t| c.consume_token(t).is_ok()) && !c.is_stopped() {
                    let pending = c.compute_ff_bytes();
                    let mut all = dec.clone();
                    all.extend_from_slice(&pending);
                    if ff.len() <= 5000 && !all.starts_with(&ff) && !ff.starts_with(&all) {
                        viol.push(format!(
                            "ff tokens {:?} plus the text still forced afterwards {:?} is not the forced text {:?}",
                            String::from_utf8_lossy(&dec), String::from_utf8_lossy(&pending), String::from_utf8_lossy(&ff)
                        ));
                    }
                    if let Ok(mk) = c.compute_mask() {
                        let c_fft = c.compute_ff_tokens();
                        if c_fft.is_empty() && !pending.is_empty() {
                            for t in mask_list(&mk) {
                                let tb = &ws[t as usize];
                                if t != eos && !(tb.starts_with(&pending) || pending.starts_with(tb)) {
                                    viol.push(format!(
                                        "token {:?} is offered although {:?} is still forced, after {:?}",
                                        String::from_utf8_lossy(tb), String::from_utf8_lossy(&pending), String::from_utf8_lossy(&hist_bytes)
                                    ));
                                    break;
                                }
                            }
                        }
                    }
                }
            }
            // mask: singleton on the first ff token while forcing
            let (rm, mask) = run_op(&mut m, &Op::Mask);
            ops.push(Op::Mask);
            results.push(rm);
            let Some(mask) = mask else { break };
            if let Some(&t0) = fft.first() {
                if mask != vec![t0] {
                    viol.push(format!("forcing token {t0} but the mask is {:?}", mask));
                }
            }
            // commit: the forced token, or a sampled one
            let t = match fft.first() {
                Some(&t0) => t0,
                None => match pick_token(rng, &mask, &ws, eos) {
                    Some(t) => t,
                    None => break,
                },
            };
            let (rc, _) = run_op(&mut m, &Op::Commit(t));
            let ok = rc.to_string() == "(ok)";
            ops.push(Op::Commit(t));
            results.push(rc);
            if !ok {
                if fft.first() == Some(&t) {
                    viol.push(format!("ff token {t} was rejected when committed"));
                }
                break;
            }
            if t == eos {
                break;
            }
            for &b in &ws[t as usize] {
                if mb.consume_token(b as u32).is_err() {
                    viol.push(format!("token {:?} accepted but its bytes are rejected byte-wise", ws[t as usize]));
                    return;
                }
                hist_bytes.push(b);
            }
            // same set of reachable outputs: same accepting flag and same allowed next bytes
            let a1 = m.is_accepting().unwrap_or(false);
            let a2 = mb.is_accepting().unwrap_or(false);
            if a1 != a2 {
                viol.push(format!("after {:?}: accepting {} vs byte-level {}", String::from_utf8_lossy(&hist_bytes), a1, a2));
            }
            let (rs, _) = run_op(&mut m, &Op::Stopped);
            let stopped = !rs.to_string().starts_with("(stop 0 0");
            ops.push(Op::Stopped);
            results.push(rs);
            if stopped {
                break;
            }
        }
    }));
    if r.is_err() {
        viol.push("panic escaped from the Matcher API".to_string());
    }
    if limit || is_resource_limit(&m) {
        out.count("resource_limit_sessions", 1);
        return;
    }
    let mut inp = vec![g.to_sx()];
    inp.extend(vocab_sx(&ws, eos));
    inp.push(tagged("canonical", vec![int(1)]));
    inp.push(tagged("ops", ops.iter().map(|o| o.to_sx()).collect()));
    let input = tagged("session", inp);
    for v in viol {
        out.violation(&v, format!("{}\n--- lark ---\n{}", input, lark));
    }
    out.count("sessions", 1);
    out.count("forced_bytes", forced_total);
    out.case(input, tagged("session", results), forced_total > 0);
}

/// process_prompt: returned prompt plus pending forced text = original prompt plus forced bytes
pub fn prompt_case(rng: &mut Rng, out: &mut Out) {
    use llguidance::api::TopLevelGrammar;
    use llguidance::toktrie::InferenceCapabilities;
    use llguidance::ParserFactory;
    let g = if rng.chance(2, 3) { gen_forced_gram(rng) } else { gen_gram(rng) };
    let lark = g.to_lark();
    let Some((ws, eos)) = derived_vocab(rng, &lark, 40, false) else { return };
    let env = make_env(&ws, eos, true);
    let Ok(mut m0) = new_matcher(&env, &lark, &[]) else { return };
    let forced = m0.compute_ff_bytes();
    if forced.len() > 2000 || m0.is_error() {
        return;
    }
    // a prompt: text over the grammar's alphabet, tokenised canonically
    let text: Vec<u8> = (0..rng.below(8)).map(|_| *rng.pick(b"abcdex01 ,:\"")).collect();
    let prompt = env.tokenize_bytes(&text);
    let Ok(mut f) = ParserFactory::new(&env, InferenceCapabilities::default(), &[]) else { return };
    f.quiet();
    let Ok(mut p) = f.create_parser(TopLevelGrammar::from_lark(lark.clone())) else { return };
    let r = catch_unwind(AssertUnwindSafe(|| {
        let new_prompt = p.process_prompt(prompt.clone());
        let pending = p.force_bytes();
        (new_prompt, pending)
    }));
    let Ok((new_prompt, pending)) = r else {
        out.violation("process_prompt panicked", format!("prompt {:?}\n{}", String::from_utf8_lossy(&text), lark));
        return;
    };
    let mut after: Vec<u8> = new_prompt.iter().flat_map(|&t| ws[t as usize].clone()).collect();
    after.extend_from_slice(&pending);
    let mut before = text.clone();
    before.extend_from_slice(&forced);
    if after != before {
        out.violation(
            &format!(
                "process_prompt lost or invented text: prompt {:?} + forced {:?} became prompt {:?} + pending {:?}",
                String::from_utf8_lossy(&text), String::from_utf8_lossy(&forced),
                String::from_utf8_lossy(&new_prompt.iter().flat_map(|&t| ws[t as usize].clone()).collect::<Vec<u8>>()), String::from_utf8_lossy(&pending)
            ),
            format!("vocab {:?}\n{}", ws.iter().skip(256).map(|w| String::from_utf8_lossy(w).to_string()).collect::<Vec<_>>(), lark),
        );
    }
    out.count("prompt_cases", 1);
}

pub fn run(rng: &mut Rng, out: &mut Out, tier: &str) {
    let n = if tier == "thorough" { 8000 } else { 800 };
    for i in 0..n {
        let mut r = rng.fork(i as u64);
        case(&mut r, out);
        let mut r = rng.fork(0x1300_0000 + i as u64);
        prompt_case(&mut r, out);
    }
}
