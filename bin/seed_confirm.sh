#!/bin/bash
# bin/seed_confirm.sh <Cxx>: confirm a seeded change in its scratch worktree /tmp/wt_<Cxx>:
# the demonstration passes on the unchanged tree and fails with patch.diff applied.
id=$1; wt=/tmp/wt_$id; sd=/tmp/seed_$id
cd $wt || exit 2
git checkout -- . ; rm -f parser/tests/seed_demo.rs
demo=$(ls $sd/demo/*.rs | head -1)
cp $demo parser/tests/seed_demo.rs
export CARGO_TARGET_DIR=$wt/target CARGO_NET_OFFLINE=true
timeout 3000 cargo test --offline -p llguidance --test seed_demo > /tmp/confirm_${id}_clean.txt 2>&1; rc1=$?
git apply $sd/patch.diff || { echo "$id: patch does not apply"; exit 2; }
timeout 3000 cargo test --offline -p llguidance --test seed_demo > /tmp/confirm_${id}_patched.txt 2>&1; rc2=$?
git checkout -- . ; rm -f parser/tests/seed_demo.rs
echo "$id: clean rc=$rc1 patched rc=$rc2 $( [ $rc1 = 0 ] && [ $rc2 != 0 ] && echo CONFIRMED || echo NOT-CONFIRMED )"
grep -E "test result" /tmp/confirm_${id}_clean.txt | tail -1; grep -E "test result|panicked" /tmp/confirm_${id}_patched.txt | tail -2 | cut -c1-200
