#!/usr/bin/env python3
"""show the first differing op of mismatching session cases: diffcase.py <outdir> [n]"""
import sys, re
def parse(s):
    toks = re.findall(r'\(|\)|[^\s()]+', s)
    pos = 0
    def go():
        nonlocal pos
        t = toks[pos]; pos += 1
        if t == '(':
            l = []
            while toks[pos] != ')':
                l.append(go())
            pos += 1
            return l
        return t
    return go()
def show(x):
    if isinstance(x, list): return '(' + ' '.join(show(y) for y in x) + ')'
    return x
d = sys.argv[1]; n = int(sys.argv[2]) if len(sys.argv) > 2 else 3
rd = lambda f: dict(l.rstrip('\n').split('\t', 1) for l in open(f'{d}/{f}') if '\t' in l)
cases, imp, mod = rd('cases.txt'), rd('impl.txt'), rd('model.txt')
bad = [k for k in imp if imp[k] != mod.get(k)]
print(len(bad), 'mismatches of', len(imp))
for k in bad[:n]:
    c = parse(cases[k]); i = parse(imp[k]); m = parse(mod[k])
    print('=== case', k)
    if c[0] == 'session':
        fields = {x[0]: x[1:] for x in c[1:]}
        print('grammar:', show(['grammar'] + fields['grammar']))
        voc = fields['vocab']
        ops = fields['ops']
        for j, op in enumerate(ops):
            a = i[1 + j] if 1 + j < len(i) else None
            b = m[1 + j] if 1 + j < len(m) else None
            if a != b:
                print('  history:', ' '.join(show(o) for o in ops[:j] if o[0] in ('commit', 'rollback', 'reset')))
                for o in ops[:j]:
                    if o[0] == 'commit': print('    tok', o[1], voc[int(o[1])])
                print('  first differing op', j, show(op))
                sa, sb = show(a), show(b)
                print('   impl :', sa[:400]); print('   model:', sb[:400])
                if a and b and isinstance(a, list) and len(a) > 1 and isinstance(a[1], list) and isinstance(b, list) and len(b) > 1 and isinstance(b[1], list):
                    A, B = set(a[1]), set(b[1])
                    print('   only impl :', [(t, voc[int(t)]) for t in sorted(A - B, key=int)][:20])
                    print('   only model:', [(t, voc[int(t)]) for t in sorted(B - A, key=int)][:20])
                break
    else:
        print(cases[k][:500]); print(imp[k][:500]); print(mod[k][:500])
