#!/usr/bin/env python3
"""Second, independent judge for C06: every (schema, output) pair sampled from the engine is
validated with python-jsonschema (Draft 2020-12, formats asserted).  Run with python3-vt.
Prints one JSON object: {"pairs": n, "failures": [{"schema":..., "output":..., "error":...}]}"""
import json, sys

def main():
    from jsonschema import Draft202012Validator, FormatChecker
    pairs = [json.loads(l) for l in open(sys.argv[1]) if l.strip()]
    fails = []
    fc = FormatChecker()
    for p in pairs:
        schema = json.loads(p["schema"])
        schema.pop("x-guidance", None)
        try:
            inst = json.loads(p["output"])
        except Exception as e:
            fails.append({"schema": p["schema"], "output": p["output"], "error": f"not JSON: {e}"})
            continue
        # floats: python reads 1.0 as float; jsonschema treats 1.0 as integer per the spec
        # python's re gives \d \w \s (and their complements) Unicode meaning on str patterns, JSON Schema
        # (ECMA-262) and the engine give them ASCII meaning: schemas with such patterns are left to the Rust validator
        def has_class_escape(x):
            if isinstance(x, dict):
                pat = x.get("pattern")
                if isinstance(pat, str) and any(c in pat for c in ("\\d", "\\w", "\\s", "\\D", "\\W", "\\S")):
                    return True
                # time / date-time: validators differ on leap seconds, offsets and lower-case t / z
                if x.get("format") in ("time", "date-time"):
                    return True
                return any(has_class_escape(v) for v in x.values())
            if isinstance(x, list):
                return any(has_class_escape(v) for v in x)
            return False
        if has_class_escape(schema):
            continue
        try:
            errs = sorted(Draft202012Validator(schema, format_checker=fc).iter_errors(inst), key=str)
        except Exception as e:
            continue  # the judge itself cannot handle the schema: not a verdict
        if errs:
            e = errs[0]
            # multipleOf on floats is computed in binary floating point by python-jsonschema:
            # not a verdict (the Rust validator in the harness uses exact decimals)
            if e.validator == "multipleOf" and isinstance(e.instance, float):
                continue
            # python's datetime has no year 0000 (RFC 3339 allows it): not a verdict
            if e.validator == "format" and isinstance(e.instance, str) and e.instance.startswith("0000-"):
                continue
            # time and date-time: validators differ on leap seconds and lower-case t / z; left to the Rust validator
            if e.validator == "format" and e.validator_value in ("time", "date-time"):
                continue
            # 29 February of a non-leap year is a known finding of its own (fixed inputs in the harness): not judged here
            if e.validator == "format" and isinstance(e.instance, str) and "-02-29" in e.instance:
                continue
            # python's re gives \d \w \s (and their complements) Unicode meaning on str patterns, JSON Schema
            # (ECMA-262) and the engine give them ASCII meaning: not a verdict (the Rust validator decides)
            if e.validator == "pattern" and isinstance(e.validator_value, str) and any(x in e.validator_value for x in ("\\d", "\\w", "\\s", "\\D", "\\W", "\\S")):
                continue
            fails.append({"schema": p["schema"], "output": p["output"], "error": e.message[:200]})
    print(json.dumps({"pairs": len(pairs), "failures": fails[:20], "n_failures": len(fails)}))

if __name__ == "__main__":
    main()
