#!/usr/bin/env python3
"""Translator: named constants and variant switches of /repo -> coq/Params.v (regenerated on every
run).  A numeric constant whose anchor is not found keeps its default with a warning; a variant
switch whose code shape is not recognised falls to the value under which the property theorem
does NOT go through, so that an unrecognised rewrite shows up as a broken proof obligation."""
import re, sys
from pathlib import Path
REPO = Path("/repo")
OUT = Path(__file__).resolve().parent.parent / "coq" / "Params.v"

def grab(path, pattern, default, name, warn):
    try:
        src = (REPO / path).read_text()
        m = re.search(pattern, src)
        if m:
            return int(m.group(1), 0)
    except Exception as e:
        warn.append(f"{name}: {e}")
    warn.append(f"{name}: anchor not found in {path}, default {default} kept")
    return default

def main():
    warn = []
    vals = {
        "PARENT_BITS": grab("toktrie/src/toktree.rs", r"const PARENT_BITS: u32 = (\d+);", 10, "PARENT_BITS", warn),
        "SVOB_BITS": grab("toktrie/src/svob.rs", r"const BITS: usize = (\d+);", 32, "SVOB_BITS", warn),
        "NO_TOKEN_P": grab("toktrie/src/toktree.rs", r"const NO_TOKEN: u32 = (0x[0-9a-fA-F]+|\d+);", 0xffffff, "NO_TOKEN", warn),
        "MARKER_BYTE": grab("toktrie/src/toktree.rs", r"SPECIAL_TOKEN_MARKER: u8 = (0x[0-9a-fA-F]+|\d+);", 255, "MARKER", warn),
        "CHOP_LOOKBACK": grab("toktrie/src/toktree.rs", r"let max_token_lookback = (\d+);", 4, "CHOP_LOOKBACK", warn),
        "REPEAT_K": grab("parser/src/grammar_builder.rs", r"const K: usize = (\d+);", 4, "REPEAT_K", warn),
    }
    # does ParserState::rollback reset the mask cache?
    try:
        src = (REPO / "parser/src/earley/parser.rs").read_text()
        m = re.search(r"pub fn rollback\(&mut self, n_bytes: usize\).*?\n    }\n", src, re.S)
        body = m.group(0) if m else ""
        clears = bool(re.search(r"self\.bias_cache\s*=\s*None", body))
        if not m:
            warn.append("rollback body not found; ROLLBACK_CLEARS_CACHE default false")
    except Exception as e:
        clears = False
        warn.append(f"rollback: {e}")
    try:
        src = (REPO / "parser/src/ffi_par.rs").read_text()
        m = re.search(r"num_copied\s*=\s*std::cmp::min\(([^,]+),\s*mask_elts\)", src)
        expr = m.group(1).strip() if m else ""
        # anything but the word count of the mask is treated as "not the word count": the theorem of
        # C17 is stated for the word count and does not go through otherwise
        uses_bitlen = (expr != "m.as_slice().len()")
        if not m:
            warn.append("ffi_par num_copied expression not found; PAR_COPY_USES_BITLEN default true")
            uses_bitlen = True
    except Exception as e:
        uses_bitlen = True
        warn.append(f"ffi_par: {e}")
    try:
        src = (REPO / "parser/src/json/numeric.rs").read_text()
        m = re.search(r"pub fn lcm\(.*?\n    }\n(.*?pub fn checked_lcm\(.*?\n    }\n)?", src, re.S)
        body = m.group(0) if m else ""
        lcm_checked = ("checked_mul" in body) and not re.search(r"self\.coef \* 10u32\.pow", body)
        if not m:
            warn.append("Decimal::lcm not found; LCM_CHECKED default false")
    except Exception as e:
        lcm_checked = False
        warn.append(f"lcm: {e}")
    try:
        src = (REPO / "parser/src/json/compiler.rs").read_text()
        m = re.search(r"fn signed_multiple_of_ast\(.*?\n}\n", src, re.S)
        body = re.sub(r"\s+", " ", m.group(0)) if m else ""
        mult_guard = all(x in body for x in [
            "10u64 .checked_pow(exp)", ".checked_mul(9)", ".checked_add(coef as u64 * 10)",
            "if !matches!(max_remainder, Some(v) if v <= u32::MAX as u64) { bail!("])
        if not m:
            warn.append("signed_multiple_of_ast not found; MULTIPLE_OF_GUARD default false")
    except Exception as e:
        mult_guard = False
        warn.append(f"multipleOf guard: {e}")
    # the byte-level alphabet of the HuggingFace adapter: code points that stand for themselves
    self_ranges = []
    try:
        src = (REPO / "toktrie_hf_tokenizers/src/lib.rs").read_text()
        m = re.search(r"fn is_self_mapped\(c: char\) -> bool \{\s*matches!\(c,(.*?)\)\s*\}", src, re.S)
        if m:
            def cp(t):
                t = t.strip().strip("'")
                mu = re.fullmatch(r"\\u\{([0-9a-fA-F]+)\}", t)
                return int(mu.group(1), 16) if mu else (ord(t) if len(t) == 1 else None)
            for part in m.group(1).split("|"):
                lo, hi = part.split("..=")
                lo, hi = cp(lo), cp(hi)
                if lo is None or hi is None:
                    raise ValueError(part)
                self_ranges.append((lo, hi))
        else:
            warn.append("is_self_mapped not found; SELF_MAPPED_RANGES empty")
    except Exception as e:
        self_ranges = []
        warn.append(f"is_self_mapped: {e}")
    # lark/compiler.rs Atom::Not: is the complement intersected with the marker-free strings?
    try:
        src = (REPO / "parser/src/lark/compiler.rs").read_text()
        m = re.search(r"Atom::Not\(inner\) => \{(.*?)\n            \}", src, re.S)
        body = re.sub(r"\s+", " ", m.group(1)) if m else ""
        not_guard = all(x in body for x in [
            "let not = self.builder.regex.not(id);", "vec![u32::MAX; 8]", "TokTrie::SPECIAL_TOKEN_MARKER as usize",
            "no_marker[marker / 32] &= !(1 << (marker % 32));", "RegexAst::ByteSet(no_marker)",
            "Ok(self.builder.regex.and(vec![not, text]))"])
        if not m:
            warn.append("Atom::Not arm not found; LARK_NOT_EXCLUDES_MARKER default false")
    except Exception as e:
        not_guard = False
        warn.append(f"Atom::Not: {e}")
    # earley/grammar.rs ParametricNullableCtx::dnf: is the constant `true` under a negation the empty disjunction?
    # (shape: the first two arms of the match in fn dnf; anything else falls to the variant the theorem refutes)
    try:
        src = (REPO / "parser/src/earley/grammar.rs").read_text()
        m = re.search(r"fn dnf\(&mut self, cond: &ParamCond, neg: bool\) -> Result<Dnf> \{\s*let r = match cond \{(.*?)ParamCond::NE", src, re.S)
        arms = re.sub(r"//[^\n]*", "", m.group(1)) if m else ""
        arms = re.sub(r"\s+", " ", arms).strip()
        not_true_false = arms == "ParamCond::True if neg => vec![], ParamCond::True => vec![self.clauses.insert(vec![])],"
        if not m:
            warn.append("fn dnf not found; NOT_TRUE_IS_FALSE default false")
    except Exception as e:
        not_true_false = False
        warn.append(f"fn dnf: {e}")
    lines = ["(* Params.v — GENERATED by bin/gen_params.py from /repo on every run; do not edit *)",
             "From Coq Require Import NArith List.", "Import ListNotations.", "Open Scope N_scope."]
    for k, v in vals.items():
        lines.append(f"Definition {k} : N := {v}.")
    lines.append(f"Definition ROLLBACK_CLEARS_CACHE : bool := {'true' if clears else 'false'}.")
    lines.append(f"Definition LCM_CHECKED : bool := {'true' if lcm_checked else 'false'}.")
    lines.append(f"Definition MULTIPLE_OF_GUARD : bool := {'true' if mult_guard else 'false'}.")
    lines.append("Definition SELF_MAPPED_RANGES : list (N * N) := [" + "; ".join(f"({a}, {b})" for a, b in self_ranges) + "]%list.")
    lines.append(f"Definition LARK_NOT_EXCLUDES_MARKER : bool := {'true' if not_guard else 'false'}.")
    lines.append(f"Definition NOT_TRUE_IS_FALSE : bool := {'true' if not_true_false else 'false'}.")
    lines.append(f"Definition PAR_COPY_USES_BITLEN : bool := {'true' if uses_bitlen else 'false'}.")
    text = "\n".join(lines) + "\n"
    if not OUT.exists() or OUT.read_text() != text:
        OUT.write_text(text)
        print("Params.v regenerated")
    else:
        print("Params.v unchanged")
    for w in warn:
        print("warning:", w)

if __name__ == "__main__":
    main()
