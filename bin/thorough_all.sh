#!/bin/sh
# runs the thorough tier of every check in turn (used through `vp run`, i.e. in a snapshot of /verif);
# evidence of these runs goes to out/thorough-evidence, not to evidence/
cd "$(dirname "$0")/.."
bin/setup
export VERIF_EVIDENCE_DIR="$(pwd)/out/thorough-evidence"
for p in C01 C02 C03 C04 C05 C06 C07 C08 C09 C10 C11 C12 C13 C14 C15 C16 C17 C18 C19 C20; do
  /usr/bin/time -f "$p wall=%es maxrss=%MKB" bin/check $p --tier thorough 2>&1 | tail -4 | cut -c1-300
done
echo THOROUGH-ALLDONE
