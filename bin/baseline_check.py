#!/usr/bin/env python3
"""Runs the repository's test-suite (guard OFF) and checks every test of BASELINE.json's stable_pass passes."""
import json, re, subprocess, sys
base = json.load(open('/root/.vp/BASELINE.json'))
want = set(base['stable_pass'])
p = subprocess.run("cd /repo && cargo nextest run --workspace --no-fail-fast --test-threads 8 --offline 2>&1",
                   shell=True, stdout=subprocess.PIPE)
out = p.stdout.decode('utf-8', 'replace')
passed = set()
for m in re.finditer(r"^\s+PASS \[[^\]]*\]\s+\(\s*\d+/\d+\)\s+(\S+)\s+(\S+)", out, re.M):
    passed.add(f"{m.group(1)}::{m.group(2)}")
    passed.add(m.group(2))
missing = [t for t in want if t not in passed and t.split('::', 1)[-1] not in passed]
print(f"stable_pass tests: {len(want)}; passing now: {len(want) - len(missing)}")
for t in missing[:20]:
    print("NOT PASSING:", t)
open('/tmp/baseline_out.txt', 'w').write(out)
sys.exit(1 if missing else 0)
