#!/usr/bin/env python3
"""Run registered checks against a seeded change:  bin/seed_eval.py <seeded-dir-name> [props...]
Applies /verif/seeded/<name>/patch.diff to /repo, runs `bin/check <prop>` for the given properties
(default: the seed's own property), records which checks report a violation, and ALWAYS restores
/repo (git checkout -- .) and Params.v afterwards.  Evidence of these runs goes to out/seeded-evidence
(never to /verif/evidence)."""
import json, os, subprocess, sys, time
from pathlib import Path

VERIF = Path(__file__).resolve().parent.parent
REPO = Path("/repo")

def sh(cmd, **kw):
    p = subprocess.run(cmd, stdout=subprocess.PIPE, stderr=subprocess.STDOUT, text=True, **kw)
    return p.returncode, p.stdout

def main():
    name = sys.argv[1]
    d = VERIF / "seeded" / name
    meta = json.loads((d / "meta.json").read_text())
    props = sys.argv[2:] or [meta["property"]]
    rc, o = sh(["git", "-C", str(REPO), "status", "--porcelain"])
    if o.strip():
        print("refusing: /repo has uncommitted changes:\n" + o)
        return 2
    rc, o = sh(["git", "-C", str(REPO), "apply", str(d / "patch.diff")])
    if rc != 0:
        print("patch does not apply:\n" + o)
        return 2
    results = {}
    env = dict(os.environ, VERIF_EVIDENCE_DIR=str(VERIF / "out" / "seeded-evidence"), VERIF_OUT_SUFFIX="-seeded")
    try:
        for p in props:
            t0 = time.time()
            rc, o = sh([sys.executable, str(VERIF / "bin" / "check"), p], env=env, timeout=3600)
            lines = [l for l in o.splitlines() if l.startswith("VIOLATION") or l.startswith("  ")]
            results[p] = {"rc": rc, "detected": rc != 0, "wall_s": round(time.time() - t0, 1),
                          "violations": lines[:12]}
            print(f"{name} / {p}: rc={rc} ({results[p]['wall_s']}s)")
            for l in lines[:6]:
                print("   ", l[:220])
    finally:
        sh(["git", "-C", str(REPO), "checkout", "--", "."])
        sh([sys.executable, str(VERIF / "bin" / "gen_params.py")])
    rf = d / "results.json"
    old = json.loads(rf.read_text()) if rf.exists() else {}
    old.update(results)
    rf.write_text(json.dumps(old, indent=1))
    rc, o = sh(["git", "-C", str(REPO), "status", "--porcelain"])
    print("repo restored:", "clean" if not o.strip() else o)
    return 0

if __name__ == "__main__":
    sys.exit(main())
