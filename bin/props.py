"""Registry of properties: Coq theorems expected in Properties/Cnn.v, the correspondence
runner, how cases count as non-trivial, trusted-base notes."""
PROPS = {
    "C16": {
        "runner": "Run16",
        "theorems": ["C16_walk_equals_per_token_test", "C16_walk_restores_stack",
                     "C16_no_id_at_or_above_vocab", "C16_builder_stores_vocabulary",
                     "C16_node_packing_roundtrip",
                     "C16_set_algebra_bit", "C16_set_algebra_range", "C16_set_algebra_negated",
                     "C16_set_algebra_or", "C16_set_algebra_and", "C16_set_algebra_or_minus",
                     "C16_to_list_sorted_members", "C16_first_bit_set"],
        "rule": "trie cases: random vocabulary (duplicates, empty entries, prefix chains, long runs, "
                "special-marker tokens, sizes around multiples of 32) x random byte DFA x pre-pushed stack x "
                "start prefixes; svob cases: random op sequences on 3 registers around word boundaries. "
                "distinct = distinct case text; non-trivial = every trie case, svob cases where some vector "
                "is neither empty nor full",
        "trusted_base": ["modelled, not verified: toktrie/src/{svob,toktree,recognizer}.rs "
                         "(builder arena as a tree, flattened walk as list recursion with skip counter)"],
        "assumptions": ["the per-token oracle in the harness (DFA run) is the naive semantics"],
        "level_text": "Theorems for all vocabularies / acceptors / stacks / masks: the flattened-trie walk equals the per-token test, "
                      "restores the recogniser stack, never leaves an id >= vocab; builder stores exactly the vocabulary; "
                      "SimpleVob operations are set algebra. Tied to toktrie by running the extracted model and the "
                      "implementation on the same random vocabularies, DFAs and op sequences every run.",
        "level_note": "Model is hand-written (coq/Svob.v, coq/Trie.v); Rust code is modelled, not verified; assurance = "
                      "min(theorems, correspondence). Tokenizer-adapter clause: see DESIGN.md.",
    },
}
