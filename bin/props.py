"""Registry of properties: Coq theorems expected in Properties/Cnn.v, the correspondence
runner, how cases count as non-trivial, trusted-base notes."""
PROPS = {
    "C16": {
        "runner": "Run16",
        "theorems": ["C16_walk_equals_per_token_test", "C16_walk_restores_stack",
                     "C16_no_id_at_or_above_vocab", "C16_builder_stores_vocabulary",
                     "C16_node_packing_roundtrip",
                     "C16_set_algebra_bit", "C16_set_algebra_range", "C16_set_algebra_negated",
                     "C16_set_algebra_or", "C16_set_algebra_and", "C16_set_algebra_or_minus",
                     "C16_to_list_sorted_members", "C16_first_bit_set",
                     "C16_byte_level_entry_bytes", "C16_byte_level_spelling_unique", "C16_byte_fallback_hex"],
        "rule": "TokTrie lookup and decoding functions (prefix_token_id, all_prefixes, all_subtokens, has_extensions, token_id_at_bytes, decode / decode_ext / decode_raw / decode_raw_to_decode, special-token lookups, eos and singleton sets, all_tokens, sorted_tokens) against naive definitions over the word list (implementation-only); trie cases: random vocabulary (duplicates, empty entries, prefix chains, long runs, "
                "special-marker tokens, sizes around multiples of 32) x random byte DFA x pre-pushed stack x "
                "start prefixes; svob cases: random op sequences on 3 registers around word boundaries; "
                "tokenizer descriptions synthesised offline: byte-level BPE tokenizer.json (all 256 alphabet entries in random order, random "
                "merge tables, special / look-alike / plain added tokens), byte-fallback tokenizer.json (<0xNN> for every byte, pieces with "
                "the replaced space character, Prepend normaliser, specials), tiktoken rank tables (shuffled ranks, holes, specials, "
                "vocabulary-size override): every token's bytes against what the entry stands for (the GPT-2 table written independently "
                "in the harness) and against the model; tokenise-then-concatenate returns the text (random bytes incl. invalid UTF-8 for "
                "byte-level and tiktoken, valid UTF-8 for byte-fallback). "
                "distinct = distinct case text; non-trivial = every trie case, svob cases where some vector "
                "is neither empty nor full",
        "trusted_base": ["modelled, not verified: toktrie/src/{svob,toktree,recognizer}.rs "
                         "(builder arena as a tree, flattened walk as list recursion with skip counter)",
                         "modelled, not verified: toktrie_hf_tokenizers/src/lib.rs build_char_map / from_tokenizer entry decoding and "
                         "toktrie_tiktoken/src/lib.rs TikTokenBPE::new slot filling (coq/Tokenizers.v; self-mapped ranges translated from "
                         "the source); the tokenizers / tiktoken-rs libraries themselves (JSON parsing, BPE encoding) are external and only "
                         "exercised by the round-trip checks"],
        "assumptions": ["the per-token oracle in the harness (DFA run) is the naive semantics"],
        "level_text": "Theorems for all vocabularies / acceptors / stacks / masks: the flattened-trie walk equals the per-token test, "
                      "restores the recogniser stack, never leaves an id >= vocab; builder stores exactly the vocabulary; "
                      "SimpleVob operations are set algebra; the byte-level alphabet (ranges read from the adapter) is a bijection, so every "
                      "byte string has exactly one spelling and an entry stands for exactly the bytes it spells; <0xNN> is the byte NN. "
                      "Tied to toktrie and the adapters by running the extracted model and the implementation on the same random "
                      "vocabularies, DFAs, op sequences and synthesised tokenizer descriptions every run.",
        "level_note": "Model is hand-written (coq/Svob.v, coq/Trie.v); Rust code is modelled, not verified; assurance = "
                      "min(theorems, correspondence). Tokenizer descriptions: the entry-to-bytes maps are modelled and proved; 'tokenising text "
                      "and concatenating the token bytes returns the text' is checked on the implementation only (it runs through the "
                      "external tokenizers / tiktoken-rs encoders).",
    },
    "C17": {
        "runner": "RunFfi",
        "theorems": ["C17_par_copy_reads_inside_mask", "C17_par_copy_fills_buffer", "C17_par_copy_bits",
                     "C17_par_copy_no_id_above_vocab", "C17_par_copy_stop_bit", "C17_mask_into_exact",
                     "C17_mask_into_rejects_other_sizes", "C17_ff_copy_in_bounds", "C17_bit_length_variant_refuted"],
        "rule": "random CFG x vocabulary sizes around multiples of 32 x histories; at every step the C functions "
                "(llg_compute_mask, llg_par_compute_mask into a canary-guarded buffer of 0..mask+3 words, llg_commit_token, "
                "llg_matcher_*) are called in lock-step with the Rust API; model cases = the word arithmetic "
                "(par_copy / mask_into / ff_copy / token guard) on the very masks the engine produced. "
                "non-trivial = destination length > 0 or a real mask",
        "trusted_base": ["modelled, not verified: parser/src/ffi_par.rs:54-91, ffi.rs mask_into / ff_tokens copies; "
                         "the translator bin/gen_params.py maps the num_copied expression of ffi_par.rs to PAR_COPY_USES_BITLEN",
                         "not exhibited by the model: the physical out-of-bounds access (observed only through garbage bits / canaries)"],
        "assumptions": ["Rust API (Constraint / Matcher) is the reference for what the C API must return"],
        "level_text": "Theorems for every mask, vocabulary size, destination length, stop flag: the parallel mask copy reads only "
                      "inside the engine's mask, fills exactly the caller's buffer, sets only bits of real token ids (+EOS on stop); "
                      "compute_mask_into accepts exactly the advertised size. The expression that decides how many words are copied "
                      "is re-extracted from ffi_par.rs on every run (translator), and C functions are compared with the Rust API "
                      "in lock-step on random grammars/histories.",
        "level_note": "The theorem is about the word arithmetic (model); the actual memory access is not exhibited by the model. "
                      "C-vs-Rust agreement of commit/validate/rollback/ff tokens is differential (implementation-only predicate), not proved.",
    },
    "C09": {
        "runner": "Run09",
        "spec_case_heads": ["range", "objsizes", "repeat ", "rxrepeat"],
        "theorems": ["C09_rule_repetition_bounded", "C09_rule_repetition_unbounded", "C09_rule_repetition_language",
                     "C09_rule_repetition_language_unbounded", "C09_nested_repetition", "C09_optional", "C09_star",
                     "C09_plus", "C09_regex_repetition", "C09_count_set_decides",
                     "C09_object_sizes_exact", "C09_object_sizes_rejected_iff_empty"],
        "rule": "exhaustive 0<=lo<=hi<=40 (thorough: 130 at rule level, a band elsewhere) plus {lo,} at six levels "
                "(rule, grouped rule, terminal, regex, nested rule, rule in context), counts 0..hi+3, through the "
                "single-byte Matcher; JSON minItems/maxItems, minLength/maxLength (ASCII, 2/3/4-byte characters, escapes), "
                "min/maxProperties for 0<=lo<=hi<=14 (thorough 40); size bounds next to 0-3 required and 0-3 optional declared "
                "properties / prefixItems, open and closed additionalProperties. Model side: counts admitted by the model of "
                "grammar_builder::repeat with K read from the source, and the regex Rep semantics. "
                "distinct = distinct (lo,hi,bound,kind); every case is non-trivial",
        "trusted_base": ["modelled, not verified: parser/src/grammar_builder.rs select/join/optional/star/plus/at_most/"
                         "repeat_exact/at_least/repeat as expression trees (memo caches at_most_cache/repeat_exact_cache "
                         "not modelled: a wrong cache key shows up in the per-count comparison against the implementation)",
                         "modelled, not verified: the member-count arithmetic of schema.rs mk_object_schema and json/compiler.rs "
                         "gen_json_object next to required declared members (coq/ObjCount.v); the other JSON size keywords are "
                         "checked against the plain range specification (implementation-only predicate)"],
        "assumptions": ["the element literal is non-empty and unambiguous, so counting copies is well defined"],
        "level_text": "Theorems for every lo<=hi, every K>=2 and every element language: the factorised encodings of "
                      "x{lo,hi}, x{lo,}, x?, x*, x+ admit exactly the named counts, also nested; regex-level repetition via the "
                      "derivative matcher. K is re-read from grammar_builder.rs each run. The implementation is compared "
                      "count by count with the model (exhaustive triangle). Objects with r required declared members: the counts the "
                      "compiled sequence admits are exactly the sizes within min/maxProperties (exactly r when additionalProperties is "
                      "closed), and the schema is rejected exactly when no size fits.",
        "level_note": "Model is hand-written from grammar_builder.rs; Rust not verified. JSON length keywords and array sizes: exhaustive "
                      "differential check only (no theorem); object sizes: theorem about the count arithmetic, tied by the comparison.",
    },
    "C04": {
        "runner": "Run04",
        "spec_case_heads": ["rxcheck"],
        "theorems": ["C04_match_iff_language", "C04_residual_is_left_quotient", "C04_derivative_step",
                     "C04_normalisation_preserves_language", "C04_nullable_iff_empty_string", "C04_nonempty_has_witness",
                     "C04_nonempty_exact_without_and_not", "C04_forced_end", "C04_literal",
                     "C04_substring", "C04_substring_chars"],
        "rule": "random regex ASTs (literals incl. multi-byte characters, classes, concatenation, |, ?, *, +, {m,n}, &, ~) "
                "printed as /regex/ or as Lark terminal expressions; terminals with the i flag on strings and regexes against "
                "the expression with both cases written out; strings = mask-guided walks on the implementation "
                "(members), their mutations (incl. one letter in the other case), random strings; single-byte and multi-byte vocabularies (tokens ending inside "
                "a character). Verdicts (longest viable prefix, complete acceptance, allowed-token set after a prefix) "
                "come from the extracted denotational matcher. distinct = distinct case text; non-trivial = all",
        "trusted_base": ["modelled, not verified: the regex engine is the external crate derivre; its contract is the textbook "
                         "semantics of coq/Regex.v, validated here on every run",
                         "harness printing of the AST to Lark / Rust-regex syntax; regex-syntax parsing is exercised, not modelled",
                         "%regex substring and the case-insensitive flag are not covered by a theorem (see DESIGN.md)"],
        "assumptions": ["Unicode classes are not generated (ASCII classes + multi-byte literals only)"],
        "level_text": "Theorems: the derivative matcher decides the denotation; residual = left quotient (so 'allowed token' = "
                      "'some completion exists'); normalisation, nullability, emptiness and forced-end are exact/sound. "
                      "The implementation is compared with that specification on complete strings, viable prefixes and masks.",
        "level_note": "The theorem that the llguidance lexer+parser wrapped around a single lexeme realise exactly this "
                      "specification is part of the engine refinement (EngineProofs, in progress); until then that step rests on "
                      "the correspondence check.",
    },
    "C05": {
        "runner": "Run05",
        "spec_case_heads": ["cfg", "pexpr", "pcond"],
        "theorems": ["C05_accepts_only_derivable", "C05_accepts_every_derivable", "C05_viable_prefixes",
                     "C05_nullable_exact", "C05_allowed_lexemes_exact",
                     "C05_param_incr_field", "C05_param_incr_other_bits", "C05_param_decr_field", "C05_param_decr_other_bits",
                     "C05_param_other_field_untouched", "C05_param_condition_dnf_exact"],
        "rule": "random CFGs (empty productions, left/right/mutual recursion, ambiguity) over non-confusable terminals "
                "(literals with pairwise different first bytes, single-byte classes); every byte string over the grammar's "
                "alphabet up to length 5 (thorough 7) explored as a DFS through the implementation's Matcher (pruned at "
                "rejected prefixes, each rejected prefix still judged); complete-string verdicts compared with the "
                "independent recogniser of coq/CfgSpec.v (fixpoint over spans, no Earley). Rule-level x{lo,hi} with spreads up "
                "to 24 against the naive expansion. Parametric grammars generated from their own syntax tree (bit ranges, "
                "incr/decr/set_bit/clear_bit/bit_and/bit_or/constants, every documented condition, saturating counters on "
                "ranges above bit 0): masks and acceptance against an independent evaluator of docs/parametric.md "
                "(implementation-only), and ParamExpr::eval / ParamCond::eval called directly against coq/Param.v on field "
                "boundary values. "
                "distinct = distinct grammar+string set; non-trivial = grammars with at least one accepted string",
        "trusted_base": ["modelled, not verified: parser/src/earley/parser.rs scan / process_agenda / just_push_row, "
                         "grammar.rs nullable computation (as coq/Earley.v)",
                         "the byte-level glue (greedy lexer over non-confusable terminals = unique segmentation) is not proved; "
                         "it is covered by the correspondence with CfgSpec (byte level) and by the engine sessions of C01/C02",
                         "modelled, not verified: ParamRef / ParamExpr / ParamCond evaluation and ParametricNullableCtx::dnf "
                         "(coq/Param.v, fields written arithmetically; the variant of dnf for `true` under negation is read from "
                         "grammar.rs by bin/gen_params.py); the Earley model itself has no parametric rules: predictions filtered by "
                         "conditions are covered by the implementation-only evaluator",
                         "{m,n} on rules is not in the Earley model (C09 covers repetition)"],
        "assumptions": ["the front end wraps the start symbol so that it occurs on no right-hand side (wf_grammar); "
                        "checked on the implementation by the accepting-state comparisons"],
        "level_text": "Theorems for every well-formed grammar and every lexeme sequence: the single-pass Earley recogniser accepts "
                      "exactly the derivable sequences (soundness and completeness, incl. nullable symbols and the "
                      "completion-only-for-earlier-rows rule), continues exactly on viable prefixes, and offers the lexer exactly "
                      "the lexemes after some dot. The implementation is compared byte-for-byte with an independent CFG recogniser "
                      "on exhaustive small strings. Parametric rules: incr / decr act on their own field only (saturating, no carry into "
                      "neighbouring fields, no wrap-around), and the DNF that combines the conditions for deriving the empty string "
                      "evaluates like the condition for every parameter value (variant read from the source).",
        "level_note": "Partial: lexeme level proved; bytes-to-lexemes glue and the interplay of parametric conditions with prediction "
                      "rest on the correspondence check. Known finding: empty-string conditions cross a parameter-changing call unsubstituted.",
    },
    "C10": {
        "runner": "RunEngine",
        "theorems": ["C10_sliced_mask_equals_unsliced", "C10_slice_contribution", "C10_unsound_containment_breaks_it"],
        "rule": "JSON schemas (strings with maxLength 5/10/12/31, patterns, formats, enums sharing prefixes with long tokens, "
                "arrays, objects) and Lark grammars with bounded string-like terminals; vocabulary with tokens of many lengths "
                "(runs of 9..40 characters, multi-byte characters); three engines per case: no slices, general_slices, a random "
                "valid slice list; masks compared bit for bit at every state of a mask-guided walk; slices_applied measured. "
                "Lark sessions of the sliced engine are replayed on the (unsliced) model. non-trivial = Lark sessions replayed on the model",
        "trusted_base": ["modelled, not verified: slicer.rs TokenizerSlice::apply / SlicedBiasComputer::compute_bias as a set-level "
                         "decision structure (coq/Slicer.v); the containment test (derivre is_contained_in_prefixes / check_subsume) "
                         "is an oracle assumed sound; construction of the slice tries (filter) is covered by C16",
                         "the tie of Slicer.v to the code is structural only (no executable correspondence for the oracle); the "
                         "behavioural tie is sliced implementation = unsliced implementation = unsliced model"],
        "assumptions": ["oracle_sound: a slice accepted by the containment test consists of tokens the engine accepts"],
        "level_text": "Theorem for every slice tree and every sound containment oracle: the sliced mask equals the unsliced one bit "
                      "for bit (and a witness that soundness is necessary). On the implementation, masks of engines with default, "
                      "random and no slices are compared at every visited state, and the sliced engine is compared with the model.",
        "level_note": "Proof modulo the containment oracle (external crate). The gate subsume_possible and the lazy-lexeme "
                      "exclusion are not proved to imply oracle soundness; a wrong gate shows up as a mask difference in the harness.",
    },
    "C01": {
        "runner": "RunEngine",
        "theorems": ["C01_mask_is_per_token_test", "C01_mask_iff_commit", "C01_mask_iff_validate",
                     "C01_validate_is_longest_committable_prefix", "C01_accepting_is_pure", "C01_mask_well_formed",
                     "C01_no_internal_assertion"],
        "rule": "random CFGs over regex terminals (literals, classes, repetition; recursion, empty productions, ambiguity) x "
                "vocabularies (single-byte; 256 bytes + multi-byte tokens spanning lexemes, ending inside UTF-8 characters, "
                "duplicates) x mask-guided walks; at every visited state the implementation is asked, for EVERY token id: in mask? "
                "validate = 1? commit on a deep clone ok? plus EOS-in-mask vs is_accepting and validate(sequence) vs one-by-one commits; "
                "the op list is replayed on the extracted model (masks, counts, accept flags, stop reasons compared). "
                "distinct = distinct session text; non-trivial = sessions with a multi-byte token in some mask or >= 2 commits",
        "trusted_base": ["modelled, not verified: parser/src/earley/{parser,lexer,regexvec}.rs, tokenparser.rs, matcher.rs for the core fragment "
                         "(coq/Lexer.v, Earley.v, Engine.v, TokParser.v); not modelled: hidden bytes / stop= / max_tokens / temperature / "
                         "nested grammars / captures / numeric-token commits / %ignore",
                         "external: derivre (regex derivatives, emptiness, forced-end) replaced by the textbook definitions of coq/Regex.v",
                         "bin/gen_params.py maps 'rollback() resets bias_cache' to ROLLBACK_CLEARS_CACHE",
                         "resource-limit accounting (item counts) is not part of the correspondence: sessions that hit a limit are skipped and counted"],
        "assumptions": ["core fragment: grammars without max_tokens=, stop=, temperature=, backtracking; non-canonical tokenizer "
                        "(the forced-token narrowing of canonical tokenizers is C13)"],
        "level_text": "Theorems for every grammar/vocabulary/reachable state/token: the imperative engine (shared row array, virtual "
                      "stack, speculative row reuse, mask cache) refines a pure byte-level engine; hence mask bit = per-token test = "
                      "commit success = validation count, validate(sequence) = longest committable prefix, accepting flag = pure "
                      "acceptance, no id >= vocab, no internal assertion. Tied to /repo by replaying implementation sessions on the "
                      "extracted model and by evaluating the property itself on the implementation for every token at every state.",
        "level_note": "EOS-in-mask <-> accepting and the Matcher wrapper are in the executable model (TokParser.v) and compared on every "
                      "session, but not covered by a theorem.",
    },
    "C02": {
        "runner": "RunEngine",
        "theorems": ["C02_commit_split_irrelevant", "C02_multibyte_iff_bytewise", "C02_run_concatenation", "C02_allowed_iff_bytes_accepted"],
        "rule": "same grammar under a multi-byte vocabulary A and the single-byte vocabulary B: mask-guided histories under A, "
                "replayed byte by byte under B; masks projected on common tokens, EOS, accepting and stop status compared after "
                "every token; every multi-byte token of A checked against byte-wise validation under B at every state; both sessions "
                "replayed on the model. non-trivial = sessions with more than two ops",
        "trusted_base": ["modelled, not verified: parser/src/earley/{parser,lexer,regexvec}.rs, tokenparser.rs, matcher.rs for the core fragment "
                         "(coq/Lexer.v, Earley.v, Engine.v, TokParser.v); not modelled: hidden bytes / stop= / max_tokens / temperature / "
                         "nested grammars / captures / numeric-token commits / %ignore",
                         "external: derivre (regex derivatives, emptiness, forced-end) replaced by the textbook definitions of coq/Regex.v",
                         "bin/gen_params.py maps 'rollback() resets bias_cache' to ROLLBACK_CLEARS_CACHE",
                         "resource-limit accounting (item counts) is not part of the correspondence: sessions that hit a limit are skipped and counted"],
        "assumptions": ["core fragment"],
        "level_text": "Theorems: committing w1 then w2 leaves the same pure state as committing w1++w2; a token is allowed exactly when "
                      "its bytes are accepted one at a time by the pure engine (whose state does not mention tokens). Implementation: "
                      "two vocabularies in lock-step on the same byte strings.",
        "level_note": "Token bookkeeping that is outside the pure state (token indices, byte_to_token) is modelled only as a length.",
    },
    "C11": {
        "runner": "RunEngine",
        "theorems": ["C11_cache_invalidation_irrelevant", "C11_mask_twice", "C11_queries_leave_no_trace",
                     "C11_masks_depend_only_on_pure_state"],
        "rule": "random interleavings of mask / commit / validate / accepting / forced-bytes / invalidate on three implementation "
                "engines in lock-step (as generated; invalidating the cache before every mask; fresh engine replaying the commits), "
                "corpus of minimised failures first; op lists replayed on the model. non-trivial = sessions with more than six ops",
        "trusted_base": ["modelled, not verified: parser/src/earley/{parser,lexer,regexvec}.rs, tokenparser.rs, matcher.rs for the core fragment "
                         "(coq/Lexer.v, Earley.v, Engine.v, TokParser.v); not modelled: hidden bytes / stop= / max_tokens / temperature / "
                         "nested grammars / captures / numeric-token commits / %ignore",
                         "external: derivre (regex derivatives, emptiness, forced-end) replaced by the textbook definitions of coq/Regex.v",
                         "bin/gen_params.py maps 'rollback() resets bias_cache' to ROLLBACK_CLEARS_CACHE",
                         "resource-limit accounting (item counts) is not part of the correspondence: sessions that hit a limit are skipped and counted"],
        "assumptions": ["core fragment; sessions hitting a resource limit are skipped (counted in input_distribution)"],
        "level_text": "Theorems: every mask of a reachable state equals mask_spec of the pure top frame — with or without a cache hit, "
                      "with or without speculative row reuse — hence invalidating the cache, asking twice, or interleaving read-only "
                      "queries never changes a mask. Requires that rollback resets the cache, which is re-read from parser.rs each run.",
        "level_note": "is_accepting_cache / ff_tokens_cache of TokenParser are in the executable model, compared but not proved.",
    },
    "C12": {
        "runner": "RunEngine",
        "theorems": ["C12_rollback_restores", "C12_rollback_many", "C12_same_mask_after_rollback", "C12_same_accepting_after_rollback"],
        "rule": "as C11 plus rollback(k) / reset: after every successful rollback every observable (mask, accepting, forced bytes, "
                "stop status) of the implementation is compared with a fresh engine that never saw the tokens; corpus first "
                "(the stale-cache history); op lists replayed on the model. non-trivial = sessions with more than six ops",
        "trusted_base": ["modelled, not verified: parser/src/earley/{parser,lexer,regexvec}.rs, tokenparser.rs, matcher.rs for the core fragment "
                         "(coq/Lexer.v, Earley.v, Engine.v, TokParser.v); not modelled: hidden bytes / stop= / max_tokens / temperature / "
                         "nested grammars / captures / numeric-token commits / %ignore",
                         "external: derivre (regex derivatives, emptiness, forced-end) replaced by the textbook definitions of coq/Regex.v",
                         "bin/gen_params.py maps 'rollback() resets bias_cache' to ROLLBACK_CLEARS_CACHE",
                         "resource-limit accounting (item counts) is not part of the correspondence: sessions that hit a limit are skipped and counted"],
        "assumptions": ["grammars that support rollback (no stop= / max_tokens=)"],
        "level_text": "Theorems: rolling back the bytes of one or many commits restores the pure stack, the committed bytes and an empty "
                      "cache, hence the same mask and accepting flag as before the commits. Token-level rollback (byte lengths of "
                      "tokens, EOS = 0 bytes) is in the executable model and compared.",
        "level_note": "The token-to-byte-length bookkeeping of TokenParser::rollback is compared, not proved.",
    },
    "C18": {
        "runner": "Run18",
        "theorems": ["C18_silent_after_stop", "C18_stopped_is_sticky", "C18_output_plus_pending_is_text", "C18_stop_token_cut",
                     "C18_partials_step", "C18_reported_match_is_a_match", "C18_no_match_missed", "C18_utf8_cut_bounds",
                     "C18_run_stops_at_first_match", "C18_run_without_match", "C18_returned_piece_is_utf8_cut",
                     "C18_failed_matcher_is_sticky", "C18_every_error_fails_the_matcher", "C18_out_of_range_token_refused",
                     "C18_stopped_refuses_commit", "C18_stopped_refuses_mask", "C18_stopped_mask_is_eos_only",
                     "C18_stop_only_when_accepting", "C18_validate_keeps_protocol_state", "C18_rollback_too_far_refused"],
        "rule": "(a) stop controller: vocabularies with tokens splitting UTF-8 characters, special and empty tokens; 0-2 stop strings "
                "(overlapping), optional stop regex, stop tokens; random segmentations of text containing stop candidates, one third "
                "of the streams not valid UTF-8; compared with the model: total text (valid streams), stopped flag after every token; "
                "implementation-only: nothing after stop, no split character. (b) Constraint: random call sequences with illegal calls "
                "(commit without mask, token not in mask, id out of range, calls after stop); the text of every stopped run is judged "
                "by the CFG specification. (c) Matcher sessions with illegal tokens replayed on the model",
        "trusted_base": ["modelled, not verified: stop_controller.rs (coq/StopCtrl.v: live partial matches instead of the derivre DFA with "
                         "lookahead), matcher.rs / tokenparser.rs stop logic (coq/TokParser.v); Constraint is not modelled (implementation-only)"],
        "assumptions": ["'first occurrence' = the first stop match to complete in the stream; when several end at the same byte the shortest is removed"],
        "level_text": "Theorems (stop controller model): nothing is returned after a stop and the stop is permanent; while running, returned "
                      "text plus held-back text is exactly the decoded text; a stop token cuts exactly before itself; the set of live partial "
                      "matches is exact for every stop expression, so a reported match is a real match ending at the current byte and none is "
                      "missed; over a whole run the returned text is exactly the decoded text before the first match to complete (the shortest "
                      "match ending there removed) and the controller is then stopped, and without a match returned plus held-back text is "
                      "the whole text; the UTF-8 cut stays inside the data. Theorems (matcher model): every error switches the matcher to a permanent "
                      "failed state in which every call fails and nothing changes; out-of-range token ids are refused; after a stop a commit or a mask "
                      "request is an error and compute_mask_or_eos yields exactly the end-of-sequence tokens; a successful commit leaves the "
                      "matcher stopped only if check_stop saw an accepting state; validation does not change the protocol state. The implementation is "
                      "compared with the model on random streams and call sequences.",
        "level_note": "Partial: the stop controller is proved over whole runs (text before the first match to complete, nothing after, "
                      "nothing lost without a match) for ordinary tokens and one stop expression; the Constraint-level protocol and "
                      "'stop exactly when the text is complete and cannot be extended' are checked differentially against the CFG "
                      "specification, not proved.",
    },
    "C06": {
        "runner": "Run06",
        "jsonschema_judge": True,
        "theorems": ["C06_every_admitted_string_is_a_valid_instance", "C06_object_members_exact",
                     "C06_array_items_exact", "C06_bounded_sequence_exact"],
        "rule": "(a) modelled fragment: random schemas over null, boolean, integer ranges, strings with min/maxLength, const, anyOf, "
                "arrays (prefixItems, items or items:false, minItems, maxItems, a twelfth of them unsatisfiable), objects (properties "
                "with required / optional members, additionalProperties false or a schema) to depth 3, compact separators; byte-complete "
                "vocabularies with JSON-shaped multi-byte tokens; strings compared: canonical valid instances, three mutants each "
                "(delete / insert / replace a character, duplicate a segment, swap around a comma), outputs sampled by mask-guided walks; "
                "each string: implementation vs model vs the harness's own validator; rejected schemas: the model admits nothing either. "
                "(b) extended family, implementation only: number bounds, multipleOf, enum, allOf (also of arrays with different "
                "prefixItems / items), type lists, formats date / uuid / ipv4, patterns, min/maxProperties, recursive $ref, flexible "
                "whitespace; every sampled output is judged by the harness's exact-arithmetic validator and by python-jsonschema "
                "(Draft 2020-12, formats asserted). non-trivial = schemas with both admitted and refused strings",
        "trusted_base": ["modelled, not verified: parser/src/json/compiler.rs gen_json_object / object_fields / ordered_sequence / "
                         "bounded_sequence / sequence / gen_json_array / process_any_of / compile_const / json_int / string lengths "
                         "(coq/JsonModel.v: list-of-successes matchers instead of grammar nodes; the Earley engine that runs the grammar "
                         "is the subject of C01/C05)",
                         "not modelled (implementation-only judges): schema.rs normalisation (allOf intersection, $ref, type lists, "
                         "enum), numbers (C08 has the theorems for the range regexes), pattern / format, patternProperties, "
                         "min/maxProperties, whitespace options, string escapes and non-ASCII characters",
                         "judges: harness/src/c06.rs validator (exact decimals), python-jsonschema 4.x from the tooling venv when present"],
        "assumptions": ["fragment: compact separators, strings of printable ASCII without escapes, integer bounds in i64, "
                        "required keys listed in properties, distinct keys"],
        "level_text": "Theorem (fragment, every schema and every string): whatever the modelled grammar admits spells a valid instance "
                      "with the listed members at most once and in schema order; the sequence constructors (ordered_sequence, "
                      "bounded_sequence, arrays with prefixItems / items / min / max) generate exactly the intended sequences. "
                      "The implementation is compared with the model string by string and judged by two independent validators on "
                      "sampled outputs, also outside the fragment.",
        "level_note": "Partial: theorems cover the modelled fragment of compiler.rs; schema.rs normalisation, numbers inside documents, "
                      "patterns, formats and escapes are covered by sampling with independent judges only.",
    },
    "C07": {
        "runner": "Run06",
        "theorems": ["C07_every_valid_instance_is_admitted", "C07_serialisation_is_a_spelling",
                     "C07_object_members_exact", "C07_sequence_exact"],
        "rule": "(a) the modelled fragment as for C06: canonical instances of random schemas, tokenised at random over JSON-shaped "
                "vocabularies, must be accepted token by token and end accepting; the same strings, their mutants and sampled outputs "
                "are compared with the model. (b) default (flexible) whitespace: the compact text and the text with a blank after every "
                "separator are accepted. (c) beyond the fragment, schema and instance generated together: integer multipleOf inside "
                "bounds, decimal bounds, enum, type lists, strings with escapes / non-ASCII / surrogate pairs under length bounds, "
                "tuples, anyOf, objects with optional members left out, recursive $ref lists; serde_json's compact serialisation must "
                "be accepted with and without flexible whitespace. non-trivial = schemas with both admitted and refused strings",
        "trusted_base": ["as for C06: coq/JsonModel.v models compiler.rs on the fragment; (b) and (c) are implementation-only",
                         "instance generators in harness/src/c06.rs (each generated pair is first confirmed by the harness's validator)"],
        "assumptions": ["fragment as for C06; object members in the order the schema lists them, additional members after them"],
        "level_text": "Theorem (fragment, every schema and every instance): a valid instance serialised compactly with members in schema "
                      "order is admitted by the modelled grammar; optional / required member sequencing and array tails are exact. "
                      "The implementation is compared with the model on the same strings; canonical instances of richer schemas "
                      "are checked on the implementation.",
        "level_note": "Partial: as for C06 the theorems cover the modelled fragment; $ref, numbers, multipleOf, enum, escapes and whitespace "
                      "options are covered by sampling.",
    },
    "C08": {
        "runner": "Run08",
        "spec_case_heads": ["intrange", "floatrange", "intbounds", "multof"],
        "theorems": ["C08_integer_range_exact", "C08_integer_range_only_literals", "C08_empty_integer_range_rejected",
                     "C08_fraction_at_least", "C08_fraction_at_most", "C08_multiple_of_lcm_exact", "C08_multiple_of_exact",
                     "C08_decimal_range_exact", "C08_empty_decimal_range_rejected",
                     "C08_integer_schema_decimal_bounds_exact", "C08_integer_schema_no_integer_rejected"],
        "rule": "integer bounds: all pairs in a window exhaustively plus magnitudes around powers of ten and i64 extremes, with every "
                "combination of minimum/maximum/exclusive*; decimal bounds with up to three fractional digits and magnitudes up to "
                "1e15 (beyond that the f64 carrying the bound is not the written decimal); literals: integers and decimals in and "
                "around the interval with 0-4 extra fractional digits and trailing zeros; through the single-byte Matcher. "
                "Model side: the regex ASTs of the model of numeric.rs decide each literal. Implementation-only: exact decimal "
                "arithmetic decides membership. non-trivial = ranges with both accepted and rejected literals",
        "trusted_base": ["modelled, not verified: parser/src/json/numeric.rs rx_int_range, normalize_integer_bounds, lexi_x_to_9, lexi_0_to_x, lexi_range, "
                         "rx_float_range, Decimal::lcm (coq/Numeric.v, regex ASTs instead of regex strings; the regex text -> AST step "
                         "is derivre/regex-syntax, tied by the comparison through the Matcher)",
                         "json/compiler.rs number/integer -> regex plumbing and multipleOf (derivre's divisibility check) are covered by "
                         "the implementation-only exact-arithmetic oracle, not modelled"],
        "assumptions": ["bounds are i64 (integers) or decimals exactly representable after the f64 round trip (<= 1e15, <= 3 fractional digits)",
                        "|z| < 10^80 for integer literals (model rendering fuel); longer literals are covered by C08_integer_range_only_literals' "
                        "canonical form lemma only"],
        "level_text": "Theorems: for every pair of optional i64 bounds the integer-range regex accepts an integer literal exactly when its "
                      "value is inside, accepts nothing but integer literals, and is an error exactly for empty ranges; the two fraction "
                      "comparisons from which decimal ranges are built are exact for every digit string (trailing zeros, shorter and longer "
                      "than the bound); for every pair of optional decimal bounds, inclusive or exclusive, the decimal-range regex accepts a "
                      "plain decimal literal exactly when its value is inside, and is an error exactly for empty combinations; the "
                      "multipleOf lcm and the u32 remainder arithmetic (variants read from the source) are exact or an error; "
                      "integer schemas with fractional / exclusive bounds (normalize_integer_bounds, coq/IntBounds.v) accept an integer "
                      "literal exactly when it lies inside the bounds as written and are an error exactly when no integer does.",
        "level_note": "Model hand-written from numeric.rs (regex ASTs instead of regex strings). The interaction of bounds with "
                      "multipleOf (intersection of the two regexes, multiple spellings of decimals) is checked by the exact-arithmetic "
                      "oracle on the implementation, not proved as one theorem.",
    },
    "C15": {
        "runner": "Run15",
        "theorems": ["C15_optimize_preserves_language", "C15_one_pass_preserves_every_kept_symbol",
                     "C15_special_symbols_are_kept", "C15_output_well_formed"],
        "rule": "random and corpus grammars from the Lark and JSON front ends (alias chains and cycles, single-use rules, nested "
                "inlining, captures, max_tokens, sub-grammars, empty rules); the hook (cfg llguidance_verif is not needed: "
                "Grammar::optimize is reachable through the public compile path with and without optimisation) dumps the symbol "
                "table before and after; the model's optimiser output is compared rule by rule, and the sets of terminal sequences "
                "up to a length bound are compared before/after on the implementation. non-trivial = grammars in which a rule is inlined",
        "trusted_base": ["modelled, not verified: parser/src/earley/grammar.rs Grammar::optimize / expand_shortcuts / rename / union-find "
                         "(coq/Optimize.v), compared rule by rule with the implementation's output"],
        "assumptions": ["input grammars are well formed (symbols in range, terminals without rules): what the grammar builder produces"],
        "level_text": "Theorem: for every well-formed grammar the optimised grammar (two passes, as applied) derives from every special "
                      "symbol — start, captures, token limits, sub-grammar boundaries — exactly the terminal sequences of the input; "
                      "special symbols are never removed; one pass preserves the language of every symbol it keeps. Unbounded: any grammar "
                      "size, any derivation length.",
        "level_note": "Model hand-written from grammar.rs; the tie is the rule-by-rule comparison of optimiser outputs.",
    },
    "C20": {
        "runner": "Run",
        "extra_profiles": ["checked"],
        "timeout": 3000,
        "theorems": ["C20_no_internal_assertion_on_any_history", "C20_failed_engine_keeps_failing",
                     "C20_no_result_after_internal_panic", "C20_token_id_out_of_range_refused",
                     "C20_validate_out_of_range_refused", "C20_lcm_exact_or_error", "C20_wrapping_lcm_refuted",
                     "C20_multiple_of_no_wrap", "C20_unguarded_multiple_of_refuted"],
        "rule": "byte strings offered as Lark grammar / JSON schema / regex / slice list / vocabulary: random bytes, mutations of generated "
                "grammars and schemas (byte flips, deletions, duplications, bracket floods, huge repetition counts), adversarial nesting "
                "and sizes (paren depth, rule chains, (a*)* towers, thousands of alternatives, left recursion, allOf towers, $ref cycles, "
                "multipleOf products beyond u32, extreme numeric bounds, 2^64 lengths, tokens of 1..3000 bytes, empty/duplicate tokens), "
                "corpus first; each followed by 24 random API calls (mask, commit from mask, commit arbitrary id incl. out of range, "
                "validate, rollback, ff bytes, accepting) under default and tight limits; executed in a child process with a 6 GB "
                "address-space limit, an 8 MB stack and a per-input wall-clock limit; built as users build it (release) and with "
                "overflow checks + debug assertions. Reported: process death, no answer in time, a panic message surfacing through "
                "the API, an id >= vocab in a mask, a failed engine that stops failing. non-trivial = inputs that built an engine",
        "trusted_base": ["runtime behaviour (aborts, stack depth, running time, memory) of the compiled Rust cannot be exhibited by the "
                         "Gallina model: it is explored by the child-process harness only (sampled, not proved)",
                         "modelled, not verified: the engine / matcher state machines (coq/Engine.v, TokParser.v), Decimal::lcm (coq/Numeric.v)"],
        "assumptions": ["core fragment for the no-assertion theorem (core_ctx); limits of the sandbox: 6 GB, 8 MB stack, 15 s per input"],
        "level_text": "Theorems about the logic: no history of legal calls reaches an internal assertion of the engine; the matcher never "
                      "returns a result computed after an internal panic and a failed matcher fails every later call without changing "
                      "state; out-of-range token ids are refused before any lookup; the multipleOf lcm never returns a wrapped product "
                      "(variant read from the source; the wrapping variant is refuted). The crash/hang/abort half is explored by the "
                      "child-process fuzzer in two build modes.",
        "level_note": "Partial by nature: process aborts, stack overflows and unbounded loops in the compiled code are runtime behaviour; "
                      "the theorems cover the modelled state machines, the harness samples the rest. Known finding: Lark rule chains of "
                      "several thousand nested references overflow the stack in the compiler.",
    },
    "C13": {
        "runner": "RunEngine",
        "theorems": ["C13_forced_byte_is_the_only_byte", "C13_no_forced_byte_means_choice_or_accepting",
                     "C13_force_bytes_all_forced", "C13_forcing_loses_no_output"],
        "rule": "grammars with fixed keys, constants and alternatives sharing prefixes (plus random CFGs) x canonical greedy "
                "tokenizers over single-byte and multi-byte vocabularies; at every step: compute_ff_bytes, compute_ff_tokens, "
                "compute_mask, commit. Implementation-only: each forced byte is fed to a byte-level engine of the same grammar whose "
                "mask must be exactly that byte; ff tokens decode to a prefix of the forced bytes, are accepted, the mask is the "
                "singleton of the first ff token, accepting flags agree afterwards. Sessions (canonical mode: forcing, "
                "re-tokenisation, chop) replayed on the model. non-trivial = sessions with at least one forced byte",
        "trusted_base": ["modelled, not verified: parser.rs forced_byte / force_bytes, tokenparser.rs ff_tokens / compute_mask / "
                         "tokenize_and_chop, toktree.rs chop_tokens, tokenv.rs tokenize_bytes_marker (coq/Engine.v, TokParser.v, Trie.v)",
                         "the canonical tokenizer is the greedy tokenizer over a byte-complete vocabulary (what the harness provides); "
                         "process_prompt is not covered"],
        "assumptions": ["core fragment; sessions hitting the step item limit are skipped"],
        "level_text": "Theorems: a reported forced byte is the unique byte the pure engine accepts, in a non-accepting state; every byte "
                      "appended by force_bytes is forced at its position and committing them equals running the pure engine; hence every "
                      "output reachable before is reachable after (agreement on the common prefix). ff tokens / chop / singleton mask: "
                      "executable model compared with the implementation on every session.",
        "level_note": "Partial: the token-level part (ff_tokens prefix property, chop soundness, prompt conservation) is compared, not proved.",
    },
    "C14": {
        "runner": "RunEngine",
        "theorems": ["C14_schedule_independent", "C14_schedules_agree", "C14_shared_tables_append_only"],
        "rule": "2..16 clones (alternating Matcher::clone sharing the lexer and deep_clone) of an engine after a common prefix, each "
                "with its own mask-guided history planned on a private engine; half of the cases run an explicit random interleaving "
                "of the clones' steps, half run every clone on its own OS thread (barrier start, yield between steps); all masks of "
                "every clone compared with a private freshly built engine. non-trivial = cases where all clones matched "
                "(the comparison itself is the case)",
        "trusted_base": ["modelled, not verified: the shared lexer as an append-only memo of state vectors and transitions "
                         "(regexvec.rs insert_state / transition; parser.rs with_shared holds the mutex for the whole operation) — coq/Clones.v",
                         "not exhibited by the model: data races, memory ordering, mutex poisoning, rayon scheduling; real-thread "
                         "executions and llg_par_compute_mask are validated only",
                         "the tie of Clones.v to the code is structural; behaviourally each clone is compared with a private engine"],
        "assumptions": ["no resource limit is hit because of states created by other clones (shared counters)"],
        "level_text": "Theorem for every interleaving of atomic operations of n clones over a shared append-only memo: clone i ends in "
                      "exactly the state its own bytes lead to (what a private engine computes). Real threads: validation only.",
        "level_note": "Partial: interleaving semantics proved; real-thread executions validated only.",
    },
    "C19": {
        "runner": "Run19",
        "theorems": ["C19_negated_ranges_are_the_complement", "C19_negated_ranges_inside_vocabulary",
                     "C19_complement_never_matches_marker", "C19_complement_on_text", "C19_unguarded_complement_refuted"],
        "rule": "vocabularies whose ordinary tokens spell pieces and whole names of special tokens; grammars = sequences of literal "
                "text (also text spelling special names) and token references <name>, <[id]>, <[a-b,...]>, <[^...]>, <[*]>; at every "
                "text position (also inside the text) the mask must contain no special and no bare-marker token; at every reference "
                "the mask must be exactly the denoted set, and a denoted token must be accepted; tokenize_bytes of text spelling "
                "special names yields ordinary tokens only and decodes back; tokenize_bytes_marker and negated ranges compared with the model; "
                "text positions written with ~ / & (complements of literals, classes, nested complements) must offer no special token; "
                "canonical tokenizers: forced text followed by a choice between text and a token reference, every offered token must be "
                "committable",
        "trusted_base": ["modelled, not verified: grammar_builder.rs negated_token_ranges (coq/Special.v), tokenv.rs "
                         "tokenize_bytes_marker (coq/TokParser.v); the engine's numeric-token commit path is not modelled "
                         "(implementation-only predicates cover it)"],
        "assumptions": ["/.../ regexes cannot match the marker byte (UTF-8 mode of the external regex parser); complements are covered by a theorem"],
        "level_text": "Theorems: a negated token-range reference denotes exactly the complement within the vocabulary, well formed; a "
                      "terminal written with the complement operator (variant read from lark/compiler.rs) never matches a word containing "
                      "the marker byte — so no special token, whatever its name — and is the plain complement on ordinary text; the bare "
                      "complement is refuted. The rest of the property is evaluated on the implementation at every text / reference position.",
        "level_note": "Partial: 'a reference allows exactly the tokens it denotes at exactly that position' and the marker-freeness of "
                      "/.../ regexes are checked on the implementation only.",
    },
    "C03": {
        "runner": "RunEngine",
        "timeout": 3000,
        "theorems": ["C03_parser_rows_are_completable", "C03_kept_residual_has_completion",
                     "C03_allowed_lexemes_are_wanted", "C03_unrestricted_statement_refuted"],
        "rule": "productive CFGs over non-confusable terminals and JSON schemas (numeric ranges, multipleOf, length bounds, formats, "
                "enums, arrays, objects, allOf/anyOf) x byte-complete vocabularies; mask-guided walks; at every visited state: the "
                "mask is never empty, a failing compute_mask / stop happens only in an accepting state, and an exhaustive depth-first "
                "search over the byte-level engine of the same grammar looks for a completion of at most 64 bytes (Some(false) = whole "
                "tree explored without an accepting state = reported; budget exhausted = inconclusive, counted, never reported). "
                "Corpus first (the known greedy-lexeme-conflict grammar). non-trivial = walks longer than one token",
        "trusted_base": ["modelled, not verified: Earley rows and lexer residuals (coq/Earley.v, Lexer.v, Regex.v); "
                         "the general lex_faithful case is not proved: the theorems cover the parser half (lexeme level) and the "
                         "lexer's emptiness filter; the bytes-to-lexemes glue rests on the correspondence of C01/C05"],
        "assumptions": ["every visited state of the generated families has a completion of at most 64 bytes if it has one at all "
                        "(walks are at most 5 tokens over small grammars)"],
        "level_text": "Theorems: in a productive grammar every lexeme sequence the recogniser keeps going on can be completed; the lexer "
                      "keeps only residuals with a completion and is started only with lexemes some item wants. The unrestricted statement "
                      "is refuted in the model (machine-checked witness) and listed as a known finding. Implementation: exact checks for "
                      "empty masks / non-accepting stops, exhaustive bounded completion search at every visited state.",
        "level_note": "Partial: no theorem at byte level for general lex_faithful grammars; known finding: greedy lexeme conflict.",
    },
}
