#!/usr/bin/env python3
"""Regenerates the per-property section of DESIGN.md (between the markers
<!-- BEGIN GENERATED PROPERTIES --> and <!-- END GENERATED PROPERTIES -->) from bin/props.py,
known_findings.json and seeded/*/results.json, so that the document cannot drift from what
the checks actually do."""
import json, re, sys
from pathlib import Path
VERIF = Path(__file__).resolve().parent.parent
sys.path.insert(0, str(VERIF / "bin"))
from props import PROPS

def main():
    titles = {}
    for l in (VERIF / "properties.jsonl").read_text().splitlines():
        d = json.loads(l)
        titles[d["id"]] = d["title"]
    known = json.loads((VERIF / "known_findings.json").read_text())
    seeds = {}
    for d in sorted((VERIF / "seeded").glob("*/")):
        mf, rf = d / "meta.json", d / "results.json"
        if not mf.exists():
            continue
        m = json.loads(mf.read_text())
        r = json.loads(rf.read_text()) if rf.exists() else {}
        seeds[d.name] = (m, r)
    out = []
    for pid in sorted(titles):
        spec = PROPS.get(pid)
        out.append(f"### {pid} — {titles[pid]}\n")
        if not spec or spec.get("disabled"):
            out.append("Not claimed (see §11).\n")
            continue
        out.append(f"*Level claimed:* proof — {spec['level_text']}\n")
        out.append(f"*Limits of the claim:* {spec['level_note']}\n")
        out.append("*Theorems* (`coq/Properties/%s.v`, each closed by `exact`, `Print Assumptions` = closed): %s.\n"
                   % (pid, ", ".join(f"`{t}`" for t in spec["theorems"])))
        out.append(f"*Tie to /repo (runner `coq/{spec['runner']}.v`, harness `harness/src/`):* {spec['rule']}\n")
        out.append("*Modelled, not verified / trusted:* " + " ".join(f"({i+1}) {t}" for i, t in enumerate(spec["trusted_base"])) + "\n")
        if spec.get("assumptions"):
            out.append("*Assumptions:* " + "; ".join(spec["assumptions"]) + ".\n")
        ks = [k for k in known if k["property"] == pid]
        for k in ks:
            out.append(("*Known finding:* " if k["kind"] == "finding" else "*Fixed defect:* ") + k["what"] + f" (replay: `{k['replay']}`)\n")
        own = [(n, m, r) for n, (m, r) in seeds.items() if m.get("property") == pid]
        others = [(n, m, r) for n, (m, r) in seeds.items() if m.get("property") != pid and pid in r]
        for n, m, r in own:
            det = [p for p, v in r.items() if v.get("detected")]
            miss = [p for p, v in r.items() if not v.get("detected")]
            out.append(f"*Seeded change `{n}`:* {m['summary']} — detected by: {', '.join(det) or 'none'}"
                       + (f"; run without detection: {', '.join(miss)}" if miss else "") + ".\n")
        for n, m, r in others:
            out.append(f"*Also run against `{n}`:* " + ("detected" if r[pid].get("detected") else "not detected") + ".\n")
        out.append("")
    text = "\n".join(out)
    rows = ["| seeded change | property | what it changes / what it needs to show up | detected by | strengthening done |", "|---|---|---|---|---|"]
    for n, (m, r) in seeds.items():
        det = [p for p, v in r.items() if v.get("detected")]
        miss = [p for p, v in r.items() if not v.get("detected")]
        note = (VERIF / "seeded" / n / "note.txt")
        note = note.read_text().strip().replace("\n", " ") if note.exists() else ""
        what = (m.get("summary", "") + " — needs: " + m.get("what_it_needs_to_manifest", "")).replace("|", "/").replace("\n", " ")
        if len(what) > 520:
            what = what[:520] + "…"
        rows.append(f"| `{n}` | {m.get('property')} | {what} | {', '.join(det) or '—'}" + (f" (not by {', '.join(miss)})" if miss else "") + f" | {note} |")
    table = "\n".join(rows)
    p = VERIF / "DESIGN.md"
    s = p.read_text()
    tb, te = "<!-- BEGIN SEEDED TABLE -->", "<!-- END SEEDED TABLE -->"
    if tb in s and te in s:
        s = s[:s.index(tb) + len(tb)] + "\n" + table + "\n" + s[s.index(te):]
        p.write_text(s)
    b, e = "<!-- BEGIN GENERATED PROPERTIES -->", "<!-- END GENERATED PROPERTIES -->"
    if b in s and e in s:
        s = s[:s.index(b) + len(b)] + "\n" + text + "\n" + s[s.index(e):]
        p.write_text(s)
        print("DESIGN.md per-property section regenerated")
    else:
        print(text)

if __name__ == "__main__":
    main()
