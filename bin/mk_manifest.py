#!/usr/bin/env python3
"""Regenerates MANIFEST.json from bin/props.py (claimed checks) and the fixed property list."""
import json, sys
from pathlib import Path
V = Path(__file__).resolve().parent.parent
sys.path.insert(0, str(V / "bin"))
from props import PROPS
ids = [json.loads(l)["id"] for l in (V / "properties.jsonl").read_text().split("\n") if l.strip()]
checks = []
for pid in ids:
    if pid not in PROPS or PROPS[pid].get("disabled"):
        continue
    s = PROPS[pid]
    checks.append({
        "property_id": pid,
        "quick_cmd": f"bin/check {pid} --tier quick",
        "thorough_cmd": f"bin/check {pid} --tier thorough",
        "evidence_file": f"evidence/{pid}.json",
        "replay_cmd_template": f"bin/check {pid} --replay {{path}}",
        "engine": "coq-model+correspondence",
        "level_claimed": {
            "category": s.get("level", "proof"),
            "text": s["level_text"],
            "design_ref": s.get("design_ref", f"DESIGN.md section 7 {pid}"),
        },
        "level_note": s["level_note"],
        "technique": s.get("technique", "machine-checked proof in Coq 8.16 about an executable Gallina model; "
                                        "model tied to /repo by an extracted-model vs implementation correspondence check"),
    })
na = []
NA = json.loads((V / "bin" / "not_applicable.json").read_text())
for pid in ids:
    if pid not in [c["property_id"] for c in checks]:
        na.append({"property_id": pid, "reason": NA.get(pid, "check not built yet in this round (see DESIGN.md section 12 build order)")})
m = {
    "version": 1,
    "setup_cmd": "bin/setup",
    "hooks": {
        "guard": "--cfg llguidance_verif",
        "enable": "RUSTFLAGS='--cfg llguidance_verif' cargo build --offline (harness crate /verif/harness path-depends on /repo/parser, /repo/toktrie and the adapters)",
        "baseline_off_cmd": "cd /repo && cargo nextest run --workspace --no-fail-fast --test-threads 8 --offline || cargo test --workspace --no-fail-fast --offline",
        "source_commits": json.loads((V / "bin" / "hook_commits.json").read_text()),
        "add_only": True,
    },
    "engines": [
        {"name": "coq-model+correspondence", "path": "coq/, driver/, harness/, bin/check",
         "serves_properties": [c["property_id"] for c in checks],
         "kind_free_text": "Gallina model + theorems (coqc 8.16.1), extracted OCaml driver, Rust differential harness"},
    ],
    "checks": checks,
    "not_applicable": na,
    "notes": "See DESIGN.md. Every check rebuilds the harness from /repo's working tree, regenerates coq/Params.v, "
             "re-checks the property's Coq cone, and runs implementation, implementation-only property predicates and the extracted model on the same generated cases.",
}
(V / "MANIFEST.json").write_text(json.dumps(m, indent=1) + "\n")
print("MANIFEST.json:", len(checks), "checks,", len(na), "not claimed")
