#!/bin/bash
# bin/seed_eval_all.sh: re-run every stored seeded change against the check of its own property
# (regression run after generator changes).  Uses /repo (applies and removes each patch in turn).
cd "$(dirname "$0")/.."
for d in seeded/*/; do
  n=$(basename $d)
  python3 bin/seed_eval.py $n 2>&1 | grep -v "^WARNING" | grep "rc=\|repo restored: [^c]" | cut -c1-200
done
echo SEEDS-ALLDONE
