(* TokenizersProofs.v — the byte-level alphabet is a bijection between the 256 bytes and the
   code points used in vocabulary entries, so every entry spelled in it stands for exactly one
   byte string and every byte string has exactly one spelling. *)
From LLG Require Import Base Trie Tokenizers.
Open Scope N_scope.

Section Alphabet.
  Variable R : list (N * N).

  Lemma char_map_from_snd : forall bs k, map snd (char_map_from R bs k) = bs.
  Proof.
    induction bs as [|b r IH]; intros k; cbn [char_map_from map]; [reflexivity|].
    destruct (self_mapped R b); cbn [map snd]; now rewrite IH.
  Qed.

  Lemma seqN_nodup' : forall n s, NoDup (seqN s n).
  Proof.
    induction n as [|n IH]; intros s; cbn [seqN]; constructor; [|apply IH].
    assert (H : forall m t x, In x (seqN t m) -> t <= x).
    { induction m as [|m IHm]; intros t x Hx; cbn [seqN] in Hx; [destruct Hx|].
      destruct Hx as [<-|Hx]; [lia|]. apply IHm in Hx. lia. }
    intros Hin. apply H in Hin. lia.
  Qed.

  Lemma seqN_in' : forall n s x, In x (seqN s n) <-> s <= x < s + N.of_nat n.
  Proof.
    induction n as [|n IH]; intros s x; cbn [seqN In]; [lia|].
    rewrite IH. lia.
  Qed.

  (* the bytes of the table are 0..255, each once *)
  Lemma char_map_bytes : map snd (char_map R) = seqN 0 256.
  Proof. apply char_map_from_snd. Qed.
  (* the table itself is never unfolded below (256 entries over a variable R) *)
  Opaque char_map seqN.

  Lemma find_snd_unique : forall (l : list (N * N)) c b,
    NoDup (map snd l) -> In (c, b) l ->
    find (fun p : N * N => snd p =? b) l = Some (c, b).
  Proof.
    induction l as [|[c' b'] l IH]; intros c b Hnd Hin; [destruct Hin|].
    cbn [find snd]. inversion Hnd as [|? ? Hnot Hnd']; subst.
    destruct Hin as [E|Hin].
    - injection E as -> ->. now rewrite N.eqb_refl.
    - destruct (N.eqb_spec b' b) as [->|_].
      + exfalso. apply Hnot. change b with (snd (c, b)). now apply in_map.
      + now apply IH.
  Qed.

  Lemma find_fst_in : forall (l : list (N * N)) c p,
    find (fun p : N * N => fst p =? c) l = Some p -> In p l /\ fst p = c.
  Proof.
    intros l c p H. apply find_some in H. destruct H as [Hin Hc]. split; [exact Hin|]. now apply N.eqb_eq.
  Qed.

  (* a code point that decodes to b is the code point b is written with *)
  Lemma byte_of_char_inv : forall c b, byte_of_char R c = Some b -> char_of_byte R b = c.
  Proof.
    intros c b H. unfold byte_of_char in H.
    destruct (find (fun p : N * N => fst p =? c) (char_map R)) as [[c' b']|] eqn:E; [|discriminate].
    cbn [option_map snd] in H. injection H as ->. apply find_fst_in in E. destruct E as [Hin Hc]. cbn [fst] in Hc. subst c'.
    unfold char_of_byte. rewrite (find_snd_unique (char_map R) c b); [reflexivity| |exact Hin].
    rewrite char_map_bytes. apply seqN_nodup'.
  Qed.

  (* if the table's code points are pairwise distinct, writing then reading a byte gives it back *)
  Hypothesis Hchars : NoDup (map fst (char_map R)).

  Lemma find_fst_unique : forall (l : list (N * N)) c b,
    NoDup (map fst l) -> In (c, b) l ->
    find (fun p : N * N => fst p =? c) l = Some (c, b).
  Proof.
    induction l as [|[c' b'] l IH]; intros c b Hnd Hin; [destruct Hin|].
    cbn [find fst]. inversion Hnd as [|? ? Hnot Hnd']; subst.
    destruct Hin as [E|Hin].
    - injection E as -> ->. now rewrite N.eqb_refl.
    - destruct (N.eqb_spec c' c) as [->|_].
      + exfalso. apply Hnot. change c with (fst (c, b)). now apply in_map.
      + now apply IH.
  Qed.

  Lemma byte_char_roundtrip : forall b, b < 256 -> byte_of_char R (char_of_byte R b) = Some b.
  Proof.
    intros b Hb.
    assert (Hin : In b (map snd (char_map R))) by (rewrite char_map_bytes; apply seqN_in'; lia).
    apply in_map_iff in Hin. destruct Hin as ([c b'] & E & Hin). cbn [snd] in E. subst b'.
    unfold char_of_byte.
    rewrite (find_snd_unique (char_map R) c b); [|rewrite char_map_bytes; apply seqN_nodup'|exact Hin].
    cbn [fst]. unfold byte_of_char. rewrite (find_fst_unique (char_map R) c b Hchars Hin). reflexivity.
  Qed.

  (* every byte string has a spelling, and reading it gives the string back *)
  Theorem decode_encode : forall w, Forall (fun b => b < 256) w ->
    decode_byte_level R (encode_byte_level R w) = Some w.
  Proof.
    induction w as [|b w IH]; intros Hw; [reflexivity|].
    inversion Hw as [|? ? Hb Hw']; subst. cbn [encode_byte_level map decode_byte_level].
    rewrite (byte_char_roundtrip b Hb). fold (encode_byte_level R w). now rewrite (IH Hw').
  Qed.

  (* the spelling is unique: an entry that reads as w is the spelling of w *)
  Theorem decode_unique : forall cs w, decode_byte_level R cs = Some w -> cs = encode_byte_level R w.
  Proof.
    induction cs as [|c cs IH]; intros w H; cbn [decode_byte_level] in H.
    - injection H as <-. reflexivity.
    - destruct (byte_of_char R c) as [b|] eqn:Eb; [|discriminate].
      destruct (decode_byte_level R cs) as [w'|] eqn:Ew; [|discriminate].
      injection H as <-. cbn [encode_byte_level map]. rewrite (byte_of_char_inv c b Eb).
      f_equal. now apply IH.
  Qed.

  (* decoded bytes are bytes *)
  Theorem decode_bytes : forall cs w, decode_byte_level R cs = Some w -> Forall (fun b => b < 256) w.
  Proof.
    induction cs as [|c cs IH]; intros w H; cbn [decode_byte_level] in H.
    - injection H as <-. constructor.
    - destruct (byte_of_char R c) as [b|] eqn:Eb; [|discriminate].
      destruct (decode_byte_level R cs) as [w'|] eqn:Ew; [|discriminate].
      injection H as <-. constructor; [|now apply IH].
      unfold byte_of_char in Eb.
      destruct (find (fun p : N * N => fst p =? c) (char_map R)) as [[c' b']|] eqn:E; [|discriminate].
      cbn [option_map snd] in Eb. injection Eb as ->. apply find_fst_in in E. destruct E as [Hin _].
      assert (Hs : In b (map snd (char_map R))) by (change b with (snd (c', b)); now apply in_map).
      rewrite char_map_bytes in Hs. apply seqN_in' in Hs. lia.
  Qed.
  Transparent char_map seqN.
End Alphabet.

(* ---------- byte fallback: "<0xNN>" is the byte NN ---------- *)
Definition hex_digit (n : N) : byte := if n <? 10 then 48 + n else 55 + n.   (* upper case *)
Definition hex_name (b : byte) : bytes := [60; 48; 120; hex_digit (b / 16); hex_digit (b mod 16); 62].

Lemma hex_name_all : forallb (fun b => match byte_fallback_bytes [226; 150; 129] (hex_name b) with
                                       | FOk [x] => x =? b | _ => false end) (seqN 0 256) = true.
Proof. vm_compute. reflexivity. Qed.

Theorem byte_fallback_hex : forall sp b, b < 256 -> byte_fallback_bytes sp (hex_name b) = FOk [b].
Proof.
  intros sp b Hb.
  assert (Hin : In b (seqN 0 256)) by (apply seqN_in'; lia).
  pose proof (proj1 (forallb_forall _ _) hex_name_all b Hin) as H.
  unfold byte_fallback_bytes, hex_name in *.
  destruct (hex_val (hex_digit (b / 16))) as [a|]; [|discriminate].
  destruct (hex_val (hex_digit (b mod 16))) as [c|]; [|discriminate].
  apply N.eqb_eq in H. now rewrite H.
Qed.

(* a name that does not contain the space character and does not start with "<0x" is its own text *)
Lemma replace_space_none : forall fuel sp w, sp <> [] ->
  (forall k, starts_with sp (skipn k w) = false) -> (length w <= fuel)%nat -> replace_space fuel sp w = w.
Proof.
  induction fuel as [|fuel IH]; intros sp w Hsp Hno Hlen.
  - destruct w; [reflexivity|cbn in Hlen; lia].
  - destruct w as [|b w]; [reflexivity|]. cbn [replace_space].
    pose proof (Hno 0%nat) as H0. cbn [skipn] in H0. rewrite H0. f_equal. apply IH; [assumption| |cbn in Hlen; lia].
    intros k. exact (Hno (S k)).
Qed.

Print Assumptions decode_encode.
Print Assumptions decode_unique.
Print Assumptions byte_fallback_hex.
