(* ObjCount.v — the member-count arithmetic of JSON objects and arrays with declared members
   (schema.rs mk_object_schema; compiler.rs gen_json_object / bounded_sequence):
   r required declared properties, then a tail of additional members admitted by
   bounded_sequence(min', max') with the counts reduced by r (saturating) *)
From Coq Require Import Arith Bool List.
Import ListNotations.

(* None: the schema is rejected as unsatisfiable; Some None: no tail (exactly the declared members);
   Some (Some (min', max')): an item bounded_sequence(tail, min', max'), required iff min' > 0 *)
Definition obj_plan (r lo : nat) (hi : option nat) (has_tail : bool) : option (option (nat * option nat)) :=
  if (match hi with Some h => (h <? lo) || (h <? r) | None => false end) then None      (* mk_object_schema *)
  else
    let lo' := lo - r in
    let hi' := option_map (fun h => h - r) hi in
    if has_tail && negb (match hi' with Some 0 => true | _ => false end)
    then Some (Some (lo', hi'))
    else if 0 <? lo' then None                                      (* "minProperties is greater than number of properties" *)
    else Some None.

(* bounded_sequence(item, lo', hi') = (item ",")^{lo'-1 .. hi'-1} item  admits n >= 1 items with
   lo' <= n and n-1 <= hi'-1 (JsonSeqProofs.m_bseq_exact); the item is optional in the member
   sequence iff lo' = 0 *)
Definition tail_admits (lo' : nat) (hi' : option nat) (n : nat) : bool :=
  if n =? 0 then lo' =? 0
  else (lo' <=? n) && match hi' with Some h => Nat.pred n <=? Nat.pred h | None => true end.

Definition obj_admits (r lo : nat) (hi : option nat) (has_tail : bool) (c : nat) : bool :=
  match obj_plan r lo hi has_tail with
  | None => false
  | Some None => c =? r
  | Some (Some (lo', hi')) => (r <=? c) && tail_admits lo' hi' (c - r)
  end.

(* ---------- specification ---------- *)
Definition size_ok (r lo : nat) (hi : option nat) (has_tail : bool) (c : nat) : Prop :=
  r <= c /\ lo <= c /\ (match hi with Some h => c <= h | None => True end) /\ (has_tail = false -> c = r).
