(* RunFfi.v — case runner for C17 (harness/src/c17.rs) *)
From Coq Require Import String.
From LLG Require Import Base Params Sx Svob Ffi.
Open Scope string_scope.
Open Scope N_scope.

Definition run_case17 (x : sx) : sx :=
  let h := head_sym x in
  let a := tail_items x in
  let is s := bytes_eqb h (sym s) in
  if is "parcopy" then
    let m := nth_sx a 0 in
    let mask := if bytes_eqb (head_sym m) (sym "mask")
                then Some (mk_svob (as_ns (nth_sx (tail_items m) 0)) (as_n (nth_sx (tail_items m) 1)))
                else None in
    match par_copy PAR_COPY_USES_BITLEN mask (N.to_nat (as_n (nth_sx a 1)))
                   (as_bool (nth_sx a 2)) (as_n (nth_sx a 3)) with
    | Some d => tagged "ok" [sns d]
    | None => tagged "out-of-bounds-read" []
    end
  else if is "maskinto" then
    let vob := mk_svob (as_ns (nth_sx a 0)) (as_n (nth_sx a 1)) in
    match mask_into vob (N.to_nat (as_n (nth_sx a 2))) (as_n (nth_sx a 3)) with
    | Ok d => tagged "ok" [sns d]
    | ErrLimit => tagged "sizeerr" []
    | ErrInternal => tagged "panic" []
    end
  else if is "ffcopy" then
    let '(d, n) := ff_copy (as_ns (nth_sx a 0)) (N.to_nat (as_n (nth_sx a 1))) in
    tagged "ok" [sns d; sn n]
  else if is "guard" then
    tagged "ok" [sopt (commit_guard (as_n (nth_sx a 0)) (as_n (nth_sx a 1)))]
  else SL [SY (sym "unknown")].
