(* Run16.v — executable case runners for C16 (trie, SimpleVob).  Input and
   output formats are those of harness/src/c16.rs. *)
From Coq Require Import String.
From LLG Require Import Base Params Sx Svob Trie Tokenizers.
Open Scope string_scope.
Open Scope N_scope.

(* DFA given as per-state list of (lo hi target); first match wins *)
Definition dfa := list (list (N * N * N)).
Definition dfa_of_sx (x : sx) : dfa :=
  map (fun st => map (fun tr => match as_ns tr with
                                | [lo; hi; tg] => (lo, hi, tg)
                                | _ => (1, 0, 0) end) (as_list st)) (as_list x).
Definition dfa_step (d : dfa) (s : N) (b : byte) : option N :=
  match find (fun '(lo, hi, _) => (lo <=? b) && (b <=? hi)) (nth (N.to_nat s) d []) with
  | Some (_, _, tg) => Some tg
  | None => None
  end.

(* stack after pushing pre from state 0: top first *)
Fixpoint stack_after (d : dfa) (stk : list N) (pre : bytes) : list N :=
  match pre with
  | [] => stk
  | b :: pre' =>
      match stk with
      | s :: _ => match dfa_step d s b with
                  | Some s' => stack_after d (s' :: stk) pre'
                  | None => stk
                  end
      | [] => stk
      end
  end.

(* every set bit of every stored word *)
Definition raw_list (v : svob) : list N := iter_list v.

Definition run_trie (args : list sx) : sx :=
  let ws := map as_bytes (field "vocab" args) in
  let d := dfa_of_sx (field1 "dfa" args) in
  let pre := as_bytes (field1 "pre" args) in
  let preset := as_ns (field1 "preset" args) in
  let starts := map as_bytes (field "starts" args) in
  let texts := map as_bytes (field "texts" args) in
  let lookups := map as_bytes (field "lookups" args) in
  let filt := as_ns (field1 "filter" args) in
  let chops := map as_ns (field "chops" args) in
  let tr := trie_from ws in
  let push := dfa_step d in
  let stk := stack_after d [0] pre in
  let toks0 := fold_left (fun v p => allow_token v p) preset (alloc_token_set tr) in
  let bias :=
    map (fun st =>
           match add_bias N push tr stk toks0 st with
           | None => None
           | Some (_, toks) =>
               match st with
               | [] => match add_bias0 push tr stk toks0 with
                       | Some (stk', _, vis) => Some (SL [sns (raw_list toks); sn (lenN stk'); sn vis])
                       | None => None
                       end
               | _ => Some (SL [sns (raw_list toks); sn 0; sn 0])
               end
           end) starts in
  let hve := map (fun st => has_valid_extensions N push tr stk st) starts in
  let fv := fold_left (fun v p => allow_token v p) filt (alloc_token_set tr) in
  let ftr := filter_trie tr fv in
  let fbias := add_bias N push ftr stk (alloc_token_set ftr) [] in
  let chop := map (fun c => chop_tokens N push tr stk c) chops in
  if existsb (fun o => negb (is_some o)) bias || existsb (fun o => negb (is_some o)) hve
     || negb (is_some fbias) || existsb (fun o => negb (is_some o)) chop
  then spanic
  else
    tagged "trie" [
      tagged "bias" (optmap (fun x => x) bias);
      tagged "hve" (map sb (optmap (fun x => x) hve));
      tagged "tokid" (map (fun w => sopt (token_id tr w)) lookups);
      tagged "greedy" (map (fun t => sns (greedy_tokenize tr t)) texts);
      tagged "sorted" (map (fun '(t, b) => SL [sn t; SX b]) (sorted_tokens tr));
      tagged "ftoks" (map (fun t => SX (token ftr t)) (seqN 0 (length ws)));
      tagged "fbias" [match fbias with Some (_, v) => sns (raw_list v) | None => SL [] end];
      tagged "toklen" [sns (map (token_len tr) (seqN 0 (length ws)))];
      tagged "decraw" [SX (decode_raw tr (seqN 0 (length ws)))];
      tagged "chop" (map (fun '(a, b) => sns [a; b]) (optmap (fun x => x) chop));
      tagged "maxlen" [sn (max_token_len tr)]
    ].

(* ---- SimpleVob register machine ---- *)
Definition reg3 := (svob * svob * svob)%type.
Definition rget (r : reg3) (i : N) : svob :=
  let '(a, b, c) := r in if i =? 0 then a else if i =? 1 then b else c.
Definition rset (r : reg3) (i : N) (v : svob) : reg3 :=
  let '(a, b, c) := r in if i =? 0 then (v, b, c) else if i =? 1 then (a, v, c) else (a, b, v).

Definition observe (v : svob) : sx :=
  SL [sn (vsize v); sns (words v); sns (to_list v); sn (num_set v);
      sopt (first_bit_set v); sns (iter_list v); sb (is_zero v)].

(* one operation: None = the implementation panics (precondition false) *)
Definition svob_op (r : reg3) (op : sx) : option (reg3 * N) :=
  let name := head_sym op in
  let a := tail_items op in
  let n i := as_n (nth_sx a i) in
  let is s := bytes_eqb name (sym s) in
  let d := n 0%nat in
  let v := rget r d in
  if is "alloc" then Some (rset r d (alloc (n 1%nat)), d)
  else if is "alloc_cap" then
    if alloc_with_capacity_pre (n 1%nat) (n 2%nat)
    then Some (rset r d (alloc_with_capacity (n 1%nat) (n 2%nat)), d) else None
  else if is "alloc_ones" then Some (rset r d (alloc_ones (n 1%nat)), d)
  else if is "set" then
    if set_pre v (n 1%nat) then Some (rset r d (set v (n 1%nat) (as_bool (nth_sx a 2))), d) else None
  else if is "range" then
    if allow_range_pre v (n 1%nat) (n 2%nat)
    then Some (rset r d (allow_range v (n 1%nat) (n 2%nat)), d) else None
  else if is "neg" then Some (rset r d (negated (rget r (n 1%nat))), d)
  else if is "or" then
    let o := rget r (n 1%nat) in
    if or_pre v o then Some (rset r d (vor v o), d) else None
  else if is "and" then
    let o := rget r (n 1%nat) in
    if same_size_pre v o then Some (rset r d (vand v o), d) else None
  else if is "sub" then
    let o := rget r (n 1%nat) in
    if same_size_pre v o then Some (rset r d (vsub v o), d) else None
  else if is "or_minus" then
    let o := rget r (n 1%nat) in
    let m := rget r (n 2%nat) in
    if or_minus_pre v o m then Some (rset r d (or_minus v o m), d) else None
  else if is "trim" then Some (rset r d (trim_trailing_zeros v), d)
  else if is "set_all" then Some (rset r d (set_all v (as_bool (nth_sx a 1))), d)
  else None.

Fixpoint run_svob_ops (r : reg3) (ops : list sx) : list sx :=
  match ops with
  | [] => []
  | op :: ops' =>
      match svob_op r op with
      | None => [spanic]
      | Some (r', d) => observe (rget r' d) :: run_svob_ops r' ops'
      end
  end.

Definition run_svob (ops : list sx) : sx :=
  tagged "svob" (run_svob_ops (svob_new, svob_new, svob_new) ops).

(* tokenizer descriptions: which bytes each vocabulary entry stands for *)
Definition run_bytelevel (a : list sx) : sx :=
  (* (bytelevel (cp cp ...) ...) : entries as code-point lists *)
  tagged "ok" (map (fun e => match decode_byte_level SELF_MAPPED_RANGES (as_ns e) with
                             | Some w => SX w
                             | None => SY (sym "skipped")
                             end) a).
Definition run_bytefallback (a : list sx) : sx :=
  (* (bytefallback x<utf8 of the space character> x<name> ...) *)
  let sp := as_bytes (nth_sx a 0) in
  tagged "ok" (map (fun e => match byte_fallback_bytes sp (as_bytes e) with
                             | FOk w => SX w
                             | FPanic => SY (sym "panic")
                             end) (tl a)).
Definition run_tiktoken (a : list sx) : sx :=
  (* (tiktoken n_override|-1 ((x<bytes> rank) ...) ((x<name> rank) ...)) *)
  let pairs l := map (fun e => (as_bytes (nth_sx (as_list e) 0), as_n (nth_sx (as_list e) 1))) (as_list l) in
  let ov := as_z (nth_sx a 0) in
  match tiktoken_tokens (pairs (nth_sx a 1)) (pairs (nth_sx a 2))
                        (if (ov <? 0)%Z then None else Some (Z.to_nat ov)) with
  | Some t => tagged "ok" (map SX t)
  | None => tagged "err" []
  end.

Definition run_case16 (x : sx) : sx :=
  let h := head_sym x in
  if bytes_eqb h (sym "trie") then run_trie (tail_items x)
  else if bytes_eqb h (sym "svob") then run_svob (tail_items x)
  else if bytes_eqb h (sym "bytelevel") then run_bytelevel (tail_items x)
  else if bytes_eqb h (sym "bytefallback") then run_bytefallback (tail_items x)
  else if bytes_eqb h (sym "tiktoken") then run_tiktoken (tail_items x)
  else SL [SY (sym "unknown")].
