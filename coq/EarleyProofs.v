(* EarleyProofs.v — the single-pass Earley recogniser of Earley.v (completion only
   for items started in earlier rows, nullable symbols advanced at prediction
   time) against derivations over lexeme sequences.
   STATEMENTS MARKED (*FIXED*) MUST NOT CHANGE. *)
From LLG Require Import Base Regex Lexer Earley.

(* derivation of a sequence of lexemes (terminals are single lexemes) *)
Inductive lderives (g : grammar) : gsym -> list lexidx -> Prop :=
| ld_term : forall lx, lderives g (TM lx) [lx]
| ld_nt : forall n rhs ls, In rhs (nt_alts g n) -> lderives_seq g rhs ls -> lderives g (NT n) ls
with lderives_seq (g : grammar) : list gsym -> list lexidx -> Prop :=
| lds_nil : lderives_seq g [] []
| lds_cons : forall s rest u v, lderives g s u -> lderives_seq g rest v ->
                                lderives_seq g (s :: rest) (u ++ v).

(* running the recogniser on a sequence of lexemes, one scan per lexeme *)
Fixpoint earley_run (g : grammar) (nl : list bool) (sp : lexspec) (rows : list row)
         (ls : list lexidx) : option (list row) :=
  match ls with
  | [] => Some rows
  | l :: ls' =>
      match scan_row g nl sp rows (MLSingle l) with
      | Some r => earley_run g nl sp (rows ++ [r]) ls'
      | None => None
      end
  end.

Definition earley_accepts (g : grammar) (sp : lexspec) (ls : list lexidx) : bool :=
  let nl := nullable_set g in
  match initial_row g nl with
  | None => false
  | Some r0 =>
      match earley_run g nl sp [r0] ls with
      | Some rows => row_is_accepting g (last rows (mk_row [] [] (MLSingle 0)))
      | None => false
      end
  end.

(* well-formed grammar: symbols in range; the start symbol occurs on no right-hand
   side (the front end wraps it) *)
Definition sym_ok (g : grammar) (s : gsym) : Prop :=
  match s with NT n => (N.to_nat n < length (g_rules g))%nat | TM _ => True end.
Definition wf_grammar (g : grammar) : Prop :=
  (N.to_nat (g_start g) < length (g_rules g))%nat /\
  (forall alts rhs s, In alts (g_rules g) -> In rhs alts -> In s rhs ->
                      sym_ok g s /\ s <> NT (g_start g)).

(*FIXED*) (* the nullable fixpoint is exact *)
Theorem nullable_set_correct : forall g n,
  wf_grammar g -> (N.to_nat n < length (g_rules g))%nat ->
  (nth (N.to_nat n) (nullable_set g) false = true <-> lderives g (NT n) []).
Proof. Admitted.

(*FIXED*) (* soundness: whatever the recogniser accepts is derivable *)
Theorem earley_sound : forall g sp ls,
  wf_grammar g -> earley_accepts g sp ls = true -> lderives g (NT (g_start g)) ls.
Proof. Admitted.

(*FIXED*) (* completeness: every derivable lexeme sequence is accepted *)
Theorem earley_complete : forall g sp ls,
  wf_grammar g -> lderives g (NT (g_start g)) ls -> earley_accepts g sp ls = true.
Proof. Admitted.

(*FIXED*) (* viable prefixes: the recogniser keeps going exactly on prefixes of derivable sequences
   (for grammars in which every nonterminal derives something) *)
Definition productive (g : grammar) : Prop :=
  forall n, (N.to_nat n < length (g_rules g))%nat -> exists ls, lderives g (NT n) ls.
Theorem earley_viable : forall g sp ls,
  wf_grammar g -> productive g ->
  ((exists rows, earley_run g (nullable_set g) sp
                   (match initial_row g (nullable_set g) with Some r0 => [r0] | None => [] end) ls = Some rows
                 /\ initial_row g (nullable_set g) <> None)
   <-> exists ls', lderives g (NT (g_start g)) (ls ++ ls')).
Proof. Admitted.

(*FIXED*) (* the lexemes a row allows are exactly the terminals after some dot of the row *)
Theorem allowed_lexemes_exact : forall g nl rows_before seed lexeme r lx,
  close_row g nl rows_before seed lexeme = Some r ->
  (In lx (r_allowed r) <-> exists it, In it (r_items r) /\ after_dot g it = Some (TM lx)).
Proof. Admitted.
