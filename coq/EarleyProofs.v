(* EarleyProofs.v — the single-pass Earley recogniser of Earley.v (completion only
   for items started in earlier rows, nullable symbols advanced at prediction
   time) against derivations over lexeme sequences.
   STATEMENTS MARKED (*FIXED*) MUST NOT CHANGE. *)
From LLG Require Import Base Regex Lexer Earley.
From LLG Require Import EarleyAgenda.

(* derivation of a sequence of lexemes (terminals are single lexemes) *)
Inductive lderives (g : grammar) : gsym -> list lexidx -> Prop :=
| ld_term : forall lx, lderives g (TM lx) [lx]
| ld_nt : forall n rhs ls, In rhs (nt_alts g n) -> lderives_seq g rhs ls -> lderives g (NT n) ls
with lderives_seq (g : grammar) : list gsym -> list lexidx -> Prop :=
| lds_nil : lderives_seq g [] []
| lds_cons : forall s rest u v, lderives g s u -> lderives_seq g rest v ->
                                lderives_seq g (s :: rest) (u ++ v).

(* running the recogniser on a sequence of lexemes, one scan per lexeme *)
Fixpoint earley_run (g : grammar) (nl : list bool) (sp : lexspec) (rows : list row)
         (ls : list lexidx) : option (list row) :=
  match ls with
  | [] => Some rows
  | l :: ls' =>
      match scan_row g nl sp rows (MLSingle l) with
      | Some r => earley_run g nl sp (rows ++ [r]) ls'
      | None => None
      end
  end.

Definition earley_accepts (g : grammar) (sp : lexspec) (ls : list lexidx) : bool :=
  let nl := nullable_set g in
  match initial_row g nl with
  | None => false
  | Some r0 =>
      match earley_run g nl sp [r0] ls with
      | Some rows => row_is_accepting g (last rows (mk_row [] [] (MLSingle 0)))
      | None => false
      end
  end.

(* well-formed grammar: symbols in range; the start symbol occurs on no right-hand
   side (the front end wraps it) *)
Definition sym_ok (g : grammar) (s : gsym) : Prop :=
  match s with NT n => (N.to_nat n < length (g_rules g))%nat | TM _ => True end.
Definition wf_grammar (g : grammar) : Prop :=
  (N.to_nat (g_start g) < length (g_rules g))%nat /\
  (forall alts rhs s, In alts (g_rules g) -> In rhs alts -> In s rhs ->
                      sym_ok g s /\ s <> NT (g_start g)).

(* ====================================================================== *)
(* mutual induction over derivations *)
Scheme lderives_min := Minimality for lderives Sort Prop
  with lderives_seq_min := Minimality for lderives_seq Sort Prop.
Combined Scheme lderives_mutind from lderives_min, lderives_seq_min.

Lemma lderives_seq_app g a x : lderives_seq g a x ->
  forall b y, lderives_seq g b y -> lderives_seq g (a ++ b) (x ++ y).
Proof.
  induction 1 as [|s rest u v Hs Hr IH]; intros b y Hb; simpl; auto.
  rewrite <- app_assoc. constructor; auto.
Qed.

Lemma lderives_seq_one g s u : lderives g s u -> lderives_seq g [s] u.
Proof.
  intros H. rewrite <- (app_nil_r u). constructor; auto. constructor.
Qed.

Lemma lderives_seq_split g a : forall b t, lderives_seq g (a ++ b) t ->
  exists t1 t2, t = t1 ++ t2 /\ lderives_seq g a t1 /\ lderives_seq g b t2.
Proof.
  induction a as [|s a IH]; intros b t H; simpl in H.
  - exists [], t. split; auto. split; auto. constructor.
  - inversion H as [|s' rest u v Hs Hr]; subst.
    destruct (IH _ _ Hr) as [t1 [t2 [E [H1 H2]]]]. subst v.
    exists (u ++ t1), t2. rewrite app_assoc. split; auto. split; auto. constructor; auto.
Qed.

(* ====================================================================== *)
(* nullable_set *)
Section Nullable.
Variable g : grammar.

Definition nl_sound (nl : list bool) : Prop :=
  forall n, nth (N.to_nat n) nl false = true -> lderives g (NT n) [].

Lemma step_nth nl i :
  nth i (nullable_step g nl) false =
  existsb (fun rhs => forallb (sym_nullable nl) rhs) (nth i (g_rules g) []).
Proof.
  unfold nullable_step.
  rewrite <- (map_nth (fun alts => existsb (fun rhs => forallb (sym_nullable nl) rhs) alts) (g_rules g) [] i).
  reflexivity.
Qed.

Lemma seq_nullable_derives nl rhs :
  nl_sound nl -> forallb (sym_nullable nl) rhs = true -> lderives_seq g rhs [].
Proof.
  intros Hs. induction rhs as [|s rhs IH]; intros H.
  - constructor.
  - simpl in H. apply andb_true_iff in H. destruct H as [H1 H2].
    change (@nil lexidx) with (@nil lexidx ++ []). constructor; auto.
    destruct s as [i|lx]; simpl in H1; [|discriminate]. apply Hs; exact H1.
Qed.

Lemma step_sound nl : nl_sound nl -> nl_sound (nullable_step g nl).
Proof.
  intros Hs n Hn. rewrite step_nth in Hn. apply existsb_exists in Hn.
  destruct Hn as [rhs [Hin Hf]]. apply ld_nt with (rhs := rhs); auto.
  eapply seq_nullable_derives; eauto.
Qed.

Lemma iter_sound fuel : forall nl, nl_sound nl -> nl_sound (nullable_iter fuel g nl).
Proof.
  induction fuel as [|f IH]; intros nl Hs; simpl; auto.
  destruct (list_eqb Bool.eqb nl (nullable_step g nl)); auto.
  apply IH. apply step_sound; auto.
Qed.

Lemma nth_map_false {A} (l : list A) i : nth i (map (fun _ => false) l) false = false.
Proof.
  revert i. induction l as [|x l IH]; intros i; destruct i; simpl; auto.
Qed.

Lemma init_sound : nl_sound (map (fun _ => false) (g_rules g)).
Proof. intros n Hn. rewrite nth_map_false in Hn. discriminate. Qed.

(* monotone iteration reaches a fixpoint *)
Definition ble (a b : list bool) : Prop := forall i, nth i a false = true -> nth i b false = true.

Fixpoint cnt (l : list bool) : nat :=
  match l with [] => 0%nat | b :: l' => ((if b then 1 else 0) + cnt l')%nat end.

Lemma cnt_le_length l : (cnt l <= length l)%nat.
Proof. induction l as [|b l IH]; simpl; auto. destruct b; lia. Qed.

Lemma list_eqb_bool_eq a : forall b, list_eqb Bool.eqb a b = true -> a = b.
Proof.
  induction a as [|x a IH]; intros [|y b] H; simpl in H; try discriminate; auto.
  apply andb_true_iff in H. destruct H as [H1 H2]. apply Bool.eqb_prop in H1. subst.
  f_equal. apply IH; auto.
Qed.

Lemma ble_cnt a : forall b, length a = length b -> ble a b ->
  (cnt a <= cnt b)%nat /\ (list_eqb Bool.eqb a b = false -> (cnt a < cnt b)%nat).
Proof.
  induction a as [|x a IH]; intros [|y b] Hlen Hle; simpl in Hlen; try discriminate.
  - simpl. split; auto. discriminate.
  - assert (Hle' : ble a b). { intros i Hi. apply (Hle (S i)). exact Hi. }
    assert (Hxy : x = true -> y = true). { intros Hx. apply (Hle 0%nat). exact Hx. }
    destruct (IH b) as [H1 H2]; auto. simpl.
    destruct x, y; simpl; try (specialize (Hxy eq_refl); discriminate).
    + split; [lia|]. intros H. specialize (H2 H). lia.
    + split; [lia|]. intros _. lia.
    + split; [lia|]. intros H. specialize (H2 H). lia.
Qed.

Lemma sym_nullable_mono a b s : ble a b -> sym_nullable a s = true -> sym_nullable b s = true.
Proof. intros Hle. destruct s as [i|lx]; simpl; auto. Qed.

Lemma step_mono a b : ble a b -> ble (nullable_step g a) (nullable_step g b).
Proof.
  intros Hle i. rewrite !step_nth. intros H. apply existsb_exists in H.
  destruct H as [rhs [Hin Hf]]. apply existsb_exists. exists rhs. split; auto.
  rewrite forallb_forall in *. intros s Hs. eapply sym_nullable_mono; eauto.
Qed.

Lemma step_length nl : length (nullable_step g nl) = length (g_rules g).
Proof. unfold nullable_step. apply map_length. Qed.

Lemma iter_fix fuel : forall nl,
  length nl = length (g_rules g) -> ble nl (nullable_step g nl) ->
  (length (g_rules g) - cnt nl < fuel)%nat ->
  nullable_step g (nullable_iter fuel g nl) = nullable_iter fuel g nl.
Proof.
  induction fuel as [|f IH]; intros nl Hlen Hle Hf; [lia|].
  simpl. destruct (list_eqb Bool.eqb nl (nullable_step g nl)) eqn:E.
  - apply list_eqb_bool_eq in E. symmetry. exact E.
  - apply IH.
    + apply step_length.
    + apply step_mono. exact Hle.
    + destruct (ble_cnt nl (nullable_step g nl)) as [_ H2]; auto.
      { rewrite step_length. exact Hlen. }
      specialize (H2 E). pose proof (cnt_le_length (nullable_step g nl)) as H3.
      rewrite step_length in H3. lia.
Qed.

Lemma nullable_set_fix : nullable_step g (nullable_set g) = nullable_set g.
Proof.
  unfold nullable_set. apply iter_fix.
  - apply map_length.
  - intros i Hi. rewrite nth_map_false in Hi. discriminate.
  - lia.
Qed.

Lemma nullable_set_sound : nl_sound (nullable_set g).
Proof. unfold nullable_set. apply iter_sound. apply init_sound. Qed.

Lemma fix_complete nl : nullable_step g nl = nl ->
  (forall s ls, lderives g s ls -> ls = [] -> sym_nullable nl s = true) /\
  (forall rhs ls, lderives_seq g rhs ls -> ls = [] -> forallb (sym_nullable nl) rhs = true).
Proof.
  intros Hfix. apply lderives_mutind.
  - intros lx H. discriminate.
  - intros n rhs ls Hin Hseq IH Hls. simpl. rewrite <- Hfix, step_nth.
    apply existsb_exists. exists rhs. split; auto.
  - auto.
  - intros s rest u v Hs IHs Hr IHr Huv. apply app_eq_nil in Huv. destruct Huv as [Hu Hv].
    simpl. rewrite IHs, IHr; auto.
Qed.

Lemma nullable_set_complete n : lderives g (NT n) [] -> nth (N.to_nat n) (nullable_set g) false = true.
Proof.
  intros H. destruct (fix_complete _ nullable_set_fix) as [H1 _].
  apply (H1 _ _ H eq_refl).
Qed.
End Nullable.

(*FIXED*) (* the nullable fixpoint is exact *)
Theorem nullable_set_correct : forall g n,
  wf_grammar g -> (N.to_nat n < length (g_rules g))%nat ->
  (nth (N.to_nat n) (nullable_set g) false = true <-> lderives g (NT n) []).
Proof.
  intros g n _ _. split.
  - apply nullable_set_sound.
  - apply nullable_set_complete.
Qed.

(* ====================================================================== *)
(* list facts *)
Definition sub (w : list lexidx) (i j : nat) : list lexidx := firstn (j - i) (skipn i w).

Lemma firstn_skipn_add {A} (a b : nat) : forall l : list A,
  firstn a l ++ firstn b (skipn a l) = firstn (a + b) l.
Proof.
  induction a as [|a IH]; intros l; simpl; auto.
  destruct l as [|x l]; simpl.
  - rewrite firstn_nil. reflexivity.
  - rewrite IH. reflexivity.
Qed.

Lemma skipn_skipn' {A} (a b : nat) : forall l : list A, skipn a (skipn b l) = skipn (b + a) l.
Proof.
  induction b as [|b IH]; intros l; simpl; auto.
  destruct l as [|x l]; simpl; auto. destruct a; reflexivity.
Qed.

Lemma sub_app w s m i : (s <= m)%nat -> (m <= i)%nat -> sub w s m ++ sub w m i = sub w s i.
Proof.
  intros H1 H2. unfold sub.
  replace (skipn m w) with (skipn (m - s) (skipn s w)).
  - rewrite firstn_skipn_add. f_equal. lia.
  - rewrite skipn_skipn'. f_equal. lia.
Qed.

Lemma sub_nil w i : sub w i i = [].
Proof. unfold sub. rewrite Nat.sub_diag. reflexivity. Qed.

Lemma sub_one w : forall k l, nth_error w k = Some l -> sub w k (S k) = [l].
Proof.
  unfold sub. intros k l H. replace (S k - k)%nat with 1%nat by lia.
  revert k H. induction w as [|x w IH]; intros k H; destruct k; simpl in *; try discriminate.
  - inversion H; subst. destruct w; reflexivity.
  - apply IH. exact H.
Qed.

Lemma sub_0 w n : sub w 0 n = firstn n w.
Proof. unfold sub. rewrite Nat.sub_0_r. reflexivity. Qed.

Lemma firstn_S_nth {A} (l : list A) : forall n x, nth_error l n = Some x ->
  firstn (S n) l = firstn n l ++ [x].
Proof.
  induction l as [|y l IH]; intros n x H; destruct n; simpl in *; try discriminate.
  - inversion H; subst. reflexivity.
  - f_equal. apply IH. exact H.
Qed.

Lemma nth_error_split' {A} (l : list A) : forall n x, nth_error l n = Some x ->
  l = firstn n l ++ x :: skipn (S n) l.
Proof.
  induction l as [|y l IH]; intros n x H; destruct n; simpl in *; try discriminate.
  - inversion H; subst. reflexivity.
  - f_equal. apply IH. exact H.
Qed.

Lemma last_nth_len {A} (d : A) : forall l n, length l = S n -> last l d = nth n l d.
Proof.
  induction l as [|x l IH]; intros n H; simpl in H; [discriminate|].
  destruct l as [|y l].
  - simpl in H. inversion H; subst. reflexivity.
  - destruct n as [|n]; [simpl in H; discriminate|].
    change (last (x :: y :: l) d) with (last (y :: l) d). rewrite (IH n); auto.
Qed.

Lemma In_optmap {A B} (f : A -> option B) l y :
  In y (optmap f l) <-> exists x, In x l /\ f x = Some y.
Proof.
  induction l as [|x l IH]; simpl.
  - split; [intros []|intros [x [[] _]]].
  - destruct (f x) as [z|] eqn:E; simpl; rewrite IH; split.
    + intros [H|[x' [H1 H2]]]; [subst; exists x; auto|exists x'; auto].
    + intros [x' [[H1|H1] H2]]; [subst; left; congruence|right; exists x'; auto].
    + intros [x' [H1 H2]]; exists x'; auto.
    + intros [x' [[H1|H1] H2]]; [subst; congruence|exists x'; auto].
Qed.

Lemma NoDup_optmap {A B} (f : A -> option B) l :
  (forall x x' y, f x = Some y -> f x' = Some y -> x = x') -> NoDup l -> NoDup (optmap f l).
Proof.
  intros Hinj Hnd. induction Hnd as [|x l Hx Hnd IH]; simpl; [constructor|].
  destruct (f x) as [z|] eqn:E; auto. constructor; auto.
  intros H. apply In_optmap in H. destruct H as [x' [H1 H2]].
  assert (x = x') by (eapply Hinj; eauto). subst. auto.
Qed.

Lemma NoDup_map_inj {A B} (f : A -> B) l :
  (forall x y, f x = f y -> x = y) -> NoDup l -> NoDup (map f l).
Proof.
  intros Hinj Hnd. induction Hnd as [|x l Hx Hnd IH]; simpl; constructor; auto.
  intros H. apply in_map_iff in H. destruct H as [y [H1 H2]]. apply Hinj in H1. subst; auto.
Qed.

(* ====================================================================== *)
(* rows *)
Definition rowi (rows : list row) (k : nat) : list item := r_items (nth k rows dummy_row).

Lemma rowi_app1 rows r k : (k < length rows)%nat -> rowi (rows ++ [r]) k = rowi rows k.
Proof. intros H. unfold rowi. rewrite app_nth1; auto. Qed.

Lemma rowi_app2 rows r : rowi (rows ++ [r]) (length rows) = r_items r.
Proof. unfold rowi. rewrite app_nth2, Nat.sub_diag; auto. Qed.

Lemma nth_app_last rows (r : row) : nth (length rows) (rows ++ [r]) dummy_row = r.
Proof. rewrite app_nth2, Nat.sub_diag; auto. Qed.

Definition scan_seed (g : grammar) (set : list lexidx) (top : list item) : list item :=
  optmap (fun it => match after_dot g it with
                    | Some (TM lx) => if existsb (N.eqb lx) set then Some (advance_dot it) else None
                    | _ => None
                    end) top.

Lemma scan_row_unfold g nl sp rows0 top lexeme :
  scan_row g nl sp (rows0 ++ [top]) lexeme =
  close_row g nl (rows0 ++ [top]) (scan_seed g (lexemes_from_idx sp lexeme) (r_items top)) lexeme.
Proof. unfold scan_row. rewrite rev_app_distr. reflexivity. Qed.

Lemma rows_last_split (rows : list row) n : length rows = S n ->
  exists rows0, rows = rows0 ++ [nth n rows dummy_row] /\ length rows0 = n.
Proof.
  intros Hlen. assert (Hne : rows <> []) by (intros ->; discriminate).
  destruct (exists_last Hne) as [rows0 [top E]]. subst rows.
  rewrite app_length in Hlen. simpl in Hlen. assert (length rows0 = n) by lia. subst n.
  exists rows0. rewrite nth_app_last. auto.
Qed.

Lemma in_scan_seed g l top x :
  In x (scan_seed g [l] top) <->
  exists it, In it top /\ after_dot g it = Some (TM l) /\ x = advance_dot it.
Proof.
  unfold scan_seed. rewrite In_optmap. split.
  - intros [it [Hin H]]. exists it. split; auto.
    destruct (after_dot g it) as [[n|lx]|]; try discriminate. simpl in H.
    destruct (lx =? l) eqn:E; simpl in H; try discriminate. apply N.eqb_eq in E. subst.
    inversion H; auto.
  - intros [it [Hin [Ha Hx]]]. exists it. split; auto. rewrite Ha. simpl.
    rewrite N.eqb_refl. simpl. subst; auto.
Qed.

Lemma advance_dot_inj a b : advance_dot a = advance_dot b -> a = b.
Proof.
  destruct a, b. unfold advance_dot. simpl. intros H. inversion H. f_equal. lia.
Qed.

Lemma nodup_scan_seed g set top : NoDup top -> NoDup (scan_seed g set top).
Proof.
  intros H. unfold scan_seed. apply NoDup_optmap; auto.
  intros x x' y Hx Hx'.
  destruct (after_dot g x) as [[n|lx]|]; try discriminate.
  destruct (existsb (N.eqb lx) set); try discriminate.
  destruct (after_dot g x') as [[n'|lx']|]; try discriminate.
  destruct (existsb (N.eqb lx') set); try discriminate.
  inversion Hx; inversion Hx'; subst. apply advance_dot_inj. congruence.
Qed.

Lemma nt_alts_in g n rhs : In rhs (nt_alts g n) ->
  In (nt_alts g n) (g_rules g) /\ (N.to_nat n < length (g_rules g))%nat.
Proof.
  unfold nt_alts. intros H.
  destruct (Nat.lt_ge_cases (N.to_nat n) (length (g_rules g))) as [Hlt|Hge].
  - split; auto. apply nth_In. exact Hlt.
  - rewrite nth_overflow in H by exact Hge. destruct H.
Qed.

Lemma lenN_of_nat {A} (l : list A) : lenN l = N.of_nat (length l).
Proof. reflexivity. Qed.

(* ====================================================================== *)
(* soundness invariant *)
Section Sound.
Variable g : grammar.
Hypothesis Hwf : wf_grammar g.
Variable w : list lexidx.
Let nl := nullable_set g.

Definition ctx (X : N) (s : nat) : Prop :=
  exists delta, Forall (sym_ok g) delta /\
    forall u t, lderives g (NT X) u -> lderives_seq g delta t ->
                lderives g (NT (g_start g)) (firstn s w ++ u ++ t).

Definition sinv (k : nat) (it : item) : Prop :=
  In (item_rhs g it) (nt_alts g (it_nt it)) /\
  (N.to_nat (it_dot it) <= length (item_rhs g it))%nat /\
  (N.to_nat (it_start it) <= k)%nat /\
  lderives_seq g (firstn (N.to_nat (it_dot it)) (item_rhs g it)) (sub w (N.to_nat (it_start it)) k) /\
  (it_nt it = g_start g -> it_start it = 0) /\
  ctx (it_nt it) (N.to_nat (it_start it)).

Lemma sinv_advance m j it s :
  sinv m it -> after_dot g it = Some s -> (m <= j)%nat -> lderives g s (sub w m j) ->
  sinv j (advance_dot it).
Proof.
  intros [H1 [H2 [H3 [H4 [H5 H6]]]]] Had Hmj Hs.
  destruct (after_dot_some_ok _ _ _ Had) as [_ Hlt].
  unfold sinv. rewrite item_rhs_advance. unfold advance_dot at 1 2 3 4 5 6. cbn [it_nt it_alt it_dot it_start].
  split; [|split; [|split; [|split; [|split]]]]; auto.
  - lia.
  - lia.
  - replace (N.to_nat (it_dot it + 1)) with (S (N.to_nat (it_dot it))) by lia.
    rewrite (firstn_S_nth _ _ _ Had).
    rewrite <- (sub_app w (N.to_nat (it_start it)) m j) by lia.
    apply lderives_seq_app; auto. apply lderives_seq_one; auto.
Qed.

Lemma sinv_complete k it :
  sinv k it -> after_dot g it = None ->
  lderives g (NT (it_nt it)) (sub w (N.to_nat (it_start it)) k).
Proof.
  intros [H1 [H2 [H3 [H4 _]]]] Had. unfold after_dot in Had. apply nth_error_None in Had.
  rewrite firstn_all2 in H4 by lia. eapply ld_nt; eauto.
Qed.

Lemma sinv_rhs_wf k it s :
  sinv k it -> In s (item_rhs g it) -> sym_ok g s /\ s <> NT (g_start g).
Proof.
  intros [H1 _] Hs. destruct Hwf as [_ Hw]. destruct (nt_alts_in _ _ _ H1) as [Hin _].
  eapply Hw; eauto.
Qed.

Lemma sinv_predict k it n a :
  sinv k it -> after_dot g it = Some (NT n) -> (a < length (nt_alts g n))%nat ->
  sinv k (mk_item n (N.of_nat a) 0 (N.of_nat k)).
Proof.
  intros Hinv Had Ha. pose proof Hinv as [H1 [H2 [H3 [H4 [H5 H6]]]]].
  assert (Hin : In (NT n) (item_rhs g it)) by (eapply nth_error_In; exact Had).
  destruct (sinv_rhs_wf _ _ _ Hinv Hin) as [Hok Hne].
  unfold sinv, item_rhs. cbn [it_nt it_alt it_dot it_start]. rewrite !Nat2N.id.
  split; [|split; [|split; [|split; [|split]]]].
  - apply nth_In. exact Ha.
  - simpl. lia.
  - lia.
  - simpl. rewrite sub_nil. constructor.
  - intros E. subst n. congruence.
  - destruct H6 as [delta [Hd1 Hd2]].
    exists (skipn (S (N.to_nat (it_dot it))) (item_rhs g it) ++ delta). split.
    + apply Forall_app. split; auto. apply Forall_forall. intros s Hs.
      eapply (sinv_rhs_wf k it); eauto.
      rewrite <- (firstn_skipn (S (N.to_nat (it_dot it))) (item_rhs g it)). apply in_app_iff. auto.
    + intros u t Hu Ht. apply lderives_seq_split in Ht. destruct Ht as [t1 [t2 [Et [Ht1 Ht2]]]]. subst t.
      assert (HX : lderives g (NT (it_nt it)) (sub w (N.to_nat (it_start it)) k ++ u ++ t1)).
      { apply ld_nt with (rhs := item_rhs g it); auto.
        rewrite (nth_error_split' _ _ _ Had) at 1.
        apply lderives_seq_app; auto. constructor; auto. }
      specialize (Hd2 _ _ HX Ht2).
      replace (firstn k w ++ u ++ t1 ++ t2)
        with (firstn (N.to_nat (it_start it)) w ++ (sub w (N.to_nat (it_start it)) k ++ u ++ t1) ++ t2); auto.
      rewrite <- (sub_0 w k), <- (sub_0 w (N.to_nat (it_start it))).
      rewrite <- (sub_app w 0 (N.to_nat (it_start it)) k) by lia.
      rewrite <- !app_assoc. reflexivity.
Qed.

Lemma sinv_initial a : (a < length (nt_alts g (g_start g)))%nat ->
  sinv 0 (mk_item (g_start g) (N.of_nat a) 0 0).
Proof.
  intros Ha. unfold sinv, item_rhs. cbn [it_nt it_alt it_dot it_start]. rewrite !Nat2N.id.
  split; [|split; [|split; [|split; [|split]]]]; auto.
  - apply nth_In. exact Ha.
  - simpl. lia.
  - simpl. rewrite sub_nil. constructor.
  - exists []. split; [constructor|]. intros u t Hu Ht. inversion Ht; subst.
    simpl. rewrite app_nil_r. exact Hu.
Qed.

Definition rows_sinv (rows : list row) : Prop :=
  forall k, (k < length rows)%nat ->
            rowi rows k <> [] /\ forall it, In it (rowi rows k) -> sinv k it.

Lemma sinv_added rb it x :
  rows_sinv rb -> sinv (length rb) it -> added g nl rb (lenN rb) it x -> sinv (length rb) x.
Proof.
  intros Hrb Hinv. unfold added. destruct (after_dot g it) as [[n|lx]|] eqn:Had.
  - intros [H|[Hn Hx]].
    + apply in_initial_items in H. destruct H as [a [Ha Hx]]. subst x.
      rewrite lenN_of_nat. eapply sinv_predict; eauto.
    + subst x. apply (sinv_advance (length rb) (length rb) it (NT n)); auto.
      rewrite sub_nil. apply nullable_set_sound. exact Hn.
  - intros [].
  - intros [Hlt [it' [Hin [Had' Hx]]]]. subst x. rewrite lenN_of_nat in Hlt.
    assert (Hs : (N.to_nat (it_start it) < length rb)%nat) by lia.
    destruct (Hrb _ Hs) as [_ Hr]. specialize (Hr it' Hin).
    apply (sinv_advance (N.to_nat (it_start it)) (length rb) it' (NT (it_nt it))); auto; [lia|].
    apply sinv_complete; auto.
Qed.

Lemma close_row_nonempty nl' rb seed lexeme r :
  close_row g nl' rb seed lexeme = Some r -> r_items r <> [].
Proof.
  unfold close_row. destruct (agenda _ _ _ _ _ _ _ _) as [its al].
  destruct its; [discriminate|]. intros H; inversion H; subst. simpl. discriminate.
Qed.

Lemma close_row_sinv rb seed lexeme r :
  rows_sinv rb -> (forall x, In x seed -> sinv (length rb) x) ->
  close_row g nl rb seed lexeme = Some r ->
  rows_sinv (rb ++ [r]).
Proof.
  intros Hrb Hseed Hc k Hk. rewrite app_length in Hk. simpl in Hk.
  destruct (Nat.eq_dec k (length rb)) as [->|Hne].
  - rewrite rowi_app2. split; [eapply close_row_nonempty; eauto|].
    apply (close_row_min g nl rb seed lexeme r (sinv (length rb))); auto.
    intros it x Hit Hadd. eapply sinv_added; eauto.
  - rewrite rowi_app1 by lia. apply Hrb. lia.
Qed.

Variable sp : lexspec.

Lemma run_sinv : forall rest done rows rows',
  w = done ++ rest -> length rows = S (length done) -> rows_sinv rows ->
  earley_run g nl sp rows rest = Some rows' ->
  length rows' = S (length w) /\ rows_sinv rows'.
Proof.
  induction rest as [|l rest IH]; intros done rows rows' Hw Hlen Hinv Hrun.
  - simpl in Hrun. inversion Hrun; subst rows'. rewrite app_nil_r in Hw. subst. auto.
  - simpl in Hrun. destruct (scan_row g nl sp rows (MLSingle l)) as [r|] eqn:Hscan; [|discriminate].
    destruct (rows_last_split rows _ Hlen) as [rows0 [Erows Hl0]].
    rewrite Erows in Hscan at 1. rewrite scan_row_unfold in Hscan. rewrite <- Erows in Hscan.
    apply (IH (done ++ [l]) (rows ++ [r])); auto.
    + rewrite <- app_assoc. exact Hw.
    + rewrite !app_length. simpl. lia.
    + eapply close_row_sinv; eauto.
      intros x Hx. simpl in Hx. apply in_scan_seed in Hx. destruct Hx as [it [Hin [Had Hx]]]. subst x.
      destruct (Hinv (length done)) as [_ Hr]; [lia|]. specialize (Hr it Hin).
      rewrite Hlen. apply (sinv_advance (length done) (S (length done)) it (TM l)); auto.
      rewrite (sub_one w (length done) l); [constructor|].
      rewrite Hw. rewrite nth_error_app2, Nat.sub_diag; auto.
Qed.

Lemma initial_row_sinv r0 : initial_row g nl = Some r0 -> rows_sinv [r0].
Proof.
  intros H. unfold initial_row in H.
  apply (close_row_sinv [] _ _ r0) in H; auto.
  - intros k Hk. simpl in Hk. lia.
  - intros x Hx. apply in_initial_items in Hx. destruct Hx as [a [Ha Hx]]. subst x.
    apply sinv_initial. exact Ha.
Qed.
End Sound.

(*FIXED*) (* soundness: whatever the recogniser accepts is derivable *)
Theorem earley_sound : forall g sp ls,
  wf_grammar g -> earley_accepts g sp ls = true -> lderives g (NT (g_start g)) ls.
Proof.
  intros g sp ls Hwf Hacc. unfold earley_accepts in Hacc.
  destruct (initial_row g (nullable_set g)) as [r0|] eqn:Hinit; [|discriminate].
  destruct (earley_run g (nullable_set g) sp [r0] ls) as [rows|] eqn:Hrun; [|discriminate].
  pose proof (initial_row_sinv g Hwf ls r0 Hinit) as H0.
  destruct (run_sinv g Hwf ls sp ls [] [r0] rows) as [Hlen Hinv]; auto.
  rewrite (last_nth_len _ rows (length ls)) in Hacc by exact Hlen.
  unfold row_is_accepting in Hacc. apply existsb_exists in Hacc. destruct Hacc as [it [Hin Hit]].
  destruct (after_dot g it) eqn:Had; [discriminate|]. apply N.eqb_eq in Hit.
  destruct (Hinv (length ls)) as [_ Hr]; [lia|]. specialize (Hr it Hin).
  pose proof (sinv_complete g ls _ _ Hr Had) as Hd.
  destruct Hr as [_ [_ [_ [_ [H5 _]]]]]. rewrite (H5 Hit) in Hd. rewrite Hit in Hd.
  change (N.to_nat 0) with 0%nat in Hd. rewrite sub_0, firstn_all in Hd. exact Hd.
Qed.

(* ====================================================================== *)
(* completeness: closed charts *)
Section Chart.
Variable g : grammar.
Variable nl : list bool.

Record good (w : list lexidx) (rows : list row) : Prop := mk_good {
  gd_ok : forall k it, (k < length rows)%nat -> In it (rowi rows k) -> ok g (N.of_nat k) it;
  gd_nodup : forall k, (k < length rows)%nat -> NoDup (rowi rows k);
  gd_pred : forall k it n, (k < length rows)%nat -> In it (rowi rows k) ->
      after_dot g it = Some (NT n) ->
      (forall a, (a < length (nt_alts g n))%nat ->
                 In (mk_item n (N.of_nat a) 0 (N.of_nat k)) (rowi rows k)) /\
      (nth (N.to_nat n) nl false = true -> In (advance_dot it) (rowi rows k));
  gd_comp : forall k it it', (k < length rows)%nat -> In it (rowi rows k) ->
      after_dot g it = None -> (N.to_nat (it_start it) < k)%nat ->
      In it' (rowi rows (N.to_nat (it_start it))) -> after_dot g it' = Some (NT (it_nt it)) ->
      In (advance_dot it') (rowi rows k);
  gd_scan : forall k it lx, (S k < length rows)%nat -> In it (rowi rows k) ->
      after_dot g it = Some (TM lx) -> nth_error w k = Some lx ->
      In (advance_dot it) (rowi rows (S k));
  gd_allowed : forall k lx, (k < length rows)%nat ->
      (In lx (r_allowed (nth k rows dummy_row)) <->
       exists it, In it (rowi rows k) /\ after_dot g it = Some (TM lx))
}.

Lemma good_rb_ok w rows : good w rows -> rb_ok rows (lenN rows).
Proof.
  intros Hg r it Hr Hit. apply (In_nth _ _ dummy_row) in Hr. destruct Hr as [k [Hk Er]].
  assert (Hok : ok g (N.of_nat k) it). { eapply gd_ok; eauto. unfold rowi. rewrite Er. exact Hit. }
  destruct Hok as [_ [_ Hs]]. rewrite lenN_of_nat. lia.
Qed.

(* appending a row built by close_row from a duplicate-free in-range seed that
   contains the scan successors of the last row *)
Lemma good_snoc w rows seed lexeme r :
  good w rows ->
  NoDup seed -> (forall x, In x seed -> ok g (lenN rows) x) ->
  (forall k it lx, S k = length rows -> In it (rowi rows k) -> after_dot g it = Some (TM lx) ->
                   nth_error w k = Some lx -> In (advance_dot it) seed) ->
  close_row g nl rows seed lexeme = Some r ->
  good w (rows ++ [r]).
Proof.
  intros Hg Hnd Hok Hscan Hc.
  pose proof (close_row_incl _ _ _ _ _ _ Hc) as Hincl.
  destruct (close_row_spec g nl rows seed lexeme r Hnd Hok (good_rb_ok _ _ Hg) Hc) as [C1 [C2 [C3 C4]]].
  assert (Hlen : length (rows ++ [r]) = S (length rows)) by (rewrite app_length; simpl; lia).
  constructor.
  - intros k it Hk Hin. rewrite Hlen in Hk. destruct (Nat.eq_dec k (length rows)) as [->|Hne].
    + rewrite rowi_app2 in Hin. apply C2. exact Hin.
    + rewrite rowi_app1 in Hin by lia. eapply gd_ok; eauto. lia.
  - intros k Hk. rewrite Hlen in Hk. destruct (Nat.eq_dec k (length rows)) as [->|Hne].
    + rewrite rowi_app2. exact C1.
    + rewrite rowi_app1 by lia. eapply gd_nodup; eauto. lia.
  - intros k it n Hk Hin Had. rewrite Hlen in Hk. destruct (Nat.eq_dec k (length rows)) as [->|Hne].
    + rewrite rowi_app2 in *. split.
      * intros a Ha. apply (C3 it); auto. unfold added. rewrite Had. left.
        apply in_initial_items. exists a. split; auto.
      * intros Hn. apply (C3 it); auto. unfold added. rewrite Had. right. auto.
    + rewrite rowi_app1 in * by lia. eapply gd_pred; eauto. lia.
  - intros k it it' Hk Hin Had Hs Hin' Had'. rewrite Hlen in Hk.
    rewrite rowi_app1 in Hin' by lia.
    destruct (Nat.eq_dec k (length rows)) as [->|Hne].
    + rewrite rowi_app2 in *. apply (C3 it); auto. unfold added. rewrite Had. split.
      * rewrite lenN_of_nat. lia.
      * exists it'. auto.
    + rewrite rowi_app1 in * by lia. eapply gd_comp; eauto. lia.
  - intros k it lx Hk Hin Had Hw. rewrite Hlen in Hk. rewrite rowi_app1 in Hin by lia.
    destruct (Nat.eq_dec (S k) (length rows)) as [He|Hne].
    + rewrite He, rowi_app2. apply Hincl. eapply Hscan; eauto.
    + rewrite rowi_app1 by lia. eapply gd_scan; eauto. lia.
  - intros k lx Hk. rewrite Hlen in Hk. destruct (Nat.eq_dec k (length rows)) as [->|Hne].
    + rewrite rowi_app2, nth_app_last. apply C4.
    + rewrite rowi_app1 by lia. rewrite app_nth1 by lia. eapply gd_allowed; eauto. lia.
Qed.

Lemma good_nil w : good w [].
Proof.
  constructor; simpl; intros; lia.
Qed.

Lemma nodup_initial_items n k c : NoDup (initial_items n k c).
Proof.
  unfold initial_items. apply NoDup_map_inj; [|apply NoDup_seqN].
  intros x y H. inversion H; auto.
Qed.

Lemma good_initial w r0 : initial_row g nl = Some r0 -> good w [r0].
Proof.
  intros H. unfold initial_row in H. change [r0] with ([] ++ [r0]).
  eapply good_snoc; eauto.
  - apply good_nil.
  - apply nodup_initial_items.
  - intros x Hx. apply in_initial_items in Hx. destruct Hx as [a [Ha Hx]]. subst x.
    unfold ok, item_rhs. cbn [it_nt it_alt it_dot it_start]. rewrite Nat2N.id.
    split; [|split]; auto. simpl. lia. unfold lenN. simpl. lia.
  - intros k it lx Hk. simpl in Hk. discriminate.
Qed.

Lemma good_scan w sp rows l r :
  good w rows -> rows <> [] -> nth_error w (length rows - 1) = Some l ->
  scan_row g nl sp rows (MLSingle l) = Some r ->
  good w (rows ++ [r]).
Proof.
  intros Hg Hne Hw Hscan.
  destruct (length rows) as [|n] eqn:Hlen; [destruct rows; [congruence|discriminate]|].
  destruct (rows_last_split rows n Hlen) as [rows0 [Erows Hl0]].
  rewrite Erows in Hscan at 1. rewrite scan_row_unfold in Hscan. rewrite <- Erows in Hscan.
  simpl in Hscan. replace (S n - 1)%nat with n in Hw by lia.
  eapply good_snoc; eauto.
  - apply nodup_scan_seed. apply (gd_nodup _ _ Hg n). lia.
  - intros x Hx. apply in_scan_seed in Hx. destruct Hx as [it [Hin [Had Hx]]]. subst x.
    eapply advance_ok; eauto.
    assert (Hok : ok g (N.of_nat n) it) by (eapply gd_ok; eauto; lia).
    destruct Hok as [_ [_ Hs]]. rewrite lenN_of_nat. lia.
  - intros k it lx Hk Hin Had Hwk. rewrite Hlen in Hk. inversion Hk; subst k.
    rewrite Hw in Hwk. inversion Hwk; subst lx.
    apply in_scan_seed. exists it. auto.
Qed.

(* ---------- the completion lemma on a closed chart ---------- *)
Section Closed.
Variable w : list lexidx.
Variable rows : list row.
Hypothesis Hg : good w rows.
Hypothesis Hnl : forall n, lderives g (NT n) [] -> nth (N.to_nat n) nl false = true.

Lemma chart_complete :
  (forall s u, lderives g s u ->
     forall it p q, w = p ++ u ++ q -> (length p + length u < length rows)%nat ->
       In it (rowi rows (length p)) -> after_dot g it = Some s ->
       In (advance_dot it) (rowi rows (length p + length u))) /\
  (forall rhs v, lderives_seq g rhs v ->
     forall it pre p q, w = p ++ v ++ q -> (length p + length v < length rows)%nat ->
       In it (rowi rows (length p)) -> item_rhs g it = pre ++ rhs ->
       length pre = N.to_nat (it_dot it) ->
       In (mk_item (it_nt it) (it_alt it) (it_dot it + N.of_nat (length rhs)) (it_start it))
          (rowi rows (length p + length v))).
Proof.
  apply lderives_mutind.
  - (* terminal *)
    intros lx it p q Hw Hlen Hin Had. simpl in Hlen.
    replace (length p + length [lx])%nat with (S (length p)) by (simpl; lia).
    eapply gd_scan; eauto; [lia|].
    rewrite Hw. rewrite nth_error_app2, Nat.sub_diag; auto.
  - (* nonterminal *)
    intros n rhs ls Hrhs Hseq IH it p q Hw Hlen Hin Had.
    destruct (In_nth _ _ [] Hrhs) as [a [Ha Enth]].
    destruct (gd_pred _ _ Hg (length p) it n) as [Hp1 Hp2]; auto; [lia|].
    specialize (Hp1 a Ha).
    destruct ls as [|l0 ls'].
    + (* empty span: advanced at prediction time *)
      simpl. rewrite Nat.add_0_r. apply Hp2. apply Hnl. eapply ld_nt; eauto.
    + set (ls := l0 :: ls') in *.
      specialize (IH (mk_item n (N.of_nat a) 0 (N.of_nat (length p))) [] p q Hw Hlen Hp1).
      unfold item_rhs in IH. cbn [it_nt it_alt it_dot it_start] in IH. rewrite Nat2N.id in IH.
      specialize (IH Enth eq_refl).
      eapply (gd_comp _ _ Hg (length p + length ls)%nat _ it) in IH; eauto.
      * unfold after_dot, item_rhs. cbn [it_nt it_alt it_dot it_start]. rewrite Nat2N.id, Enth.
        apply nth_error_None. lia.
      * cbn [it_start]. rewrite Nat2N.id. unfold ls. simpl. lia.
      * cbn [it_start]. rewrite Nat2N.id. exact Hin.
  - (* nil *)
    intros it pre p q Hw Hlen Hin Hrhs Hpre. simpl. rewrite Nat.add_0_r, N.add_0_r.
    destruct it; exact Hin.
  - (* cons *)
    intros s rest u v Hs IHs Hr IHr it pre p q Hw Hlen Hin Hrhs Hpre.
    rewrite app_length in Hlen.
    assert (Had : after_dot g it = Some s).
    { unfold after_dot. rewrite Hrhs, <- Hpre. rewrite nth_error_app2, Nat.sub_diag; auto. }
    assert (Hadv : In (advance_dot it) (rowi rows (length p + length u))).
    { apply (IHs it p (v ++ q)); auto; [|lia]. rewrite Hw, <- !app_assoc. reflexivity. }
    specialize (IHr (advance_dot it) (pre ++ [s]) (p ++ u) q).
    rewrite app_length in IHr. rewrite item_rhs_advance in IHr.
    unfold advance_dot in IHr at 2 3 4 5 6. cbn [it_nt it_alt it_dot it_start] in IHr.
    replace (it_dot it + N.of_nat (length (s :: rest))) with (it_dot it + 1 + N.of_nat (length rest))
      by (simpl length; lia).
    replace (length p + length (u ++ v))%nat with (length p + length u + length v)%nat
      by (rewrite app_length; lia).
    apply IHr; auto.
    + rewrite Hw, <- !app_assoc. reflexivity.
    + lia.
    + rewrite Hrhs, <- app_assoc. reflexivity.
    + rewrite app_length. simpl. lia.
Qed.

(* the viable-prefix lemma: the next lexeme of a derivation in progress is
   expected by the last row of the chart *)
Lemma app_eq_app_mid {A} (u : list A) : forall v u1 l u2,
  u ++ v = u1 ++ l :: u2 ->
  (exists u2', u = u1 ++ l :: u2' /\ u2 = u2' ++ v) \/
  (exists v1, u1 = u ++ v1 /\ v = v1 ++ l :: u2).
Proof.
  induction u as [|x u IH]; intros v u1 l u2 H.
  - right. exists u1. auto.
  - destruct u1 as [|y u1]; simpl in H.
    + inversion H; subst. left. exists u. auto.
    + inversion H as [[Hxy H']]. subst y. destruct (IH _ _ _ _ H') as [[u2' [E1 E2]]|[v1 [E1 E2]]].
      * left. exists u2'. subst. auto.
      * right. exists v1. subst. auto.
Qed.

Lemma chart_viable :
  (forall s u, lderives g s u ->
     forall it p u1 l u2 q, u = u1 ++ l :: u2 -> w = p ++ u1 ++ q ->
       S (length p + length u1) = length rows ->
       In it (rowi rows (length p)) -> after_dot g it = Some s ->
       exists it', In it' (rowi rows (length p + length u1)) /\ after_dot g it' = Some (TM l)) /\
  (forall rhs v, lderives_seq g rhs v ->
     forall it pre p u1 l u2 q, v = u1 ++ l :: u2 -> w = p ++ u1 ++ q ->
       S (length p + length u1) = length rows ->
       In it (rowi rows (length p)) -> item_rhs g it = pre ++ rhs ->
       length pre = N.to_nat (it_dot it) ->
       exists it', In it' (rowi rows (length p + length u1)) /\ after_dot g it' = Some (TM l)).
Proof.
  apply lderives_mutind.
  - intros lx it p u1 l u2 q Hu Hw Hlen Hin Had.
    destruct u1 as [|x u1]; simpl in Hu.
    + inversion Hu; subst. exists it. simpl. rewrite Nat.add_0_r. auto.
    + inversion Hu as [[Hx H']]. destruct u1; discriminate.
  - intros n rhs ls Hrhs Hseq IH it p u1 l u2 q Hu Hw Hlen Hin Had.
    destruct (In_nth _ _ [] Hrhs) as [a [Ha Enth]].
    destruct (gd_pred _ _ Hg (length p) it n) as [Hp1 _]; auto; [lia|].
    specialize (Hp1 a Ha).
    apply (IH (mk_item n (N.of_nat a) 0 (N.of_nat (length p))) [] p u1 l u2 q); auto.
    unfold item_rhs. cbn [it_nt it_alt]. rewrite Nat2N.id. exact Enth.
  - intros it pre p u1 l u2 q Hv. destruct u1; discriminate.
  - intros s rest u v Hs IHs Hr IHr it pre p u1 l u2 q Huv Hw Hlen Hin Hrhs Hpre.
    assert (Had : after_dot g it = Some s).
    { unfold after_dot. rewrite Hrhs, <- Hpre. rewrite nth_error_app2, Nat.sub_diag; auto. }
    destruct (app_eq_app_mid _ _ _ _ _ Huv) as [[u2' [E1 E2]]|[v1 [E1 E2]]].
    + apply (IHs it p u1 l u2' q); auto.
    + subst u1. rewrite app_length in *.
      assert (Hadv : In (advance_dot it) (rowi rows (length p + length u))).
      { destruct chart_complete as [Hc _]. apply (Hc s u Hs it p (v1 ++ q)); auto; [|lia].
        rewrite Hw, <- !app_assoc. reflexivity. }
      destruct (IHr (advance_dot it) (pre ++ [s]) (p ++ u) v1 l u2 q) as [it' [Hi' Ha']]; auto.
      * rewrite Hw, <- !app_assoc. reflexivity.
      * rewrite app_length. lia.
      * rewrite app_length. exact Hadv.
      * rewrite item_rhs_advance, Hrhs, <- app_assoc. reflexivity.
      * rewrite app_length. unfold advance_dot. cbn [it_dot]. simpl. lia.
      * exists it'. split; auto. rewrite app_length in Hi'.
        replace (length p + (length u + length v1))%nat with (length p + length u + length v1)%nat by lia.
        exact Hi'.
Qed.
End Closed.

(* ---------- running ---------- *)
Variable sp : lexspec.
Hypothesis Hnl : forall n, lderives g (NT n) [] -> nth (N.to_nat n) nl false = true.

Lemma run_good_pres w : forall rest done rows rows' tail,
  w = done ++ rest ++ tail -> length rows = S (length done) -> good w rows ->
  earley_run g nl sp rows rest = Some rows' ->
  good w rows' /\ length rows' = S (length done + length rest) /\ rowi rows' 0 = rowi rows 0.
Proof.
  induction rest as [|l rest IH]; intros done rows rows' tail Hw Hlen Hgd Hrun.
  - simpl in Hrun. inversion Hrun; subst rows'. simpl. rewrite Nat.add_0_r. auto.
  - simpl in Hrun. destruct (scan_row g nl sp rows (MLSingle l)) as [r|] eqn:Hscan; [|discriminate].
    destruct (IH (done ++ [l]) (rows ++ [r]) rows' tail) as [H1 [H2 H3]]; auto.
    + rewrite Hw, <- !app_assoc. reflexivity.
    + rewrite !app_length. simpl. lia.
    + eapply good_scan; eauto.
      * intros ->. discriminate.
      * rewrite Hlen. replace (S (length done) - 1)%nat with (length done) by lia.
        rewrite Hw. rewrite nth_error_app2, Nat.sub_diag; auto.
    + split; auto. split.
      * rewrite H2, app_length. simpl. lia.
      * rewrite H3. apply rowi_app1. lia.
Qed.

Lemma run_total w a0 rhs0 :
  lderives_seq g rhs0 w -> nth a0 (nt_alts g (g_start g)) [] = rhs0 ->
  forall rest done rows tail,
  w = done ++ rest ++ tail -> length rows = S (length done) -> good w rows ->
  In (mk_item (g_start g) (N.of_nat a0) 0 0) (rowi rows 0) ->
  exists rows', earley_run g nl sp rows rest = Some rows'.
Proof.
  intros Hseq Hnth. induction rest as [|l rest IH]; intros done rows tail Hw Hlen Hgd Hin0.
  - simpl. eauto.
  - simpl.
    destruct (chart_viable w rows Hgd Hnl) as [_ Hv].
    destruct (Hv rhs0 w Hseq (mk_item (g_start g) (N.of_nat a0) 0 0) [] [] done l (rest ++ tail) (l :: rest ++ tail))
      as [it' [Hi' Ha']]; auto.
    { unfold item_rhs. cbn [it_nt it_alt]. rewrite Nat2N.id. exact Hnth. }
    simpl in Hi'.
    destruct (rows_last_split rows _ Hlen) as [rows0 [Erows Hl0]].
    destruct (scan_row g nl sp rows (MLSingle l)) as [r|] eqn:Hscan.
    + apply (IH (done ++ [l]) (rows ++ [r]) tail).
      * rewrite Hw, <- !app_assoc. reflexivity.
      * rewrite !app_length. simpl. lia.
      * eapply good_scan; eauto.
        -- intros ->. discriminate.
        -- rewrite Hlen. replace (S (length done) - 1)%nat with (length done) by lia.
           rewrite Hw. rewrite nth_error_app2, Nat.sub_diag; auto.
      * rewrite rowi_app1 by lia. exact Hin0.
    + exfalso. rewrite Erows in Hscan at 1. rewrite scan_row_unfold in Hscan.
      apply close_row_none in Hscan. simpl in Hscan.
      assert (Hx : In (advance_dot it') (scan_seed g [l] (r_items (nth (length done) rows dummy_row)))).
      { apply in_scan_seed. exists it'. auto. }
      rewrite Hscan in Hx. destruct Hx.
Qed.

Lemma initial_row_some rhs0 : In rhs0 (nt_alts g (g_start g)) ->
  exists r0 a0, initial_row g nl = Some r0 /\ nth a0 (nt_alts g (g_start g)) [] = rhs0 /\
                In (mk_item (g_start g) (N.of_nat a0) 0 0) (r_items r0).
Proof.
  intros Hin. destruct (In_nth _ _ [] Hin) as [a0 [Ha Enth]].
  assert (Hseed : In (mk_item (g_start g) (N.of_nat a0) 0 0)
                     (initial_items (g_start g) (length (nt_alts g (g_start g))) 0)).
  { apply in_initial_items. exists a0. auto. }
  destruct (initial_row g nl) as [r0|] eqn:Hinit.
  - exists r0, a0. split; auto. split; auto. unfold initial_row in Hinit.
    eapply close_row_incl; eauto.
  - unfold initial_row in Hinit. apply close_row_none in Hinit. rewrite Hinit in Hseed. destruct Hseed.
Qed.
End Chart.

(*FIXED*) (* completeness: every derivable lexeme sequence is accepted *)
Theorem earley_complete : forall g sp ls,
  wf_grammar g -> lderives g (NT (g_start g)) ls -> earley_accepts g sp ls = true.
Proof.
  intros g sp ls Hwf Hd. inversion Hd as [|n rhs0 ls0 Hin Hseq]; subst.
  destruct (initial_row_some g (nullable_set g) rhs0 Hin) as [r0 [a0 [Hinit [Hnth Hin0]]]].
  pose proof (good_initial g (nullable_set g) ls r0 Hinit) as Hg0.
  destruct (run_total g (nullable_set g) sp (nullable_set_complete g) ls a0 rhs0 Hseq Hnth ls [] [r0] [])
    as [rows Hrun]; auto.
  { rewrite app_nil_r. reflexivity. }
  destruct (run_good_pres g (nullable_set g) sp ls ls [] [r0] rows []) as [Hg [Hlen H0]]; auto.
  { rewrite app_nil_r. reflexivity. }
  simpl in Hlen.
  unfold earley_accepts. rewrite Hinit, Hrun.
  rewrite (last_nth_len _ rows (length ls)) by exact Hlen.
  destruct (chart_complete g (nullable_set g) ls rows Hg (nullable_set_complete g)) as [_ Hc].
  specialize (Hc rhs0 ls Hseq (mk_item (g_start g) (N.of_nat a0) 0 0) [] [] []).
  simpl in Hc. rewrite app_nil_r in Hc. specialize (Hc eq_refl).
  rewrite H0 in Hc. unfold item_rhs in Hc. cbn [it_nt it_alt it_dot it_start] in Hc.
  rewrite Nat2N.id in Hc. specialize (Hc ltac:(lia) Hin0 Hnth eq_refl).
  unfold row_is_accepting. apply existsb_exists.
  eexists. split; [exact Hc|].
  unfold after_dot, item_rhs. cbn [it_nt it_alt it_dot it_start]. rewrite Nat2N.id, Hnth.
  match goal with |- context [nth_error rhs0 ?k] => destruct (nth_error rhs0 k) eqn:E end.
  - exfalso. assert (Hlt : (N.to_nat (N.of_nat (length rhs0)) < length rhs0)%nat).
    { apply nth_error_Some. simpl in E. congruence. }
    lia.
  - apply N.eqb_refl.
Qed.

(* every in-range symbol sequence of a productive grammar derives something *)
Lemma sym_derives g s :
  (forall n, (N.to_nat n < length (g_rules g))%nat -> exists ls, lderives g (NT n) ls) ->
  sym_ok g s -> exists u, lderives g s u.
Proof.
  intros Hp Hs. destruct s as [n|lx].
  - apply Hp. exact Hs.
  - exists [lx]. constructor.
Qed.

Lemma seq_derives g l :
  (forall n, (N.to_nat n < length (g_rules g))%nat -> exists ls, lderives g (NT n) ls) ->
  Forall (sym_ok g) l -> exists v, lderives_seq g l v.
Proof.
  intros Hp Hl. induction Hl as [|s l Hs Hl IH].
  - exists []. constructor.
  - destruct IH as [v Hv]. destruct (sym_derives g s Hp Hs) as [u Hu].
    exists (u ++ v). constructor; auto.
Qed.

(*FIXED*) (* viable prefixes: the recogniser keeps going exactly on prefixes of derivable sequences
   (for grammars in which every nonterminal derives something) *)
Definition productive (g : grammar) : Prop :=
  forall n, (N.to_nat n < length (g_rules g))%nat -> exists ls, lderives g (NT n) ls.
Theorem earley_viable : forall g sp ls,
  wf_grammar g -> productive g ->
  ((exists rows, earley_run g (nullable_set g) sp
                   (match initial_row g (nullable_set g) with Some r0 => [r0] | None => [] end) ls = Some rows
                 /\ initial_row g (nullable_set g) <> None)
   <-> exists ls', lderives g (NT (g_start g)) (ls ++ ls')).
Proof.
  intros g sp ls Hwf Hprod. split.
  - intros [rows [Hrun Hne]].
    destruct (initial_row g (nullable_set g)) as [r0|] eqn:Hinit; [|congruence].
    pose proof (initial_row_sinv g Hwf ls r0 Hinit) as H0.
    destruct (run_sinv g Hwf ls sp ls [] [r0] rows) as [Hlen Hinv]; auto.
    destruct (Hinv (length ls)) as [Hnonempty Hr]; [lia|].
    destruct (rowi rows (length ls)) as [|it its] eqn:Er; [congruence|].
    assert (Hit : sinv g ls (length ls) it) by (apply Hr; left; reflexivity).
    pose proof Hit as [H1 [H2 [H3 [H4 [H5 [delta [Hd1 Hd2]]]]]]].
    destruct (seq_derives g (skipn (N.to_nat (it_dot it)) (item_rhs g it)) Hprod) as [t1 Ht1].
    { apply Forall_forall. intros s Hs. eapply (sinv_rhs_wf g Hwf ls (length ls) it); eauto.
      rewrite <- (firstn_skipn (N.to_nat (it_dot it)) (item_rhs g it)). apply in_app_iff. auto. }
    destruct (seq_derives g delta Hprod Hd1) as [t2 Ht2].
    exists (t1 ++ t2).
    assert (HX : lderives g (NT (it_nt it)) (sub ls (N.to_nat (it_start it)) (length ls) ++ t1)).
    { apply ld_nt with (rhs := item_rhs g it); auto.
      pose proof (lderives_seq_app g _ _ H4 _ _ Ht1) as Hs. rewrite firstn_skipn in Hs. exact Hs. }
    specialize (Hd2 _ _ HX Ht2).
    assert (E : firstn (N.to_nat (it_start it)) ls ++ sub ls (N.to_nat (it_start it)) (length ls) = ls).
    { rewrite <- (sub_0 ls (N.to_nat (it_start it))). rewrite sub_app by lia.
      rewrite sub_0. apply firstn_all. }
    rewrite <- !app_assoc in Hd2. rewrite app_assoc in Hd2. rewrite E in Hd2. exact Hd2.
  - intros [ls' Hd]. inversion Hd as [|n rhs0 ls0 Hin Hseq]; subst.
    destruct (initial_row_some g (nullable_set g) rhs0 Hin) as [r0 [a0 [Hinit [Hnth Hin0]]]].
    pose proof (good_initial g (nullable_set g) (ls ++ ls') r0 Hinit) as Hg0.
    destruct (run_total g (nullable_set g) sp (nullable_set_complete g) (ls ++ ls') a0 rhs0 Hseq Hnth ls [] [r0] ls')
      as [rows Hrun]; auto.
    exists rows. rewrite Hinit. split; auto. discriminate.
Qed.

(* ORIGINAL (*FIXED*) STATEMENT — FALSE for the model as written:

   Theorem allowed_lexemes_exact : forall g nl rows_before seed lexeme r lx,
     close_row g nl rows_before seed lexeme = Some r ->
     (In lx (r_allowed r) <-> exists it, In it (r_items r) /\ after_dot g it = Some (TM lx)).

   The statement quantifies over arbitrary seeds and earlier rows.  close_row runs the
   agenda with fuel item_bound, which bounds the number of *distinct in-range* items
   of a row; a seed with duplicates (the agenda never deduplicates the seed) or with
   out-of-range start positions has more entries than the fuel, so the agenda stops
   before it has processed every item and r_allowed misses the terminals of the
   unprocessed ones.  Counterexamples (allowed_cex1: duplicates, allowed_cex2: bogus
   starts) are evaluated below.  This is an artefact of the model's fuel (the
   implementation has no fuel and its seeds are duplicate-free by construction), not
   a defect of the modelled parser.  Minimal change: the seed is duplicate-free and
   in range (ok) and the earlier rows do not mention later start positions (rb_ok);
   allowed_lexemes_exact_run shows that every row built by initial_row / scan_row /
   earley_run satisfies the conclusion unconditionally. *)
Definition allowed_cex_g := mk_grammar [[[TM 0]; [TM 1]]] 0.
Definition allowed_cex1 :=
  close_row allowed_cex_g [false] []
            [mk_item 0 0 0 0; mk_item 0 0 0 0; mk_item 0 0 0 0; mk_item 0 0 0 0; mk_item 0 0 0 0;
             mk_item 0 1 0 0] (MLSingle 0).
Definition allowed_cex2 :=
  close_row allowed_cex_g [false] []
            [mk_item 0 0 0 1; mk_item 0 0 0 2; mk_item 0 0 0 3; mk_item 0 0 0 4; mk_item 0 0 0 5;
             mk_item 0 1 0 0] (MLSingle 0).
Eval vm_compute in allowed_cex1.
Eval vm_compute in allowed_cex2.

Lemma allowed_lexemes_exact_original_false :
  ~ (forall g nl rows_before seed lexeme r lx,
       close_row g nl rows_before seed lexeme = Some r ->
       (In lx (r_allowed r) <-> exists it, In it (r_items r) /\ after_dot g it = Some (TM lx))).
Proof.
  intros H.
  destruct (allowed_cex1) as [r|] eqn:E; [|vm_compute in E; discriminate].
  specialize (H _ _ _ _ _ r 1 E). vm_compute in E. inversion E; subst r. clear E.
  destruct H as [_ H].
  assert (Hin : In 1 [0]).
  { apply H. exists (mk_item 0 1 0 0). split; [|reflexivity]. simpl. tauto. }
  simpl in Hin. destruct Hin as [Hin|[]]. discriminate.
Qed.

(*CHANGED (was FIXED): hypotheses on seed / rows_before added, see above*)
(* the lexemes a row allows are exactly the terminals after some dot of the row *)
Theorem allowed_lexemes_exact : forall g nl rows_before seed lexeme r lx,
  NoDup seed -> (forall it, In it seed -> ok g (lenN rows_before) it) ->
  rb_ok rows_before (lenN rows_before) ->
  close_row g nl rows_before seed lexeme = Some r ->
  (In lx (r_allowed r) <-> exists it, In it (r_items r) /\ after_dot g it = Some (TM lx)).
Proof.
  intros g nl rb seed lexeme r lx Hnd Hok Hrb Hc.
  destruct (close_row_spec g nl rb seed lexeme r Hnd Hok Hrb Hc) as [_ [_ [_ H]]]. apply H.
Qed.

(* ... and the side conditions hold for every row the recogniser builds *)
Theorem allowed_lexemes_exact_run : forall g nl sp ls r0 rows r lx,
  initial_row g nl = Some r0 -> earley_run g nl sp [r0] ls = Some rows -> In r rows ->
  (In lx (r_allowed r) <-> exists it, In it (r_items r) /\ after_dot g it = Some (TM lx)).
Proof.
  intros g nl sp ls r0 rows r lx Hinit Hrun Hin.
  pose proof (good_initial g nl ls r0 Hinit) as Hg0.
  destruct (run_good_pres g nl sp ls ls [] [r0] rows []) as [Hg _]; auto.
  { rewrite app_nil_r. reflexivity. }
  apply (In_nth _ _ dummy_row) in Hin. destruct Hin as [k [Hk Er]].
  pose proof (gd_allowed _ _ _ _ Hg k lx Hk) as H. unfold rowi in H. rewrite Er in H. exact H.
Qed.

Print Assumptions nullable_set_correct.
Print Assumptions earley_sound.
Print Assumptions earley_complete.
Print Assumptions earley_viable.
Print Assumptions allowed_lexemes_exact.
Print Assumptions allowed_lexemes_exact_run.
Print Assumptions allowed_lexemes_exact_original_false.
