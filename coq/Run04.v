(* Run04.v — case runner for C04: the specification side.  Verdicts come from
   the denotational matcher (re_match, proved = re_lang) and from emptiness of
   the residual (viable prefix = some completion exists). *)
From Coq Require Import String.
From LLG Require Import Base Sx Regex RunEngine.
Open Scope string_scope.
Open Scope N_scope.

(* longest viable prefix of w: number of bytes after which the residual is still non-empty *)
Fixpoint viable_len (r : regex) (w : bytes) (n : N) : N * regex :=
  match w with
  | [] => (n, r)
  | b :: w' => let d := deriv r b in
               if is_empty_syn d then (n, r) else if nonempty d then viable_len d w' (n + 1) else (n, r)
  end.

Definition run_case04 (x : sx) : sx :=
  let h := head_sym x in
  let a := tail_items x in
  let is s := bytes_eqb h (sym s) in
  let r := normalize (rx_of_sx (nth_sx a 0)) in
  if is "rxcheck" then
    tagged "ok" (map (fun s => let w := as_bytes s in
                               let '(n, d) := viable_len r w 0 in
                               SL [sn n; sb ((n =? lenN w) && nullable d)])
                     (as_list (nth_sx a 1)))
  else if is "rxmask" then
    let pre := as_bytes (nth_sx a 1) in
    let d := deriv_word r pre in
    let toks := map as_bytes (as_list (nth_sx a 2)) in
    let allowed :=
      filter (fun '(i, w) => match w with
                             | [] => false
                             | 255 :: _ => false        (* special tokens are never text *)
                             | _ => let '(n, _) := viable_len d w 0 in n =? lenN w
                             end)
             (combine (seqN 0 (length toks)) toks) in
    tagged "ok" [sns (map fst allowed); sb (nullable d)]
  else if is "rxempty" then
    tagged "ok" [sb (negb (nonempty r))]
  else SL [SY (sym "unknown")].
