(* Optimize.v — model of Grammar::expand_shortcuts / optimize
   (parser/src/earley/grammar.rs) for non-parametric grammars: alias symbols are
   merged with a union-find, symbols with a single rule and a single user are
   inlined (chains expanded with an explicit stack), everything else is copied.
   Symbols are numbers 0..n-1; a terminal is a symbol without rules.
   Definitions only. *)
From LLG Require Import Base.
Local Open Scope nat_scope.

Record osym := mk_osym {
  o_rules : list (list nat);     (* right-hand sides *)
  o_special : bool               (* start symbol, sub-grammar boundary, capture, token limit, ... *)
}.
Definition ogrammar := list osym.

Definition osym_at (g : ogrammar) (i : nat) : osym := nth i g (mk_osym [] false).

(* ---------- union-find over option maps ---------- *)
Definition ufmap := list (option nat).
Definition uf_get (m : ufmap) (i : nat) : option nat := nth i m None.
Definition uf_set (m : ufmap) (i : nat) (v : option nat) : ufmap := update_nth m i (fun _ => v).

(* root of e (fuel = length of the map: chains are acyclic) *)
Fixpoint uf_root (fuel : nat) (m : ufmap) (e : nat) : nat :=
  match fuel with
  | O => e
  | S f => match uf_get m e with Some q => uf_root f m q | None => e end
  end.

(* path compression: every element on the path from e points to the root *)
Fixpoint uf_compress_path (fuel : nat) (m : ufmap) (p root : nat) : ufmap :=
  match fuel with
  | O => m
  | S f =>
      match uf_get m p with
      | Some q => let m' := uf_set m p (Some root) in
                  if Nat.eqb q root then m' else uf_compress_path f m' q root
      | None => m
      end
  end.

Definition uf_find (m : ufmap) (e : nat) : nat * ufmap :=
  let root := uf_root (length m) m e in
  (root, if Nat.eqb root e then m
         else match uf_get m e with
              | Some q => if Nat.eqb q root then m else uf_compress_path (length m) m e root
              | None => m
              end).

Definition uf_union (m : ufmap) (a b : nat) : ufmap :=
  let '(ra, m1) := uf_find m a in
  let '(rb, m2) := uf_find m1 b in
  if Nat.eqb ra rb then m2 else uf_set m2 ra (Some rb).

Definition uf_compress_all (m : ufmap) : ufmap :=
  fold_left (fun acc i => match uf_get acc i with Some _ => snd (uf_find acc i) | None => acc end)
            (seq 0 (length m)) m.

(* ---------- expand_shortcuts ---------- *)
Definition single_alias (s : osym) : option nat :=
  if o_special s then None else
  match o_rules s with
  | [[trg]] => Some trg
  | _ => None
  end.

Definition definitions (g : ogrammar) : ufmap :=
  uf_compress_all
    (fold_left (fun m '(i, s) => match single_alias s with Some trg => uf_union m i trg | None => m end)
               (combine (seq 0 (length g)) g) (map (fun _ => None) g)).

Definition defn (d : ufmap) (s : nat) : nat := match uf_get d s with Some t => t | None => s end.

(* the_user_of: None = unused or several users (self-loop in the code) *)
Definition users (g : ogrammar) (d : ufmap) : list (option nat) :=
  let raw :=
    fold_left (fun u '(i, s) =>
                 match uf_get d i with
                 | Some _ => u
                 | None =>
                     fold_left (fun u rhs =>
                                  fold_left (fun u x =>
                                               let x' := defn d x in
                                               match nth x' u None with
                                               | None => update_nth u x' (fun _ => Some i)
                                               | Some _ => update_nth u x' (fun _ => Some x')
                                               end) rhs u)
                               (o_rules s) u
                 end)
              (combine (seq 0 (length g)) g) (map (fun _ => None) g) in
  map (fun '(i, o) => match o with Some x => if Nat.eqb x i then None else Some x | None => None end)
      (combine (seq 0 (length g)) raw).

(* repl: symbols to inline, with their (alias-resolved) right-hand side *)
Definition repl_of (g : ogrammar) (d : ufmap) (u : list (option nat)) (i : nat) : option (list nat) :=
  let s := osym_at g i in
  if o_special s then None else
  match o_rules s, nth i u None with
  | [rhs], Some _ => Some (map (defn d) rhs)
  | _, _ => None
  end.

(* full expansion of a sequence of symbols through repl (explicit-stack loop of the code,
   as a fuelled recursion; fuel exhaustion cannot happen for acyclic repl) *)
Fixpoint expand (fuel : nat) (g : ogrammar) (d : ufmap) (u : list (option nat)) (syms : list nat) : list nat :=
  match fuel with
  | O => syms
  | S f =>
      flat_map (fun e => match repl_of g d u e with
                         | Some rhs => expand f g d u rhs
                         | None => [e]
                         end) syms
  end.

Definition is_root (g : ogrammar) (d : ufmap) (u : list (option nat)) (i : nat) : bool :=
  match repl_of g d u i, nth i u None with
  | Some _, Some usr => match repl_of g d u usr with Some _ => false | None => true end
  | _, _ => false
  end.

Definition eliminated (g : ogrammar) (d : ufmap) (u : list (option nat)) (i : nat) : bool :=
  match repl_of g d u i with Some _ => true | None => match uf_get d i with Some _ => true | None => false end end.

(* final replacement map: roots fully expanded; aliases whose target survives *)
Definition final_repl (g : ogrammar) (d : ufmap) (u : list (option nat)) (i : nat) : option (list nat) :=
  if is_root g d u i then Some (expand (length g) g d u [i])
  else match uf_get d i with
       | Some trg => if eliminated g d u trg then None else Some [trg]
       | None => None
       end.

Definition expand_shortcuts (g : ogrammar) : ogrammar :=
  let d := definitions g in
  let u := users g d in
  map (fun '(i, s) =>
         match final_repl g d u i with
         | Some _ => mk_osym [] (o_special s)        (* not copied: no rules in the output *)
         | None =>
             mk_osym (map (fun rhs => flat_map (fun x => match final_repl g d u x with
                                                           | Some r => r
                                                           | None => [x]
                                                           end) rhs) (o_rules s))
                     (o_special s)
         end)
      (combine (seq 0 (length g)) g).

Definition optimize (g : ogrammar) : ogrammar := expand_shortcuts (expand_shortcuts g).

(* ---------- semantics: terminal sequences (terminals = symbols that had no rules in the
   ORIGINAL grammar; the set is passed explicitly because inlined symbols lose their rules) ---------- *)
Inductive oderives (g : ogrammar) (term : nat -> bool) : nat -> list nat -> Prop :=
| od_term : forall t, term t = true -> oderives g term t [t]
| od_rule : forall s rhs w, term s = false -> In rhs (o_rules (osym_at g s)) ->
                            oderives_seq g term rhs w -> oderives g term s w
with oderives_seq (g : ogrammar) (term : nat -> bool) : list nat -> list nat -> Prop :=
| ods_nil : oderives_seq g term [] []
| ods_cons : forall s rest u v, oderives g term s u -> oderives_seq g term rest v ->
                                oderives_seq g term (s :: rest) (u ++ v).
