(* IntBounds.v — model of normalize_integer_bounds (parser/src/json/numeric.rs): an integer schema
   may carry fractional and exclusive bounds; they are rounded to the inclusive integer bounds that
   rx_int_range is then called with *)
From LLG Require Import Base Regex Numeric.
Open Scope Z_scope.

Definition frac_is_zero (d : dec) : bool := forallb (Z.eqb 0) (d_frac d).
(* f64::ceil / f64::floor of the bound *)
Definition dec_ceil (d : dec) : Z :=
  let v := val_digits (d_int d) 0 in
  if d_neg d then - v else if frac_is_zero d then v else v + 1.
Definition dec_floor (d : dec) : Z :=
  let v := val_digits (d_int d) 0 in
  if d_neg d then (if frac_is_zero d then - v else - v - 1) else v.
(* exclusive: fract() != 0 -> ceil / floor, else +-1 *)
Definition norm_int_lo (d : dec) (excl : bool) : Z :=
  if excl then (if frac_is_zero d then dec_ceil d + 1 else dec_ceil d) else dec_ceil d.
Definition norm_int_hi (d : dec) (excl : bool) : Z :=
  if excl then (if frac_is_zero d then dec_floor d - 1 else dec_floor d) else dec_floor d.

Definition norm_bound (f : dec -> bool -> Z) (b : option (dec * bool)) : option Z :=
  match b with Some (d, excl) => Some (f d excl) | None => None end.

(* the regex an integer schema with these bounds compiles to *)
Definition rx_int_bounds (lo hi : option (dec * bool)) : nres regex :=
  rx_int_range int_fuel (norm_bound norm_int_lo lo) (norm_bound norm_int_hi hi).

(* ---------- specification side: the value of a bound times 10^k, k = number of fraction digits ---------- *)
Definition dec_k (d : dec) : nat := length (d_frac d).
Definition above (d : dec) (excl : bool) (z : Z) : Prop :=
  if excl then dec_scaled d (dec_k d) < z * 10 ^ Z.of_nat (dec_k d)
  else dec_scaled d (dec_k d) <= z * 10 ^ Z.of_nat (dec_k d).
Definition below (d : dec) (excl : bool) (z : Z) : Prop :=
  if excl then z * 10 ^ Z.of_nat (dec_k d) < dec_scaled d (dec_k d)
  else z * 10 ^ Z.of_nat (dec_k d) <= dec_scaled d (dec_k d).
Definition in_dec_bounds (lo hi : option (dec * bool)) (z : Z) : Prop :=
  (match lo with Some (d, e) => above d e z | None => True end) /\
  (match hi with Some (d, e) => below d e z | None => True end).
