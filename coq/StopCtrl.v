(* StopCtrl.v — model of parser/src/stop_controller.rs.  The stop patterns form
   one regex S; the controller tracks the partial matches of S that are still
   alive (one per possible start position: the any-prefix of the code's regex),
   stops at the first byte that completes a match, removes the completed match
   (the shortest one ending there) from the output, holds back the bytes that may
   still become a match, and never returns a partial UTF-8 character.
   Definitions only. *)
From LLG Require Import Base Regex Trie.

(* live partial matches: (residual regex, number of bytes consumed), youngest first *)
Definition partials := list (regex * nat).

Definition step_partials (S : regex) (ps : partials) (b : byte) : partials :=
  optmap (fun '(r, n) => let d := deriv r b in
                         if is_empty_syn d then None else if nonempty d then Some (d, Datatypes.S n) else None)
         ((S, O) :: ps).

(* the shortest completed match (the youngest nullable partial) *)
Definition completed (ps : partials) : option nat :=
  match find (fun '(r, _) => nullable r) ps with Some (_, n) => Some n | None => None end.

(* bytes that may still turn into a match: the oldest live partial *)
Definition held_len (ps : partials) : nat := fold_left (fun m '(_, n) => Nat.max m n) ps O.

(* valid_utf8_len: length of the longest prefix that does not end inside a character *)
Definition is_cont (b : byte) : bool := (128 <=? b) && (b <? 192).
Definition char_len (b : byte) : nat :=
  if b <? 128 then 1 else if (192 <=? b) && (b <? 224) then 2
  else if (224 <=? b) && (b <? 240) then 3 else if (240 <=? b) && (b <? 248) then 4 else 1.
(* scan back over continuation bytes (but never past index 0) *)
Fixpoint last_start (rev_data : bytes) (i : nat) : nat :=
  match rev_data, i with
  | b :: rest, Datatypes.S i' => if is_cont b then last_start rest i' else i
  | _, _ => i
  end.
Definition valid_utf8_len (data : bytes) : nat :=
  match data with
  | [] => O
  | _ =>
      let n := length data in
      let i := last_start (rev data) (n - 1) in
      let first := nth i data 0 in
      if Nat.leb (i + char_len first) n then (i + char_len first)%nat else i
  end.

Record sc := mk_sc {
  sc_stopped : bool;
  sc_partials : partials;
  sc_pending : bytes
}.
Definition sc_init : sc := mk_sc false [] [].

(* feed the bytes of one ordinary token; returns (output, new state) *)
Fixpoint feed (S : regex) (ps : partials) (buf : bytes) (w : bytes) : bytes * partials * bool :=
  match w with
  | [] => (buf, ps, false)
  | b :: w' =>
      let buf' := buf ++ [b] in
      let ps' := step_partials S ps b in
      match completed ps' with
      | Some n => (firstn (length buf' - n) buf', ps', true)
      | None => feed S ps' buf' w'
      end
  end.

(* commit_token: S = None means no stop strings / regex *)
Definition sc_commit (tr : trie) (stop_tokens : list tokid) (S : option regex) (st : sc) (t : tokid)
  : bytes * sc :=
  if sc_stopped st then ([], st) else
  let buf := sc_pending st in
  if existsb (N.eqb t) stop_tokens then (buf, mk_sc true (sc_partials st) []) else
  let w := token tr t in
  match w with
  | [] => (buf ++ [60; 91] ++ dec_digits t ++ [93; 62], mk_sc false [] [])
  | x :: w' =>
      if x =? marker then (buf ++ w', mk_sc false [] [])
      else
        match S with
        | Some rx =>
            let '(out, ps, stopped) := feed rx (sc_partials st) buf w in
            if stopped then (out, mk_sc true ps [])
            else
              let to_return := (length out - held_len ps)%nat in
              let valid := valid_utf8_len (firstn to_return out) in
              (firstn valid out, mk_sc false ps (skipn valid out))
        | None =>
            let out := buf ++ w in
            let valid := valid_utf8_len out in
            (firstn valid out, mk_sc false [] (skipn valid out))
        end
  end.

Fixpoint sc_run (tr : trie) (stop_tokens : list tokid) (S : option regex) (st : sc) (ts : list tokid)
  : list bytes :=
  match ts with
  | [] => []
  | t :: ts' => let '(o, st') := sc_commit tr stop_tokens S st t in o :: sc_run tr stop_tokens S st' ts'
  end.

(* ---------- specification ---------- *)
(* decoded text of a token (what the controller appends for it) *)
Definition tok_text (tr : trie) (t : tokid) : bytes :=
  match token tr t with
  | [] => [60; 91] ++ dec_digits t ++ [93; 62]
  | x :: w' => if x =? marker then w' else x :: w'
  end.

(* u ends with a match of S of length n: the last n bytes of u are in S *)
Definition ends_with_match (S : regex) (u : bytes) (n : nat) : Prop :=
  (n <= length u)%nat /\ re_lang S (skipn (length u - n) u).
