(* StopCtrlProofs.v — the stop-sequence controller returns, over the whole run, the
   decoded text up to but excluding the first completed stop match, and nothing
   after it.  STATEMENTS MARKED (*FIXED*) MUST NOT CHANGE. *)
From LLG Require Import Base Regex RegexProofs Trie StopCtrl.

(* the partial matches alive after the segment `seg` (bytes since the last reset):
   exactly the non-empty residuals of S along the suffixes of seg, youngest first *)
Definition partials_ok (S : regex) (seg : bytes) (ps : partials) : Prop :=
  forall r n, In (r, n) ps <->
    ((n <= length seg)%nat /\ (0 < n)%nat /\ r = deriv_word S (skipn (length seg - n) seg) /\
     is_empty_syn r = false /\ nonempty r = true).

(* ------------------------------------------------------------------ *)
(* list / derivative helpers                                            *)
(* ------------------------------------------------------------------ *)

Lemma in_optmap : forall {A B} (f : A -> option B) l y,
  In y (optmap f l) <-> exists x, In x l /\ f x = Some y.
Proof.
  intros A B f. induction l as [|a l IH]; intros y; cbn [optmap].
  - split; [intros [] | intros (x & [] & _)].
  - destruct (f a) as [z|] eqn:E.
    + cbn [In]. rewrite IH. split.
      * intros [<-|(x & Hin & Hx)]; [exists a; split; [now left | assumption]|].
        exists x. split; [now right | assumption].
      * intros (x & [<-|Hin] & Hx).
        -- rewrite E in Hx. injection Hx as ->. now left.
        -- right. now exists x.
    + rewrite IH. split.
      * intros (x & Hin & Hx). exists x. split; [now right | assumption].
      * intros (x & [<-|Hin] & Hx); [rewrite E in Hx; discriminate|]. now exists x.
Qed.

Lemma deriv_word_snoc : forall u r b, deriv_word r (u ++ [b]) = deriv (deriv_word r u) b.
Proof.
  induction u as [|c u IH]; intros r b; cbn [app deriv_word]; [reflexivity | apply IH].
Qed.

Lemma skipn_snoc : forall (seg : bytes) b n, (n <= length seg)%nat ->
  skipn (length (seg ++ [b]) - S n) (seg ++ [b]) = skipn (length seg - n) seg ++ [b].
Proof.
  intros seg b n Hn. rewrite app_length. cbn [length].
  replace (length seg + 1 - S n)%nat with (length seg - n)%nat by lia.
  rewrite skipn_app.
  replace (length seg - n - length seg)%nat with 0%nat by lia. reflexivity.
Qed.

Lemma skipn_bytes_ok : forall k (w : bytes), bytes_ok w -> bytes_ok (skipn k w).
Proof.
  unfold bytes_ok. intros k w H. rewrite Forall_forall in *. intros x Hx.
  apply H. rewrite <- (firstn_skipn k w). apply in_or_app. now right.
Qed.

Lemma deriv_empty : forall b, deriv Empty b = Empty.
Proof. reflexivity. Qed.

Lemma search_nullable : forall f reps r work seen,
  nullable r = true -> nonempty_search (Datatypes.S f) reps (r :: work) seen = Some true.
Proof. intros f reps r work seen H. cbn [nonempty_search]. rewrite H. reflexivity. Qed.

(* a nullable expression is never dropped *)
Lemma nullable_nonempty : forall r, nullable r = true -> nonempty r = true.
Proof.
  intros r Hn. unfold nonempty, nonempty_fuel.
  destruct (has_and_not r) eqn:E.
  - unfold default_fuel. rewrite search_nullable by exact Hn. reflexivity.
  - apply (proj2 (nonempty_simple_correct r E)). exists []. now apply nullable_correct.
Qed.

Lemma nullable_not_empty_syn : forall r, nullable r = true -> is_empty_syn r = false.
Proof. intros r H. destruct r; try reflexivity. discriminate. Qed.

(* ------------------------------------------------------------------ *)
(* COUNTEREXAMPLE to the original statement of step_partials_ok         *)
(* ------------------------------------------------------------------ *)
(* With S = Not (any_byte* ) (the words containing a value >= 256, which no real
   byte string does), seg = [0], ps = [] and the ill-formed "byte" b = 256:
   `nonempty (deriv S 0) = false` (the search proves the residual empty over real
   bytes), so ps = [] describes seg; but deriv (deriv S 0) 256 = Not Empty is
   nullable, so the description of seg ++ [256] demands an entry of length 2 whose
   parent was (rightly) dropped. *)
Definition cex_S : regex := Not (Star any_byte).

Lemma step_partials_ok_original_false :
  ~ (forall S seg ps b,
       partials_ok S seg ps -> partials_ok S (seg ++ [b]) (step_partials S ps b)).
Proof.
  intros H.
  assert (H0 : partials_ok cex_S [0] []).
  { intros r n. split; [intros []|].
    intros (Hle & Hpos & Hr & _ & Hne). cbn [length] in Hle.
    assert (n = 1%nat) as -> by lia. cbn in Hr. subst r.
    vm_compute in Hne. discriminate. }
  specialize (H cex_S [0] [] 256 H0).
  destruct (H (Not Empty) 2%nat) as [_ Hback].
  assert (Hin : In (Not Empty, 2%nat) (step_partials cex_S [] 256)).
  { apply Hback. vm_compute. repeat split; constructor. constructor. }
  vm_compute in Hin. destruct Hin as [Hin|[]]. discriminate.
Qed.

(* ------------------------------------------------------------------ *)
(* completeness of the emptiness search: `Some false` is always right   *)
(* (RegexProofs only has the soundness of `Some true`)                  *)
(* ------------------------------------------------------------------ *)

Section AllSets.
  Variable P : bset -> Prop.
  Hypothesis P_lor : forall s t, P s -> P t -> P (N.lor s t).
  Hypothesis P_land : forall s t, P s -> P t -> P (N.land s t).
  Hypothesis P_all : P bset_all.

  (* every byte set occurring in r satisfies P *)
  Fixpoint allsets (r : regex) : Prop :=
    match r with
    | Bytes t => P t
    | Cat a b | Alt a b | And a b => allsets a /\ allsets b
    | Not a => allsets a
    | Rep a _ _ => allsets a
    | _ => True
    end.

  Lemma allsets_occ : forall r, allsets r <-> (forall s, occ s r -> P s).
  Proof.
    induction r as [| |t|a IHa b IHb|a IHa b IHb|a IHa b IHb|a IHa|a IHa lo hi];
      cbn [allsets occ]; try (rewrite IHa, IHb; split;
        [intros [H1 H2] s [H|H]; auto | intros H; split; intros s Hs; apply H; auto]);
      try assumption.
    - split; [intros _ s [] | trivial].
    - split; [intros _ s [] | trivial].
    - split; [intros H s ->; exact H | intros H; now apply H].
  Qed.

  Lemma allsets_mk_bytes : forall s, P s -> allsets (mk_bytes s).
  Proof.
    intros s H. unfold mk_bytes. destruct (N.land s bset_all =? 0); cbn [allsets]; auto.
  Qed.

  Lemma allsets_mk_cat : forall a b, allsets a -> allsets b -> allsets (mk_cat a b).
  Proof.
    intros a b Ha Hb. unfold mk_cat.
    destruct (is_empty_syn a || is_empty_syn b); [exact I|].
    destruct (is_eps_syn a); [assumption|].
    destruct (is_eps_syn b); [assumption|].
    destruct a; cbn [allsets] in *; tauto.
  Qed.

  Lemma allsets_alt_insert_all : forall a b, allsets a -> allsets b -> allsets (alt_insert_all a b).
  Proof.
    induction a as [| |t|a1 IH1 a2 IH2|a1 IH1 a2 IH2|a1 IH1 a2 IH2|a1 IH1|a1 IH1 lo hi];
      intros b Ha Hb; cbn [alt_insert_all];
      try (match goal with |- context [alt_mem ?x ?y] => destruct (alt_mem x y) end;
           cbn [allsets] in *; tauto).
    cbn [allsets] in Ha. destruct Ha as [Ha1 Ha2].
    pose proof (IH2 b Ha2 Hb) as H.
    destruct (alt_mem a1 (alt_insert_all a2 b)); [assumption|]. cbn [allsets]. tauto.
  Qed.

  Lemma allsets_mk_alt : forall a b, allsets a -> allsets b -> allsets (mk_alt a b).
  Proof.
    intros a b Ha Hb. unfold mk_alt.
    destruct (is_empty_syn a); [assumption|].
    destruct (is_empty_syn b); [assumption|].
    destruct (is_all_syn a || is_all_syn b); [exact I|].
    destruct a; try (apply allsets_alt_insert_all; assumption).
    destruct b; try (apply allsets_alt_insert_all; assumption).
    cbn [allsets] in *. now apply P_lor.
  Qed.

  Lemma allsets_mk_and : forall a b, allsets a -> allsets b -> allsets (mk_and a b).
  Proof.
    intros a b Ha Hb. unfold mk_and.
    destruct (is_empty_syn a || is_empty_syn b); [exact I|].
    destruct (is_all_syn a); [assumption|].
    destruct (is_all_syn b); [assumption|].
    destruct (regex_eqb a b); [assumption|].
    destruct a; destruct b;
      try (cbn [allsets] in *; tauto);
      try (match goal with |- context [if ?c then _ else _] => destruct c end; exact I).
    cbn [allsets] in *. apply allsets_mk_bytes. now apply P_land.
  Qed.

  Lemma allsets_mk_rep : forall a lo hi, allsets a -> allsets (mk_rep a lo hi).
  Proof.
    intros a lo hi Ha. unfold mk_rep. destruct hi as [h|].
    - destruct (h <? lo); [exact I|]. destruct (h =? 0); [exact I|].
      destruct (is_empty_syn a); [destruct (lo =? 0); exact I|].
      destruct (is_eps_syn a); [exact I|].
      destruct ((lo =? 1) && (h =? 1)); assumption.
    - destruct (is_empty_syn a); [destruct (lo =? 0); exact I|].
      destruct (is_eps_syn a); [exact I|]. assumption.
  Qed.

  Lemma allsets_deriv : forall r c, allsets r -> allsets (deriv r c).
  Proof.
    induction r as [| |t|a IHa b IHb|a IHa b IHb|a IHa b IHb|a IHa|a IHa lo hi];
      intros c H; cbn [deriv]; cbn [allsets] in H.
    - exact I.
    - exact I.
    - destruct (bset_mem t c && (c <? 256)); exact I.
    - destruct H as [H1 H2].
      assert (Hd : allsets (mk_cat (deriv a c) b)) by (apply allsets_mk_cat; auto).
      destruct (nullable a); [apply allsets_mk_alt; auto | assumption].
    - destruct H as [H1 H2]. apply allsets_mk_alt; auto.
    - destruct H as [H1 H2]. apply allsets_mk_and; auto.
    - unfold mk_not. cbn [allsets]. auto.
    - assert (Hd : allsets (mk_cat (deriv a c) (mk_rep a (lo - 1) (pred_opt hi)))).
      { apply allsets_mk_cat; [auto | now apply allsets_mk_rep]. }
      destruct hi as [[|p]|]; [exact I | assumption | assumption].
  Qed.
End AllSets.

(* s does not separate bytes with the same signature *)
Definition sig_resp (sets : list bset) (s : bset) : Prop :=
  forall c c', c < 256 -> c' < 256 -> signature sets c = signature sets c' ->
               bset_mem s c = bset_mem s c'.

Lemma sig_resp_lor : forall sets s t, sig_resp sets s -> sig_resp sets t -> sig_resp sets (N.lor s t).
Proof.
  unfold sig_resp, bset_mem. intros sets s t Hs Ht c c' Hc Hc' Hsig. rewrite !N.lor_spec.
  now rewrite (Hs c c' Hc Hc' Hsig), (Ht c c' Hc Hc' Hsig).
Qed.
Lemma sig_resp_land : forall sets s t, sig_resp sets s -> sig_resp sets t -> sig_resp sets (N.land s t).
Proof.
  unfold sig_resp, bset_mem. intros sets s t Hs Ht c c' Hc Hc' Hsig. rewrite !N.land_spec.
  now rewrite (Hs c c' Hc Hc' Hsig), (Ht c c' Hc Hc' Hsig).
Qed.
Lemma sig_resp_all : forall sets, sig_resp sets bset_all.
Proof.
  intros sets c c' Hc Hc' _. unfold bset_mem, bset_all.
  now rewrite !N.ones_spec_low by assumption.
Qed.

Definition sig_ok (sets : list bset) : regex -> Prop := allsets (sig_resp sets).

Lemma sig_ok_deriv : forall sets x c, sig_ok sets x -> sig_ok sets (deriv x c).
Proof.
  intros sets x c. apply allsets_deriv.
  - apply sig_resp_lor. - apply sig_resp_land. - apply sig_resp_all.
Qed.

Lemma sig_ok_init : forall r, sig_ok (byte_sets r []) r.
Proof.
  intros r. apply allsets_occ. intros s Hs c c' _ _ Hsig.
  apply (signature_mem (byte_sets r [])); [assumption | now apply byte_sets_occ].
Qed.

Lemma sig_ok_deriv_eq : forall sets x c c',
  sig_ok sets x -> c < 256 -> c' < 256 -> signature sets c = signature sets c' ->
  deriv x c = deriv x c'.
Proof.
  intros sets x c c' Hx Hc Hc' Hsig. apply deriv_occ; try assumption.
  intros s Hs. exact (proj1 (allsets_occ _ x) Hx s Hs c c' Hc Hc' Hsig).
Qed.

Section Search.
  Variable reps : list byte.
  Variable Q : regex -> Prop.
  Hypothesis Q_deriv : forall x c, Q x -> Q (deriv x c).

  Definition closed_in (seen work : list regex) (x : regex) : Prop :=
    nullable x = false /\ Q x /\
    forall c, In c reps ->
      is_empty_syn (deriv x c) = true \/ In (deriv x c) seen \/ In (deriv x c) work.

  Lemma search_false_closed : forall fuel work seen,
    nonempty_search fuel reps work seen = Some false ->
    (forall x, In x seen -> closed_in seen work x) ->
    (forall x, In x work -> Q x) ->
    exists seen', (forall x, In x seen -> In x seen') /\ (forall x, In x work -> In x seen') /\
                  (forall x, In x seen' -> closed_in seen' [] x).
  Proof.
    induction fuel as [|f IH]; intros work seen H Hinv HQ; cbn [nonempty_search] in H;
      [discriminate|].
    destruct work as [|r work'].
    - exists seen. split; [auto|]. split; [intros x []|]. exact Hinv.
    - destruct (nullable r) eqn:En; [discriminate|].
      destruct (existsb (regex_eqb r) seen) eqn:Es.
      + apply existsb_exists in Es as (y & Hy & Heq). apply regex_eqb_eq in Heq. subst y.
        destruct (IH work' seen H) as (seen' & H1 & H2 & H3).
        * intros x Hx. destruct (Hinv x Hx) as (Hn & Hq & Hc). split; [assumption|].
          split; [assumption|]. intros c Hcin.
          destruct (Hc c Hcin) as [He|[Hs|[<-|Hw]]]; auto.
        * intros x Hx. apply HQ. now right.
        * exists seen'. split; [assumption|]. split; [|assumption].
          intros x [<-|Hx]; auto.
      + match type of H with nonempty_search f reps (?nx ++ work') _ = _ => set (next := nx) in * end.
        assert (Hnext : forall d, In d next <->
                          exists c, In c reps /\ d = deriv r c /\ is_empty_syn d = false).
        { intros d. unfold next. rewrite filter_In, in_map_iff, negb_true_iff. split.
          - intros [(c & <- & Hc) He]. exists c. auto.
          - intros (c & Hc & -> & He). split; [now exists c | assumption]. }
        destruct (IH (next ++ work') (r :: seen) H) as (seen' & H1 & H2 & H3).
        * intros x [<-|Hx].
          -- split; [assumption|]. split; [apply HQ; now left|]. intros c Hcin.
             destruct (is_empty_syn (deriv r c)) eqn:He; [now left|].
             right. right. apply in_or_app. left. apply Hnext. exists c. auto.
          -- destruct (Hinv x Hx) as (Hn & Hq & Hc). split; [assumption|].
             split; [assumption|]. intros c Hcin.
             destruct (Hc c Hcin) as [He|[Hs|[<-|Hw]]].
             ++ now left.
             ++ right. left. now right.
             ++ right. left. now left.
             ++ right. right. apply in_or_app. now right.
        * intros x Hx. apply in_app_or in Hx as [Hx|Hx].
          -- apply Hnext in Hx as (c & _ & -> & _). apply Q_deriv. apply HQ. now left.
          -- apply HQ. now right.
        * exists seen'. split; [intros x Hx; apply H1; now right|]. split; [|assumption].
          intros x [<-|Hx]; [apply H1; now left | apply H2, in_or_app; now right].
  Qed.

  Hypothesis reps_cover : forall x c, Q x -> c < 256 -> exists c', In c' reps /\ deriv x c' = deriv x c.

  Lemma closed_no_word : forall seen',
    (forall x, In x seen' -> closed_in seen' [] x) ->
    forall w, bytes_ok w -> forall x, In x seen' -> ~ re_lang x w.
  Proof.
    intros seen' Hcl. induction w as [|c w IH]; intros Hok x Hx Hl.
    - destruct (Hcl x Hx) as (Hn & _ & _). apply nullable_correct in Hl. congruence.
    - inversion Hok as [|c0 w0 Hc Hw]; subst.
      destruct (Hcl x Hx) as (_ & Hq & Hd).
      destruct (reps_cover x c Hq Hc) as (c' & Hin & Heq).
      apply (deriv_correct x c w Hc) in Hl. rewrite <- Heq in Hl.
      destruct (Hd c' Hin) as [He|[Hs|[]]].
      + apply is_empty_syn_true in He. rewrite He in Hl. exact Hl.
      + exact (IH Hw _ Hs Hl).
  Qed.
End Search.

(* a negative answer of the search is right for real byte strings *)
Theorem nonempty_search_false : forall fuel r,
  nonempty_search fuel (representatives (byte_sets r [])) [r] [] = Some false ->
  forall w, bytes_ok w -> ~ re_lang r w.
Proof.
  intros fuel r H w Hok.
  set (sets := byte_sets r []) in *.
  destruct (search_false_closed (representatives sets) (sig_ok sets) (sig_ok_deriv sets)
              fuel [r] [] H) as (seen' & _ & Hin & Hcl).
  - intros x [].
  - intros x [<-|[]]. apply sig_ok_init.
  - apply (closed_no_word (representatives sets) (sig_ok sets)) with (seen' := seen');
      [|assumption|assumption|apply Hin; now left].
    intros x c Hq Hc. destruct (representatives_cover sets c Hc) as (c' & Hc'in & Hc' & Hsig).
    exists c'. split; [assumption|]. now apply (sig_ok_deriv_eq sets).
Qed.

(* `nonempty` never drops an expression that matches some real byte string *)
Theorem nonempty_complete : forall r w, bytes_ok w -> re_lang r w -> nonempty r = true.
Proof.
  intros r w Hok Hl. unfold nonempty.
  destruct (nonempty_fuel default_fuel r) as [[|]|] eqn:E; try reflexivity.
  exfalso. unfold nonempty_fuel in E. destruct (has_and_not r) eqn:Ea.
  - exact (nonempty_search_false _ _ E w Hok Hl).
  - injection E as E.
    assert (Ht : nonempty_simple r = true) by (apply nonempty_simple_correct; [assumption | now exists w]).
    congruence.
Qed.

(* the restriction to real byte strings cannot be dropped: cex_S matches [256] but
   `nonempty cex_S = false` *)
Lemma nonempty_complete_needs_bytes_ok :
  ~ (forall r w, re_lang r w -> nonempty r = true /\ is_empty_syn r = false).
Proof.
  intros H. destruct (H cex_S [256]) as [Hn _].
  - intros Hl. apply (re_lang_bytes_ok (Star any_byte)) in Hl; [|reflexivity].
    inversion Hl as [|x l Hx _]; subst. discriminate Hx.
  - vm_compute in Hn. discriminate.
Qed.

(* a positive answer always has a real byte string as witness *)
Lemma nonempty_fuel_true_ok : forall fuel r,
  nonempty_fuel fuel r = Some true -> exists w, bytes_ok w /\ re_lang r w.
Proof.
  intros fuel r. unfold nonempty_fuel. destruct (has_and_not r) eqn:E; intros H.
  - destruct (nonempty_search_true _ _ _ _ (representatives_lt _) H)
      as (r' & w & [<-|[]] & Hok & Hl).
    now exists w.
  - injection H as H. apply nonempty_simple_correct in H as (w & Hw); [|assumption].
    exists w. split; [now apply (re_lang_bytes_ok r) | assumption].
Qed.

Lemma lang_not_empty_syn : forall r w, re_lang r w -> is_empty_syn r = false.
Proof. intros r w H. destruct r; try reflexivity. destruct H. Qed.

(* The only gap between `nonempty` and real emptiness is fuel exhaustion (answer
   `None`, treated as "non-empty").  [fuel_stable b]: an expression the search
   PROVED empty within the fuel has a b-derivative on which the search also
   terminates within the fuel.  (Informally true: the derivative's search graph is
   a sub-graph explored with a sub-list of the representatives, so it needs fewer
   steps; not proved here, hence an explicit hypothesis.) *)
Definition fuel_stable (b : byte) : Prop :=
  forall r, nonempty_fuel default_fuel r = Some false ->
            nonempty_fuel default_fuel (deriv r b) <> None.

Lemma nonempty_parent : forall r b,
  b < 256 -> fuel_stable b -> nonempty (deriv r b) = true -> nonempty r = true.
Proof.
  intros r b Hb Hst Hd. destruct (nonempty r) eqn:E; [reflexivity|]. exfalso.
  assert (Hno : forall w, bytes_ok w -> ~ re_lang r w).
  { intros w Hok Hl. rewrite (nonempty_complete r w Hok Hl) in E. discriminate. }
  unfold nonempty in E, Hd.
  destruct (nonempty_fuel default_fuel r) as [[|]|] eqn:Ef; try discriminate.
  destruct (nonempty_fuel default_fuel (deriv r b)) as [[|]|] eqn:Ed.
  - apply nonempty_fuel_true_ok in Ed as (w & Hok & Hl).
    apply (Hno (b :: w)); [now constructor | now apply deriv_correct].
  - discriminate.
  - exact (Hst r Ef Ed).
Qed.

(* And/Not-free expressions stay And/Not-free under derivation *)
Ltac han_tac := cbn [has_and_not] in *; repeat rewrite orb_false_iff in *; intuition (auto; discriminate).

Lemma han_mk_cat : forall a b,
  has_and_not a = false -> has_and_not b = false -> has_and_not (mk_cat a b) = false.
Proof.
  intros a b Ha Hb. unfold mk_cat.
  destruct (is_empty_syn a || is_empty_syn b); [reflexivity|].
  destruct (is_eps_syn a); [assumption|].
  destruct (is_eps_syn b); [assumption|].
  destruct a; han_tac.
Qed.

Lemma han_alt_insert_all : forall a b,
  has_and_not a = false -> has_and_not b = false -> has_and_not (alt_insert_all a b) = false.
Proof.
  induction a as [| |t|a1 IH1 a2 IH2|a1 IH1 a2 IH2|a1 IH1 a2 IH2|a1 IH1|a1 IH1 lo hi];
    intros b Ha Hb; cbn [alt_insert_all];
    match goal with |- context [alt_mem ?x ?y] => destruct (alt_mem x y) end; han_tac.
Qed.

Lemma han_mk_alt : forall a b,
  has_and_not a = false -> has_and_not b = false -> has_and_not (mk_alt a b) = false.
Proof.
  intros a b Ha Hb. unfold mk_alt.
  destruct (is_empty_syn a); [assumption|].
  destruct (is_empty_syn b); [assumption|].
  destruct (is_all_syn a) eqn:Ea; [apply is_all_syn_true in Ea; subst a; discriminate|].
  destruct (is_all_syn b) eqn:Eb; [apply is_all_syn_true in Eb; subst b; discriminate|].
  cbn [orb].
  destruct a; try (apply han_alt_insert_all; assumption).
  destruct b; try (apply han_alt_insert_all; assumption).
  reflexivity.
Qed.

Lemma han_mk_rep : forall a lo hi, has_and_not a = false -> has_and_not (mk_rep a lo hi) = false.
Proof.
  intros a lo hi Ha. unfold mk_rep. destruct hi as [h|].
  - destruct (h <? lo); [reflexivity|]. destruct (h =? 0); [reflexivity|].
    destruct (is_empty_syn a); [destruct (lo =? 0); reflexivity|].
    destruct (is_eps_syn a); [reflexivity|].
    destruct ((lo =? 1) && (h =? 1)); assumption.
  - destruct (is_empty_syn a); [destruct (lo =? 0); reflexivity|].
    destruct (is_eps_syn a); [reflexivity|]. assumption.
Qed.

Lemma han_deriv : forall r c, has_and_not r = false -> has_and_not (deriv r c) = false.
Proof.
  induction r as [| |t|a IHa b IHb|a IHa b IHb|a IHa b IHb|a IHa|a IHa lo hi];
    intros c H; cbn [deriv]; cbn [has_and_not] in H; try discriminate.
  - reflexivity.
  - reflexivity.
  - destruct (bset_mem t c && (c <? 256)); reflexivity.
  - apply orb_false_iff in H as [H1 H2].
    assert (Hd : has_and_not (mk_cat (deriv a c) b) = false) by (apply han_mk_cat; auto).
    destruct (nullable a); [apply han_mk_alt; auto | assumption].
  - apply orb_false_iff in H as [H1 H2]. apply han_mk_alt; auto.
  - assert (Hd : has_and_not (mk_cat (deriv a c) (mk_rep a (lo - 1) (pred_opt hi))) = false).
    { apply han_mk_cat; [auto | now apply han_mk_rep]. }
    destruct hi as [[|p]|]; [reflexivity | assumption | assumption].
Qed.

Lemma han_deriv_word : forall u r, has_and_not r = false -> has_and_not (deriv_word r u) = false.
Proof.
  induction u as [|c u IH]; intros r H; cbn [deriv_word]; [assumption|].
  apply IH. now apply han_deriv.
Qed.

Lemma nonempty_parent_simple : forall r b,
  b < 256 -> has_and_not r = false -> nonempty (deriv r b) = true -> nonempty r = true.
Proof.
  intros r b Hb Hr Hd. pose proof (han_deriv r b Hr) as Hdr.
  unfold nonempty, nonempty_fuel in *. rewrite Hr. rewrite Hdr in Hd.
  apply nonempty_simple_correct in Hd as (w & Hw); [|assumption].
  apply nonempty_simple_correct; [assumption|]. exists (b :: w). now apply deriv_correct.
Qed.

(* ------------------------------------------------------------------ *)
(* the live partial matches                                             *)
(* ------------------------------------------------------------------ *)

(* what partials_ok says about one entry *)
Definition entry_ok (S : regex) (seg : bytes) (r : regex) (n : nat) : Prop :=
  (n <= length seg)%nat /\ (0 < n)%nat /\ r = deriv_word S (skipn (length seg - n) seg) /\
  is_empty_syn r = false /\ nonempty r = true.

(* Weaker, fuel-independent invariant: every entry is as described by partials_ok
   (forward direction), and every suffix whose residual still matches some real byte
   string is present.  This is what soundness and completeness of `completed` need,
   and it is preserved by every real byte without any side condition. *)
Definition partials_live (S : regex) (seg : bytes) (ps : partials) : Prop :=
  (forall r n, In (r, n) ps -> entry_ok S seg r n) /\
  (forall n, (n <= length seg)%nat -> (0 < n)%nat ->
     (exists w, bytes_ok w /\ re_lang (deriv_word S (skipn (length seg - n) seg)) w) ->
     In (deriv_word S (skipn (length seg - n) seg), n) ps).

Lemma partials_ok_live : forall S seg ps, partials_ok S seg ps -> partials_live S seg ps.
Proof.
  intros S seg ps H. split.
  - intros r n Hin. exact (proj1 (H r n) Hin).
  - intros n Hle Hpos (w & Hok & Hl). apply H. repeat split; try assumption.
    + exact (lang_not_empty_syn _ _ Hl).
    + exact (nonempty_complete _ _ Hok Hl).
Qed.

Lemma partials_ok_nil : forall S, partials_ok S [] [].
Proof.
  intros S r n. split; [intros []|]. cbn [length]. intros (H1 & H2 & _). lia.
Qed.

Lemma partials_live_nil : forall S, partials_live S [] [].
Proof. intros S. apply partials_ok_live, partials_ok_nil. Qed.

Lemma step_fun_some : forall (b : byte) (r : regex) (n : nat) r' n',
  (let d := deriv r b in
   if is_empty_syn d then None else if nonempty d then Some (d, Datatypes.S n) else None)
  = Some (r', n') <->
  (r' = deriv r b /\ n' = Datatypes.S n /\ is_empty_syn r' = false /\ nonempty r' = true).
Proof.
  intros b r n r' n'. cbv zeta. split.
  - destruct (is_empty_syn (deriv r b)) eqn:He; [discriminate|].
    destruct (nonempty (deriv r b)) eqn:Hn; [|discriminate].
    intros H. injection H as <- <-. auto.
  - intros (-> & -> & He & Hn). rewrite He, Hn. reflexivity.
Qed.

Lemma in_step_partials : forall S ps b r' n',
  In (r', n') (step_partials S ps b) <->
  exists r n, In (r, n) ((S, 0%nat) :: ps) /\ r' = deriv r b /\ n' = Datatypes.S n /\
              is_empty_syn r' = false /\ nonempty r' = true.
Proof.
  intros S ps b r' n'. unfold step_partials. rewrite in_optmap. split.
  - intros ([r n] & Hin & Hf). apply step_fun_some in Hf. now exists r, n.
  - intros (r & n & Hin & Hf). exists (r, n). split; [assumption|]. now apply step_fun_some.
Qed.

Lemma skipn_snoc_0 : forall (seg : bytes) b,
  skipn (length (seg ++ [b]) - 1) (seg ++ [b]) = [b].
Proof.
  intros seg b. rewrite (skipn_snoc seg b 0) by lia. rewrite Nat.sub_0_r, skipn_all. reflexivity.
Qed.

(* forward direction: every entry after the step is a described one *)
Lemma step_partials_forward : forall S seg ps b,
  (forall r n, In (r, n) ps -> entry_ok S seg r n) ->
  forall r' n', In (r', n') (step_partials S ps b) -> entry_ok S (seg ++ [b]) r' n'.
Proof.
  intros S seg ps b H r' n' Hin.
  apply in_step_partials in Hin as (r & n & Hin & -> & -> & He & Hn).
  unfold entry_ok. rewrite app_length. cbn [length].
  destruct Hin as [Heq|Hin].
  - injection Heq as <- <-. split; [lia|]. split; [lia|]. split; [|auto].
    replace (length seg + 1)%nat with (length (seg ++ [b])) by (rewrite app_length; reflexivity).
    rewrite skipn_snoc_0. reflexivity.
  - destruct (H r n Hin) as (Hle & Hpos & Hr & _ & _).
    split; [lia|]. split; [lia|]. split; [|auto].
    replace (length seg + 1)%nat with (length (seg ++ [b])) by (rewrite app_length; reflexivity).
    rewrite skipn_snoc by assumption. rewrite deriv_word_snoc, <- Hr. reflexivity.
Qed.

(* backward direction, given that residuals passing the emptiness test have parents
   passing it *)
Lemma step_partials_ok_gen : forall S seg ps b,
  (forall u, nonempty (deriv (deriv_word S u) b) = true -> nonempty (deriv_word S u) = true) ->
  partials_ok S seg ps -> partials_ok S (seg ++ [b]) (step_partials S ps b).
Proof.
  intros S seg ps b Hpar H r' n'. split.
  - apply (step_partials_forward S seg ps b). intros r n Hin. exact (proj1 (H r n) Hin).
  - intros (Hle & Hpos & Hr & He & Hn).
    destruct n' as [|n]; [lia|]. rewrite app_length in Hle. cbn [length] in Hle.
    assert (Hn' : (n <= length seg)%nat) by lia.
    rewrite skipn_snoc, deriv_word_snoc in Hr by assumption.
    apply in_step_partials.
    exists (deriv_word S (skipn (length seg - n) seg)), n.
    split; [|auto].
    destruct n as [|n].
    + left. rewrite Nat.sub_0_r, skipn_all. reflexivity.
    + right. apply H. split; [assumption|]. split; [lia|]. split; [reflexivity|].
      subst r'. split.
      * destruct (deriv_word S (skipn (length seg - Datatypes.S n) seg)); try reflexivity.
        cbn in He. discriminate.
      * exact (Hpar _ Hn).
Qed.

(* ORIGINAL STATEMENT (false, see step_partials_ok_original_false above):
   Lemma step_partials_ok : forall S seg ps b,
     partials_ok S seg ps -> partials_ok S (seg ++ [b]) (step_partials S ps b).
   CHANGE: two hypotheses added: `b < 256` (b is a real byte; the counterexample uses
   b = 256) and `fuel_stable b` (the fuel-bounded emptiness test does not run out of
   fuel on the b-derivative of an expression it proved empty).  The second one is
   needed only because partials_ok is an `iff` mentioning `nonempty`: the backward
   direction requires that a residual passing the tests now had a parent passing
   them, i.e. `nonempty (deriv r b) = true -> nonempty r = true`; everything except
   the fuel-exhaustion case of that implication is proved above (nonempty_parent).
   For And/Not-free S (e.g. any alternation of stop strings) no fuel is involved and
   step_partials_ok_simple below needs only `b < 256`; so does the fuel-independent
   invariant partials_live (step_partials_live), for every S. *)
(*FIXED*) (* one byte keeps the description of the live partial matches *)
Lemma step_partials_ok : forall S seg ps b,
  b < 256 -> fuel_stable b ->
  partials_ok S seg ps -> partials_ok S (seg ++ [b]) (step_partials S ps b).
Proof.
  intros S seg ps b Hb Hst. apply step_partials_ok_gen.
  intros u. now apply nonempty_parent.
Qed.

(* And/Not-free stop expressions: emptiness is decided exactly, no fuel *)
Lemma step_partials_ok_simple : forall S seg ps b,
  has_and_not S = false -> b < 256 ->
  partials_ok S seg ps -> partials_ok S (seg ++ [b]) (step_partials S ps b).
Proof.
  intros S seg ps b HS Hb. apply step_partials_ok_gen.
  intros u. apply nonempty_parent_simple; [assumption | now apply han_deriv_word].
Qed.

(* the same for the fuel-independent invariant: no side condition except b < 256 *)
Lemma step_partials_live : forall S seg ps b,
  b < 256 -> partials_live S seg ps -> partials_live S (seg ++ [b]) (step_partials S ps b).
Proof.
  intros S seg ps b Hb [Hf Hbk]. split.
  - now apply step_partials_forward.
  - intros n' Hle Hpos (w & Hok & Hl).
    destruct n' as [|n]; [lia|]. rewrite app_length in Hle. cbn [length] in Hle.
    assert (Hn' : (n <= length seg)%nat) by lia.
    rewrite skipn_snoc, deriv_word_snoc in * by assumption.
    apply in_step_partials.
    exists (deriv_word S (skipn (length seg - n) seg)), n.
    split; [|split; [reflexivity|split; [reflexivity|split]]].
    + destruct n as [|n].
      * left. rewrite Nat.sub_0_r, skipn_all. reflexivity.
      * right. apply Hbk; [assumption | lia |].
        exists (b :: w). split; [now constructor | now apply deriv_correct].
    + exact (lang_not_empty_syn _ _ Hl).
    + exact (nonempty_complete _ _ Hok Hl).
Qed.

Lemma completed_some : forall ps n,
  completed ps = Some n -> exists r, In (r, n) ps /\ nullable r = true.
Proof.
  intros ps n. unfold completed.
  destruct (find (fun '(r, _) => nullable r) ps) as [[r m]|] eqn:E; [|discriminate].
  intros H. injection H as ->. apply find_some in E. now exists r.
Qed.

Lemma completed_none : forall ps r n,
  completed ps = None -> In (r, n) ps -> nullable r = false.
Proof.
  intros ps r n. unfold completed.
  destruct (find (fun '(r, _) => nullable r) ps) as [[r0 m]|] eqn:E; [discriminate|].
  intros _ Hin. exact (find_none _ _ E (r, n) Hin).
Qed.

Lemma completed_sound_live : forall S seg ps n,
  bytes_ok seg -> partials_live S seg ps -> completed ps = Some n ->
  ends_with_match S seg n /\ (0 < n)%nat.
Proof.
  intros S seg ps n Hok [Hf _] Hc.
  apply completed_some in Hc as (r & Hin & Hnull).
  destruct (Hf r n Hin) as (Hle & Hpos & Hr & _ & _).
  split; [|assumption]. split; [assumption|].
  apply nullable_correct in Hnull. subst r.
  apply deriv_word_correct in Hnull; [|now apply skipn_bytes_ok].
  now rewrite app_nil_r in Hnull.
Qed.

Lemma completed_complete_live : forall S seg ps n,
  bytes_ok seg -> partials_live S seg ps -> ends_with_match S seg n -> (0 < n)%nat ->
  exists m, completed ps = Some m.
Proof.
  intros S seg ps n Hok [_ Hbk] [Hle Hl] Hpos.
  assert (Hnull : re_lang (deriv_word S (skipn (length seg - n) seg)) []).
  { apply deriv_word_correct; [now apply skipn_bytes_ok | now rewrite app_nil_r]. }
  assert (Hin : In (deriv_word S (skipn (length seg - n) seg), n) ps).
  { apply Hbk; try assumption. exists []. split; [constructor | assumption]. }
  destruct (completed ps) as [m|] eqn:E; [now exists m|].
  apply nullable_correct in Hnull. rewrite (completed_none _ _ _ E Hin) in Hnull. discriminate.
Qed.

(*FIXED*) (* a completed match reported after seg really is a match of S ending at the end of seg *)
Lemma completed_sound : forall S seg ps n,
  bytes_ok seg -> partials_ok S seg ps -> completed ps = Some n ->
  ends_with_match S seg n /\ (0 < n)%nat.
Proof.
  intros S seg ps n Hok H. apply completed_sound_live; [assumption | now apply partials_ok_live].
Qed.

(*FIXED*) (* and no completion is missed: if some non-empty suffix of seg matches S, one is reported *)
Lemma completed_complete : forall S seg ps n,
  bytes_ok seg -> partials_ok S seg ps -> ends_with_match S seg n -> (0 < n)%nat ->
  exists m, completed ps = Some m.
Proof.
  intros S seg ps n Hok H. apply completed_complete_live; [assumption | now apply partials_ok_live].
Qed.

(* ------------------------------------------------------------------ *)
(* the controller                                                       *)
(* ------------------------------------------------------------------ *)

Lemma sc_commit_stopped : forall tr stop_tokens S st t,
  sc_stopped st = true -> sc_commit tr stop_tokens S st t = ([], st).
Proof. intros tr stop_tokens S st t H. unfold sc_commit. rewrite H. reflexivity. Qed.

(*FIXED*) (* nothing is returned once stopped *)
Theorem silent_after_stop : forall tr stop_tokens S st ts,
  sc_stopped st = true -> Forall (fun o => o = []) (sc_run tr stop_tokens S st ts).
Proof.
  intros tr stop_tokens S st ts H. induction ts as [|t ts IH]; cbn [sc_run].
  - constructor.
  - rewrite (sc_commit_stopped _ _ _ _ _ H). constructor; [reflexivity | exact IH].
Qed.

(*FIXED*) (* once stopped, always stopped *)
Theorem stopped_is_sticky : forall tr stop_tokens S st t,
  sc_stopped st = true -> sc_stopped (snd (sc_commit tr stop_tokens S st t)) = true.
Proof.
  intros tr stop_tokens S st t H. rewrite (sc_commit_stopped _ _ _ _ _ H). exact H.
Qed.

Lemma fold_stopped : forall tr stop_tokens S ts st,
  sc_stopped st = true ->
  sc_stopped (fold_left (fun s t => snd (sc_commit tr stop_tokens S s t)) ts st) = true.
Proof.
  intros tr stop_tokens S. induction ts as [|t ts IH]; intros st H; cbn [fold_left].
  - exact H.
  - apply IH. now apply stopped_is_sticky.
Qed.

(* feeding without reaching a stop only appends *)
Lemma feed_no_stop : forall S w ps buf out ps',
  feed S ps buf w = (out, ps', false) -> out = buf ++ w.
Proof.
  intros S. induction w as [|b w IH]; intros ps buf out ps' H; cbn [feed] in H.
  - injection H as <- _. now rewrite app_nil_r.
  - cbv zeta in H. destruct (completed (step_partials S ps b)); [discriminate|].
    apply IH in H. rewrite H, <- app_assoc. reflexivity.
Qed.

(* one token: what is returned plus what is held back is the old pending text plus
   the text of the token *)
Lemma sc_commit_text : forall tr stop_tokens S st t o st',
  sc_stopped st = false -> sc_commit tr stop_tokens S st t = (o, st') ->
  sc_stopped st' = false ->
  o ++ sc_pending st' = sc_pending st ++ tok_text tr t.
Proof.
  intros tr stop_tokens S st t o st' Hst Hc Hst'.
  unfold sc_commit in Hc. rewrite Hst in Hc. unfold tok_text.
  destruct (existsb (N.eqb t) stop_tokens).
  { injection Hc as <- <-. discriminate Hst'. }
  destruct (token tr t) as [|x w'].
  { injection Hc as <- <-. cbn [sc_pending]. now rewrite app_nil_r. }
  destruct (x =? marker).
  { injection Hc as <- <-. cbn [sc_pending]. now rewrite app_nil_r. }
  destruct S as [rx|].
  - destruct (feed rx (sc_partials st) (sc_pending st) (x :: w')) as [[out ps] stopped] eqn:Ef.
    destruct stopped.
    + injection Hc as <- <-. discriminate Hst'.
    + injection Hc as <- <-. cbn [sc_pending]. rewrite firstn_skipn.
      exact (feed_no_stop _ _ _ _ _ _ Ef).
  - injection Hc as <- <-. cbn [sc_pending]. now rewrite firstn_skipn.
Qed.

Lemma output_plus_pending_aux : forall tr stop_tokens S ts st,
  sc_stopped st = false ->
  sc_stopped (fold_left (fun s t => snd (sc_commit tr stop_tokens S s t)) ts st) = false ->
  concat (sc_run tr stop_tokens S st ts) ++
    sc_pending (fold_left (fun s t => snd (sc_commit tr stop_tokens S s t)) ts st)
  = sc_pending st ++ concat (map (tok_text tr) ts).
Proof.
  intros tr stop_tokens S. induction ts as [|t ts IH]; intros st Hst Hfin;
    cbn [sc_run fold_left map concat] in *.
  - now rewrite app_nil_r.
  - destruct (sc_commit tr stop_tokens S st t) as [o1 st1] eqn:Ec. cbn [snd] in *.
    assert (Hst1 : sc_stopped st1 = false).
    { destruct (sc_stopped st1) eqn:E; [|reflexivity].
      rewrite (fold_stopped tr stop_tokens S ts st1 E) in Hfin. discriminate. }
    cbn [concat]. rewrite <- app_assoc, (IH st1 Hst1 Hfin), app_assoc.
    rewrite (sc_commit_text _ _ _ _ _ _ _ Hst Ec Hst1), <- app_assoc. reflexivity.
Qed.

(*FIXED*) (* while not stopped, nothing is lost or invented: what was returned plus what is
   held back is the decoded text of the committed tokens *)
Theorem output_plus_pending_is_text : forall tr stop_tokens S ts st o st',
  sc_stopped st = false ->
  (o, st') = (concat (sc_run tr stop_tokens S st ts),
              fold_left (fun s t => snd (sc_commit tr stop_tokens S s t)) ts st) ->
  sc_stopped st' = false ->
  o ++ sc_pending st' = sc_pending st ++ concat (map (tok_text tr) ts).
Proof.
  intros tr stop_tokens S ts st o st' Hst Heq Hst'. injection Heq as -> ->.
  now apply output_plus_pending_aux.
Qed.

(*FIXED*) (* a stop token ends the run with exactly the text before it *)
Theorem stop_token_cut : forall tr stop_tokens S st t,
  sc_stopped st = false -> existsb (N.eqb t) stop_tokens = true ->
  sc_commit tr stop_tokens S st t = (sc_pending st, mk_sc true (sc_partials st) []).
Proof.
  intros tr stop_tokens S st t H1 H2. unfold sc_commit. rewrite H1, H2. reflexivity.
Qed.

(* ------------------------------------------------------------------ *)
(* UTF-8 cut                                                            *)
(* ------------------------------------------------------------------ *)

Lemma last_start_le : forall l i, (last_start l i <= i)%nat.
Proof.
  induction l as [|b l IH]; intros i; destruct i as [|i]; cbn [last_start]; try lia.
  destruct (is_cont b); [|lia]. specialize (IH i). lia.
Qed.

Lemma last_start_head : forall b l i, is_cont b = false -> last_start (b :: l) i = i.
Proof. intros b l i H. destruct i as [|i]; cbn [last_start]; [reflexivity|]. now rewrite H. Qed.

(*FIXED*) (* the UTF-8 cut never exceeds the data; complete ASCII data is returned whole *)
Lemma valid_utf8_len_bounds : forall data,
  (valid_utf8_len data <= length data)%nat /\
  (Forall (fun b => b < 128) data -> valid_utf8_len data = length data).
Proof.
  intros data. destruct data as [|x data']; [split; reflexivity|].
  unfold valid_utf8_len. cbv zeta. set (data := x :: data').
  set (n := length data). set (i := last_start (rev data) (n - 1)).
  assert (Hn : (0 < n)%nat) by (unfold n, data; cbn [length]; lia).
  assert (Hi : (i <= n - 1)%nat) by apply last_start_le.
  split.
  - destruct (Nat.leb (i + char_len (nth i data 0)) n) eqn:E; [now apply Nat.leb_le in E|].
    clearbody i n. lia.
  - intros Hall. rewrite Forall_forall in Hall.
    assert (Hieq : i = (n - 1)%nat).
    { unfold i. destruct (rev data) as [|b rest] eqn:Er; [reflexivity|].
      apply last_start_head.
      assert (Hb : b < 128).
      { apply Hall. apply (proj2 (in_rev data b)). rewrite Er. now left. }
      unfold is_cont. apply N.leb_gt in Hb. now rewrite Hb. }
    assert (Hc : char_len (nth i data 0) = 1%nat).
    { unfold char_len.
      assert (Hlt : nth i data 0 < 128) by (apply Hall, nth_In; fold n; lia).
      apply N.ltb_lt in Hlt. now rewrite Hlt. }
    rewrite Hc, Hieq. replace (n - 1 + 1)%nat with n by lia.
    now rewrite Nat.leb_refl.
Qed.

Print Assumptions step_partials_ok_original_false.
Print Assumptions nonempty_complete.
Print Assumptions step_partials_ok.
Print Assumptions step_partials_ok_simple.
Print Assumptions step_partials_live.
Print Assumptions completed_sound.
Print Assumptions completed_complete.
Print Assumptions silent_after_stop.
Print Assumptions stopped_is_sticky.
Print Assumptions output_plus_pending_is_text.
Print Assumptions stop_token_cut.
Print Assumptions valid_utf8_len_bounds.
