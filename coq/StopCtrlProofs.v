(* StopCtrlProofs.v — the stop-sequence controller returns, over the whole run, the
   decoded text up to but excluding the first completed stop match, and nothing
   after it.  STATEMENTS MARKED (*FIXED*) MUST NOT CHANGE. *)
From LLG Require Import Base Regex RegexProofs Trie StopCtrl.

(* the partial matches alive after the segment `seg` (bytes since the last reset):
   exactly the non-empty residuals of S along the suffixes of seg, youngest first *)
Definition partials_ok (S : regex) (seg : bytes) (ps : partials) : Prop :=
  forall r n, In (r, n) ps <->
    ((n <= length seg)%nat /\ (0 < n)%nat /\ r = deriv_word S (skipn (length seg - n) seg) /\
     is_empty_syn r = false /\ nonempty r = true).

(* ------------------------------------------------------------------ *)
(* list / derivative helpers                                            *)
(* ------------------------------------------------------------------ *)

Lemma in_optmap : forall {A B} (f : A -> option B) l y,
  In y (optmap f l) <-> exists x, In x l /\ f x = Some y.
Proof.
  intros A B f. induction l as [|a l IH]; intros y; cbn [optmap].
  - split; [intros [] | intros (x & [] & _)].
  - destruct (f a) as [z|] eqn:E.
    + cbn [In]. rewrite IH. split.
      * intros [<-|(x & Hin & Hx)]; [exists a; split; [now left | assumption]|].
        exists x. split; [now right | assumption].
      * intros (x & [<-|Hin] & Hx).
        -- rewrite E in Hx. injection Hx as ->. now left.
        -- right. now exists x.
    + rewrite IH. split.
      * intros (x & Hin & Hx). exists x. split; [now right | assumption].
      * intros (x & [<-|Hin] & Hx); [rewrite E in Hx; discriminate|]. now exists x.
Qed.

Lemma deriv_word_snoc : forall u r b, deriv_word r (u ++ [b]) = deriv (deriv_word r u) b.
Proof.
  induction u as [|c u IH]; intros r b; cbn [app deriv_word]; [reflexivity | apply IH].
Qed.

Lemma skipn_snoc : forall (seg : bytes) b n, (n <= length seg)%nat ->
  skipn (length (seg ++ [b]) - S n) (seg ++ [b]) = skipn (length seg - n) seg ++ [b].
Proof.
  intros seg b n Hn. rewrite app_length. cbn [length].
  replace (length seg + 1 - S n)%nat with (length seg - n)%nat by lia.
  rewrite skipn_app.
  replace (length seg - n - length seg)%nat with 0%nat by lia. reflexivity.
Qed.

Lemma skipn_bytes_ok : forall k (w : bytes), bytes_ok w -> bytes_ok (skipn k w).
Proof.
  unfold bytes_ok. intros k w H. rewrite Forall_forall in *. intros x Hx.
  apply H. rewrite <- (firstn_skipn k w). apply in_or_app. now right.
Qed.

Lemma deriv_empty : forall b, deriv Empty b = Empty.
Proof. reflexivity. Qed.

Lemma search_nullable : forall f reps r work seen,
  nullable r = true -> nonempty_search (Datatypes.S f) reps (r :: work) seen = Some true.
Proof. intros f reps r work seen H. cbn [nonempty_search]. rewrite H. reflexivity. Qed.

(* a nullable expression is never dropped *)
Lemma nullable_nonempty : forall r, nullable r = true -> nonempty r = true.
Proof.
  intros r Hn. unfold nonempty, nonempty_fuel.
  destruct (has_and_not r) eqn:E.
  - unfold default_fuel. rewrite search_nullable by exact Hn. reflexivity.
  - apply (proj2 (nonempty_simple_correct r E)). exists []. now apply nullable_correct.
Qed.

Lemma nullable_not_empty_syn : forall r, nullable r = true -> is_empty_syn r = false.
Proof. intros r H. destruct r; try reflexivity. discriminate. Qed.

(* ------------------------------------------------------------------ *)
(* COUNTEREXAMPLE to the original statement of step_partials_ok         *)
(* ------------------------------------------------------------------ *)
(* With S = Not (any_byte* ) (the words containing a value >= 256, which no real
   byte string does), seg = [0], ps = [] and the ill-formed "byte" b = 256:
   `nonempty (deriv S 0) = false` (the search proves the residual empty over real
   bytes), so ps = [] describes seg; but deriv (deriv S 0) 256 = Not Empty is
   nullable, so the description of seg ++ [256] demands an entry of length 2 whose
   parent was (rightly) dropped. *)
Definition cex_S : regex := Not (Star any_byte).

Lemma step_partials_ok_original_false :
  ~ (forall S seg ps b,
       partials_ok S seg ps -> partials_ok S (seg ++ [b]) (step_partials S ps b)).
Proof.
  intros H.
  assert (H0 : partials_ok cex_S [0] []).
  { intros r n. split; [intros []|].
    intros (Hle & Hpos & Hr & _ & Hne). cbn [length] in Hle.
    assert (n = 1%nat) as -> by lia. cbn in Hr. subst r.
    vm_compute in Hne. discriminate. }
  specialize (H cex_S [0] [] 256 H0).
  destruct (H (Not Empty) 2%nat) as [_ Hback].
  assert (Hin : In (Not Empty, 2%nat) (step_partials cex_S [] 256)).
  { apply Hback. vm_compute. repeat split; constructor. constructor. }
  vm_compute in Hin. destruct Hin as [Hin|[]]. discriminate.
Qed.

(* ------------------------------------------------------------------ *)
(* completeness of the emptiness search: `Some false` is always right   *)
(* (RegexProofs only has the soundness of `Some true`)                  *)
(* ------------------------------------------------------------------ *)

Section AllSets.
  Variable P : bset -> Prop.
  Hypothesis P_lor : forall s t, P s -> P t -> P (N.lor s t).
  Hypothesis P_land : forall s t, P s -> P t -> P (N.land s t).
  Hypothesis P_all : P bset_all.

  (* every byte set occurring in r satisfies P *)
  Fixpoint allsets (r : regex) : Prop :=
    match r with
    | Bytes t => P t
    | Cat a b | Alt a b | And a b => allsets a /\ allsets b
    | Not a => allsets a
    | Rep a _ _ => allsets a
    | _ => True
    end.

  Lemma allsets_occ : forall r, allsets r <-> (forall s, occ s r -> P s).
  Proof.
    induction r as [| |t|a IHa b IHb|a IHa b IHb|a IHa b IHb|a IHa|a IHa lo hi];
      cbn [allsets occ]; try (rewrite IHa, IHb; split;
        [intros [H1 H2] s [H|H]; auto | intros H; split; intros s Hs; apply H; auto]);
      try assumption.
    - split; [intros _ s [] | trivial].
    - split; [intros _ s [] | trivial].
    - split; [intros H s ->; exact H | intros H; now apply H].
  Qed.

  Lemma allsets_mk_bytes : forall s, P s -> allsets (mk_bytes s).
  Proof.
    intros s H. unfold mk_bytes. destruct (N.land s bset_all =? 0); cbn [allsets]; auto.
  Qed.

  Lemma allsets_mk_cat : forall a b, allsets a -> allsets b -> allsets (mk_cat a b).
  Proof.
    intros a b Ha Hb. unfold mk_cat.
    destruct (is_empty_syn a || is_empty_syn b); [exact I|].
    destruct (is_eps_syn a); [assumption|].
    destruct (is_eps_syn b); [assumption|].
    destruct a; cbn [allsets] in *; tauto.
  Qed.

  Lemma allsets_alt_insert_all : forall a b, allsets a -> allsets b -> allsets (alt_insert_all a b).
  Proof.
    induction a as [| |t|a1 IH1 a2 IH2|a1 IH1 a2 IH2|a1 IH1 a2 IH2|a1 IH1|a1 IH1 lo hi];
      intros b Ha Hb; cbn [alt_insert_all];
      try (match goal with |- context [alt_mem ?x ?y] => destruct (alt_mem x y) end;
           cbn [allsets] in *; tauto).
    cbn [allsets] in Ha. destruct Ha as [Ha1 Ha2].
    pose proof (IH2 b Ha2 Hb) as H.
    destruct (alt_mem a1 (alt_insert_all a2 b)); [assumption|]. cbn [allsets]. tauto.
  Qed.

  Lemma allsets_mk_alt : forall a b, allsets a -> allsets b -> allsets (mk_alt a b).
  Proof.
    intros a b Ha Hb. unfold mk_alt.
    destruct (is_empty_syn a); [assumption|].
    destruct (is_empty_syn b); [assumption|].
    destruct (is_all_syn a || is_all_syn b); [exact I|].
    destruct a; try (apply allsets_alt_insert_all; assumption).
    destruct b; try (apply allsets_alt_insert_all; assumption).
    cbn [allsets] in *. now apply P_lor.
  Qed.

  Lemma allsets_mk_and : forall a b, allsets a -> allsets b -> allsets (mk_and a b).
  Proof.
    intros a b Ha Hb. unfold mk_and.
    destruct (is_empty_syn a || is_empty_syn b); [exact I|].
    destruct (is_all_syn a); [assumption|].
    destruct (is_all_syn b); [assumption|].
    destruct (regex_eqb a b); [assumption|].
    destruct a; destruct b;
      try (cbn [allsets] in *; tauto);
      try (match goal with |- context [if ?c then _ else _] => destruct c end; exact I).
    cbn [allsets] in *. apply allsets_mk_bytes. now apply P_land.
  Qed.

  Lemma allsets_mk_rep : forall a lo hi, allsets a -> allsets (mk_rep a lo hi).
  Proof.
    intros a lo hi Ha. unfold mk_rep. destruct hi as [h|].
    - destruct (h <? lo); [exact I|]. destruct (h =? 0); [exact I|].
      destruct (is_empty_syn a); [destruct (lo =? 0); exact I|].
      destruct (is_eps_syn a); [exact I|].
      destruct ((lo =? 1) && (h =? 1)); assumption.
    - destruct (is_empty_syn a); [destruct (lo =? 0); exact I|].
      destruct (is_eps_syn a); [exact I|]. assumption.
  Qed.

  Lemma allsets_deriv : forall r c, allsets r -> allsets (deriv r c).
  Proof.
    induction r as [| |t|a IHa b IHb|a IHa b IHb|a IHa b IHb|a IHa|a IHa lo hi];
      intros c H; cbn [deriv]; cbn [allsets] in H.
    - exact I.
    - exact I.
    - destruct (bset_mem t c && (c <? 256)); exact I.
    - destruct H as [H1 H2].
      assert (Hd : allsets (mk_cat (deriv a c) b)) by (apply allsets_mk_cat; auto).
      destruct (nullable a); [apply allsets_mk_alt; auto | assumption].
    - destruct H as [H1 H2]. apply allsets_mk_alt; auto.
    - destruct H as [H1 H2]. apply allsets_mk_and; auto.
    - unfold mk_not. cbn [allsets]. auto.
    - assert (Hd : allsets (mk_cat (deriv a c) (mk_rep a (lo - 1) (pred_opt hi)))).
      { apply allsets_mk_cat; [auto | now apply allsets_mk_rep]. }
      destruct hi as [[|p]|]; [exact I | assumption | assumption].
  Qed.
End AllSets.

(* s does not separate bytes with the same signature *)
Definition sig_resp (sets : list bset) (s : bset) : Prop :=
  forall c c', c < 256 -> c' < 256 -> signature sets c = signature sets c' ->
               bset_mem s c = bset_mem s c'.

Lemma sig_resp_lor : forall sets s t, sig_resp sets s -> sig_resp sets t -> sig_resp sets (N.lor s t).
Proof.
  unfold sig_resp, bset_mem. intros sets s t Hs Ht c c' Hc Hc' Hsig. rewrite !N.lor_spec.
  now rewrite (Hs c c' Hc Hc' Hsig), (Ht c c' Hc Hc' Hsig).
Qed.
Lemma sig_resp_land : forall sets s t, sig_resp sets s -> sig_resp sets t -> sig_resp sets (N.land s t).
Proof.
  unfold sig_resp, bset_mem. intros sets s t Hs Ht c c' Hc Hc' Hsig. rewrite !N.land_spec.
  now rewrite (Hs c c' Hc Hc' Hsig), (Ht c c' Hc Hc' Hsig).
Qed.
Lemma sig_resp_all : forall sets, sig_resp sets bset_all.
Proof.
  intros sets c c' Hc Hc' _. unfold bset_mem, bset_all.
  now rewrite !N.ones_spec_low by assumption.
Qed.

Definition sig_ok (sets : list bset) : regex -> Prop := allsets (sig_resp sets).

Lemma sig_ok_deriv : forall sets x c, sig_ok sets x -> sig_ok sets (deriv x c).
Proof.
  intros sets x c. apply allsets_deriv.
  - apply sig_resp_lor. - apply sig_resp_land. - apply sig_resp_all.
Qed.

Lemma sig_ok_init : forall r, sig_ok (byte_sets r []) r.
Proof.
  intros r. apply allsets_occ. intros s Hs c c' _ _ Hsig.
  apply (signature_mem (byte_sets r [])); [assumption | now apply byte_sets_occ].
Qed.

Lemma sig_ok_deriv_eq : forall sets x c c',
  sig_ok sets x -> c < 256 -> c' < 256 -> signature sets c = signature sets c' ->
  deriv x c = deriv x c'.
Proof.
  intros sets x c c' Hx Hc Hc' Hsig. apply deriv_occ; try assumption.
  intros s Hs. exact (proj1 (allsets_occ _ x) Hx s Hs c c' Hc Hc' Hsig).
Qed.

Section Search.
  Variable reps : list byte.
  Variable Q : regex -> Prop.
  Hypothesis Q_deriv : forall x c, Q x -> Q (deriv x c).

  Definition closed_in (seen work : list regex) (x : regex) : Prop :=
    nullable x = false /\ Q x /\
    forall c, In c reps ->
      is_empty_syn (deriv x c) = true \/ In (deriv x c) seen \/ In (deriv x c) work.

  Lemma search_false_closed : forall fuel work seen,
    nonempty_search fuel reps work seen = Some false ->
    (forall x, In x seen -> closed_in seen work x) ->
    (forall x, In x work -> Q x) ->
    exists seen', (forall x, In x seen -> In x seen') /\ (forall x, In x work -> In x seen') /\
                  (forall x, In x seen' -> closed_in seen' [] x).
  Proof.
    induction fuel as [|f IH]; intros work seen H Hinv HQ; cbn [nonempty_search] in H;
      [discriminate|].
    destruct work as [|r work'].
    - exists seen. split; [auto|]. split; [intros x []|]. exact Hinv.
    - destruct (nullable r) eqn:En; [discriminate|].
      destruct (existsb (regex_eqb r) seen) eqn:Es.
      + apply existsb_exists in Es as (y & Hy & Heq). apply regex_eqb_eq in Heq. subst y.
        destruct (IH work' seen H) as (seen' & H1 & H2 & H3).
        * intros x Hx. destruct (Hinv x Hx) as (Hn & Hq & Hc). split; [assumption|].
          split; [assumption|]. intros c Hcin.
          destruct (Hc c Hcin) as [He|[Hs|[<-|Hw]]]; auto.
        * intros x Hx. apply HQ. now right.
        * exists seen'. split; [assumption|]. split; [|assumption].
          intros x [<-|Hx]; auto.
      + match type of H with nonempty_search f reps (?nx ++ work') _ = _ => set (next := nx) in * end.
        assert (Hnext : forall d, In d next <->
                          exists c, In c reps /\ d = deriv r c /\ is_empty_syn d = false).
        { intros d. unfold next. rewrite filter_In, in_map_iff, negb_true_iff. split.
          - intros [(c & <- & Hc) He]. exists c. auto.
          - intros (c & Hc & -> & He). split; [now exists c | assumption]. }
        destruct (IH (next ++ work') (r :: seen) H) as (seen' & H1 & H2 & H3).
        * intros x [<-|Hx].
          -- split; [assumption|]. split; [apply HQ; now left|]. intros c Hcin.
             destruct (is_empty_syn (deriv r c)) eqn:He; [now left|].
             right. right. apply in_or_app. left. apply Hnext. exists c. auto.
          -- destruct (Hinv x Hx) as (Hn & Hq & Hc). split; [assumption|].
             split; [assumption|]. intros c Hcin.
             destruct (Hc c Hcin) as [He|[Hs|[<-|Hw]]].
             ++ now left.
             ++ right. left. now right.
             ++ right. left. now left.
             ++ right. right. apply in_or_app. now right.
        * intros x Hx. apply in_app_or in Hx as [Hx|Hx].
          -- apply Hnext in Hx as (c & _ & -> & _). apply Q_deriv. apply HQ. now left.
          -- apply HQ. now right.
        * exists seen'. split; [intros x Hx; apply H1; now right|]. split; [|assumption].
          intros x [<-|Hx]; [apply H1; now left | apply H2, in_or_app; now right].
  Qed.

  Hypothesis reps_cover : forall x c, Q x -> c < 256 -> exists c', In c' reps /\ deriv x c' = deriv x c.

  Lemma closed_no_word : forall seen',
    (forall x, In x seen' -> closed_in seen' [] x) ->
    forall w, bytes_ok w -> forall x, In x seen' -> ~ re_lang x w.
  Proof.
    intros seen' Hcl. induction w as [|c w IH]; intros Hok x Hx Hl.
    - destruct (Hcl x Hx) as (Hn & _ & _). apply nullable_correct in Hl. congruence.
    - inversion Hok as [|c0 w0 Hc Hw]; subst.
      destruct (Hcl x Hx) as (_ & Hq & Hd).
      destruct (reps_cover x c Hq Hc) as (c' & Hin & Heq).
      apply (deriv_correct x c w Hc) in Hl. rewrite <- Heq in Hl.
      destruct (Hd c' Hin) as [He|[Hs|[]]].
      + apply is_empty_syn_true in He. rewrite He in Hl. exact Hl.
      + exact (IH Hw _ Hs Hl).
  Qed.
End Search.

(* a negative answer of the search is right for real byte strings *)
Theorem nonempty_search_false : forall fuel r,
  nonempty_search fuel (representatives (byte_sets r [])) [r] [] = Some false ->
  forall w, bytes_ok w -> ~ re_lang r w.
Proof.
  intros fuel r H w Hok.
  set (sets := byte_sets r []) in *.
  destruct (search_false_closed (representatives sets) (sig_ok sets) (sig_ok_deriv sets)
              fuel [r] [] H) as (seen' & _ & Hin & Hcl).
  - intros x [].
  - intros x [<-|[]]. apply sig_ok_init.
  - apply (closed_no_word (representatives sets) (sig_ok sets)) with (seen' := seen');
      [|assumption|assumption|apply Hin; now left].
    intros x c Hq Hc. destruct (representatives_cover sets c Hc) as (c' & Hc'in & Hc' & Hsig).
    exists c'. split; [assumption|]. now apply (sig_ok_deriv_eq sets).
Qed.

(* `nonempty` never drops an expression that matches some real byte string *)
Theorem nonempty_complete : forall r w, bytes_ok w -> re_lang r w -> nonempty r = true.
Proof.
  intros r w Hok Hl. unfold nonempty.
  destruct (nonempty_fuel default_fuel r) as [[|]|] eqn:E; try reflexivity.
  exfalso. unfold nonempty_fuel in E. destruct (has_and_not r) eqn:Ea.
  - exact (nonempty_search_false _ _ E w Hok Hl).
  - injection E as E.
    assert (Ht : nonempty_simple r = true) by (apply nonempty_simple_correct; [assumption | now exists w]).
    congruence.
Qed.
