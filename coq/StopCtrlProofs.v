(* StopCtrlProofs.v — the stop-sequence controller returns, over the whole run, the
   decoded text up to but excluding the first completed stop match, and nothing
   after it.  STATEMENTS MARKED (*FIXED*) MUST NOT CHANGE. *)
From LLG Require Import Base Regex RegexProofs Trie StopCtrl.

(* the partial matches alive after the segment `seg` (bytes since the last reset):
   exactly the non-empty residuals of S along the suffixes of seg, youngest first *)
Definition partials_ok (S : regex) (seg : bytes) (ps : partials) : Prop :=
  forall r n, In (r, n) ps <->
    ((n <= length seg)%nat /\ (0 < n)%nat /\ r = deriv_word S (skipn (length seg - n) seg) /\
     is_empty_syn r = false /\ nonempty r = true).

(* ------------------------------------------------------------------ *)
(* list / derivative helpers                                            *)
(* ------------------------------------------------------------------ *)

Lemma in_optmap : forall {A B} (f : A -> option B) l y,
  In y (optmap f l) <-> exists x, In x l /\ f x = Some y.
Proof.
  intros A B f. induction l as [|a l IH]; intros y; cbn [optmap].
  - split; [intros [] | intros (x & [] & _)].
  - destruct (f a) as [z|] eqn:E.
    + cbn [In]. rewrite IH. split.
      * intros [<-|(x & Hin & Hx)]; [exists a; split; [now left | assumption]|].
        exists x. split; [now right | assumption].
      * intros (x & [<-|Hin] & Hx).
        -- rewrite E in Hx. injection Hx as ->. now left.
        -- right. now exists x.
    + rewrite IH. split.
      * intros (x & Hin & Hx). exists x. split; [now right | assumption].
      * intros (x & [<-|Hin] & Hx); [rewrite E in Hx; discriminate|]. now exists x.
Qed.

Lemma deriv_word_snoc : forall u r b, deriv_word r (u ++ [b]) = deriv (deriv_word r u) b.
Proof.
  induction u as [|c u IH]; intros r b; cbn [app deriv_word]; [reflexivity | apply IH].
Qed.

Lemma skipn_snoc : forall (seg : bytes) b n, (n <= length seg)%nat ->
  skipn (length (seg ++ [b]) - S n) (seg ++ [b]) = skipn (length seg - n) seg ++ [b].
Proof.
  intros seg b n Hn. rewrite app_length. cbn [length].
  replace (length seg + 1 - S n)%nat with (length seg - n)%nat by lia.
  rewrite skipn_app.
  replace (length seg - n - length seg)%nat with 0%nat by lia. reflexivity.
Qed.

Lemma skipn_bytes_ok : forall k (w : bytes), bytes_ok w -> bytes_ok (skipn k w).
Proof.
  unfold bytes_ok. intros k w H. rewrite Forall_forall in *. intros x Hx.
  apply H. rewrite <- (firstn_skipn k w). apply in_or_app. now right.
Qed.

Lemma deriv_empty : forall b, deriv Empty b = Empty.
Proof. reflexivity. Qed.

(* a nullable expression is never dropped *)
Lemma nullable_nonempty : forall r, nullable r = true -> nonempty r = true.
Proof.
  intros r Hn. unfold nonempty, nonempty_fuel.
  destruct (has_and_not r) eqn:E.
  - change default_fuel with (Datatypes.S (pred default_fuel)).
    cbn [nonempty_search]. rewrite Hn. reflexivity.
  - apply (proj2 (nonempty_simple_correct r E)). exists []. now apply nullable_correct.
Qed.

Lemma nullable_not_empty_syn : forall r, nullable r = true -> is_empty_syn r = false.
Proof. intros r H. destruct r; try reflexivity. discriminate. Qed.

(* ------------------------------------------------------------------ *)
(* COUNTEREXAMPLE to the original statement of step_partials_ok         *)
(* ------------------------------------------------------------------ *)
(* With S = Not (any_byte* ) (the words containing a value >= 256, which no real
   byte string does), seg = [0], ps = [] and the ill-formed "byte" b = 256:
   `nonempty (deriv S 0) = false` (the search proves the residual empty over real
   bytes), so ps = [] describes seg; but deriv (deriv S 0) 256 = Not Empty is
   nullable, so the description of seg ++ [256] demands an entry of length 2 whose
   parent was (rightly) dropped. *)
Definition cex_S : regex := Not (Star any_byte).

Lemma step_partials_ok_original_false :
  ~ (forall S seg ps b,
