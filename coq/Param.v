(* Param.v — parametric grammar rules (parser/src/earley/grammar.rs): ParamRef / ParamExpr / ParamCond
   evaluation on a 64-bit parameter, and the DNF by which the conditions for deriving the empty
   string are combined (ParametricNullableCtx::dnf).  Fields are written arithmetically
   (p / 2^x mod 2^(y-x)); the code's masks and shifts are tied to this by the correspondence. *)
From Coq Require Import List NArith Bool.
Import ListNotations.
Open Scope N_scope.

Definition W : N := 2 ^ 64.

(* [x:y]: bits x (inclusive) to y (exclusive) *)
Record pref := mk_pref { px : N; py : N }.
Definition plen (r : pref) : N := py r - px r.
Definition pones (r : pref) : N := 2 ^ plen r - 1.
Definition pfield (r : pref) (p : N) : N := (p / 2 ^ px r) mod 2 ^ plen r.     (* ParamRef::eval *)
Definition pref_ok (r : pref) : Prop := px r < py r /\ py r <= 64.

Inductive pexpr :=
| ENull | EConst (v : N) | ESelf
| EIncr (r : pref) | EDecr (r : pref)
| EBitOr (v : N) | EBitAnd (v : N).

(* ParamExpr::eval: saturating increment / decrement of one field *)
Definition pexpr_eval (e : pexpr) (p : N) : N :=
  match e with
  | ENull => 0
  | EConst v => v
  | ESelf => p
  | EIncr r => if pfield r p =? pones r then p else (p + 2 ^ px r) mod W
  | EDecr r => if pfield r p =? 0 then p else p - 2 ^ px r
  | EBitOr v => N.lor p v
  | EBitAnd v => N.land p v
  end.

Fixpoint popcount_fuel (fuel : nat) (n : N) : N :=
  match fuel with
  | O => 0
  | S k => if n =? 0 then 0 else (n mod 2) + popcount_fuel k (n / 2)
  end.
Definition popcount (n : N) : N := popcount_fuel 64 n.

Inductive cmp_op := OpNE | OpEQ | OpLE | OpLT | OpGE | OpGT.
Definition cmp_eval (o : cmp_op) (a b : N) : bool :=
  match o with
  | OpNE => negb (a =? b) | OpEQ => a =? b
  | OpLE => a <=? b | OpLT => a <? b
  | OpGE => b <=? a | OpGT => b <? a
  end.

Inductive pcond :=
| CTrue
| CCmp (o : cmp_op) (r : pref) (v : N)
| CBitCount (o : cmp_op) (r : pref) (k : N)
| CAnd (a b : pcond) | COr (a b : pcond) | CNot (a : pcond).

Fixpoint pcond_eval (c : pcond) (p : N) : bool :=
  match c with
  | CTrue => true
  | CCmp o r v => cmp_eval o (pfield r p) v
  | CBitCount o r k => cmp_eval o (popcount (pfield r p)) k
  | CAnd a b => pcond_eval a p && pcond_eval b p
  | COr a b => pcond_eval a p || pcond_eval b p
  | CNot a => negb (pcond_eval a p)
  end.

(* ---------- ParametricNullableCtx::dnf ---------- *)
(* a clause is a conjunction of atoms (comparisons, possibly under one Not); a DNF a disjunction of clauses *)
Definition clause := list pcond.
Definition dnf_t := list clause.
Definition clause_eval (cl : clause) (p : N) : bool := forallb (fun a => pcond_eval a p) cl.
Definition dnf_eval (d : dnf_t) (p : N) : bool := existsb (fun cl => clause_eval cl p) d.

Definition dnf_and (a b : dnf_t) : dnf_t :=
  flat_map (fun ca => map (fun cb => ca ++ cb) b) a.
Definition dnf_or (a b : dnf_t) : dnf_t := a ++ b.

(* neg_true_empty: what the code does with the constant `true` under a negation — the variant is
   read from the source (Params.NOT_TRUE_IS_FALSE): true = the empty disjunction, false = the
   one-clause DNF it also returns without negation *)
Fixpoint dnf (neg_true_empty : bool) (c : pcond) (neg : bool) : dnf_t :=
  match c with
  | CTrue => if neg && neg_true_empty then [] else [[]]
  | CCmp _ _ _ | CBitCount _ _ _ => [[if neg then CNot c else c]]
  | CAnd a b =>
      if neg then dnf_or (dnf neg_true_empty a neg) (dnf neg_true_empty b neg)
      else dnf_and (dnf neg_true_empty a neg) (dnf neg_true_empty b neg)
  | COr a b =>
      if neg then dnf_and (dnf neg_true_empty a neg) (dnf neg_true_empty b neg)
      else dnf_or (dnf neg_true_empty a neg) (dnf neg_true_empty b neg)
  | CNot a => dnf neg_true_empty a (negb neg)
  end.
