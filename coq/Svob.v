(* Svob.v — model of toktrie/src/svob.rs (SimpleVob): a bit vector stored in
   32-bit words with a logical size <= 32 * number of words.
   Definitions only.  Every Rust assert!/index panic is captured by a boolean
   precondition `*_pre`; the total functions below are meaningful under it and
   the correspondence check verifies "implementation panics <-> pre = false". *)
From LLG Require Import Base.

Record svob := mk_svob { words : list N; vsize : N }.

Definition word_ok (w : N) : bool := w <? 2 ^ 32.
Definition u32 (x : N) : N := x mod 2 ^ 32.
Definition ones32 : N := N.ones 32.
Definition not32 (w : N) : N := N.lxor w ones32.      (* !w on u32 *)

Definition nwords (v : svob) : N := lenN (words v).
Definition cap_bits (v : svob) : N := 32 * nwords v.

Definition div_ceil32 (n : N) : N := (n + 31) / 32.

(* --- construction ------------------------------------------------------- *)
Definition svob_new : svob := mk_svob [] 0.

(* resize: assert!(new_size >= self.data.len()) *)
Definition resize_pre (v : svob) (size : N) : bool := nwords v <=? div_ceil32 size.
Definition resize (v : svob) (size : N) : svob :=
  let nw := N.to_nat (div_ceil32 size) in
  mk_svob (words v ++ repeat 0 (nw - length (words v))) size.

Definition alloc (size : N) : svob := resize svob_new size.

Definition alloc_with_capacity_pre (size cap : N) : bool := size <=? cap.
Definition alloc_with_capacity (size cap : N) : svob :=
  mk_svob (words (alloc cap)) size.

(* --- single bits -------------------------------------------------------- *)
Definition word_at (v : svob) (i : N) : N := nth (N.to_nat i) (words v) 0.

Definition get_pre (v : svob) (idx : N) : bool := idx / 32 <? nwords v.
Definition get (v : svob) (idx : N) : bool := N.testbit (word_at v (idx / 32)) (idx mod 32).

Definition set_pre := get_pre.
Definition set_word (w : N) (bit : N) (val : bool) : N :=
  if val then N.lor w (N.shiftl 1 bit)
  else N.land w (not32 (N.shiftl 1 bit)).
Definition set (v : svob) (idx : N) (val : bool) : svob :=
  mk_svob (update_nth (words v) (N.to_nat (idx / 32)) (fun w => set_word w (idx mod 32) val))
          (vsize v).

Definition allow_token v t := set v t true.
Definition disallow_token v t := set v t false.

(* clear_excessive_bits: for i in size..data.len()*32 { disallow_token(i) } *)
Definition clear_excessive_bits (v : svob) : svob :=
  fold_left (fun acc i => set acc i false)
            (seqN (vsize v) (N.to_nat (cap_bits v - vsize v))) v.

Definition set_all (v : svob) (val : bool) : svob :=
  let v1 := mk_svob (map (fun _ => if val then ones32 else 0) (words v)) (vsize v) in
  if val then clear_excessive_bits v1 else v1.

Definition alloc_ones (size : N) : svob := set_all (alloc size) true.

Definition negated (v : svob) : svob :=
  clear_excessive_bits (mk_svob (map not32 (words v)) (vsize v)).

(* --- ranges ------------------------------------------------------------- *)
(* allow_range(start..=end): assert!(end < size) *)
Definition allow_range_pre (v : svob) (start_ end_ : N) : bool := end_ <? vsize v.
Definition allow_range (v : svob) (start_ end_ : N) : svob :=
  if end_ <? start_ then v else
  let start_word := start_ / 32 in
  let end_word := end_ / 32 in
  let start_mask := u32 (N.shiftl ones32 (start_ mod 32)) in
  let end_bit := end_ mod 32 in
  let end_mask := N.shiftr ones32 (31 - end_bit) in
  if start_word =? end_word then
    mk_svob (update_nth (words v) (N.to_nat start_word)
                        (fun w => N.lor w (N.land start_mask end_mask))) (vsize v)
  else
    let w1 := update_nth (words v) (N.to_nat start_word) (fun w => N.lor w start_mask) in
    let w2 := fold_left (fun ws i => update_nth ws (N.to_nat i) (fun _ => ones32))
                        (seqN (start_word + 1) (N.to_nat (end_word - (start_word + 1)))) w1 in
    let w3 := update_nth w2 (N.to_nat end_word) (fun w => N.lor w end_mask) in
    mk_svob w3 (vsize v).

(* --- word-wise binary operations (zip: stop at the shorter vector) ------ *)
Fixpoint zip_with (f : N -> N -> N) (a b : list N) : list N :=
  match a, b with
  | x :: a', y :: b' => f x y :: zip_with f a' b'
  | _, [] => a               (* remaining words of self are unchanged *)
  | [], _ => []
  end.

Definition or_pre (v o : svob) : bool := vsize o <=? vsize v.
Definition vor (v o : svob) : svob := mk_svob (zip_with N.lor (words v) (words o)) (vsize v).

Definition same_size_pre (v o : svob) : bool := vsize v =? vsize o.
Definition vand (v o : svob) : svob := mk_svob (zip_with N.land (words v) (words o)) (vsize v).
Definition vsub (v o : svob) : svob :=
  mk_svob (zip_with (fun a b => N.land a (not32 b)) (words v) (words o)) (vsize v).

Fixpoint zip_with3 (f : N -> N -> N -> N) (a b c : list N) : list N :=
  match a, b, c with
  | x :: a', y :: b', z :: c' => f x y z :: zip_with3 f a' b' c'
  | _, _, _ => a
  end.
Definition or_minus_pre (v o m : svob) : bool := (vsize v =? vsize o) && (vsize v =? vsize m).
Definition or_minus (v o m : svob) : svob :=
  mk_svob (zip_with3 (fun s a b => N.lor s (N.land a (not32 b))) (words v) (words o) (words m))
          (vsize v).

Definition set_from_pre := same_size_pre.

(* --- queries ------------------------------------------------------------ *)
Definition is_zero (v : svob) : bool := forallb (fun w => w =? 0) (words v).

Fixpoint and_all_zero (a b : list N) : bool :=
  match a, b with
  | x :: a', y :: b' => (N.land x y =? 0) && and_all_zero a' b'
  | _, _ => true
  end.
Definition and_is_zero (v o : svob) : bool := and_all_zero (words v) (words o).

(* trailing_zeros of a non-zero u32 *)
Definition ctz32 (w : N) : N :=
  match find (fun i => N.testbit w i) (seqN 0 32) with Some i => i | None => 32 end.

Definition popcount32 (w : N) : N :=
  lenN (filter (fun i => N.testbit w i) (seqN 0 32)).

Definition num_set (v : svob) : N := fold_left (fun acc w => acc + popcount32 w) (words v) 0.

Fixpoint first_nonzero (ws : list N) (idx : N) : option N :=
  match ws with
  | [] => None
  | w :: ws' => if w =? 0 then first_nonzero ws' (idx + 1) else Some (idx * 32 + ctz32 w)
  end.
Definition first_bit_set (v : svob) : option N := first_nonzero (words v) 0.

Fixpoint first_nonzero2 (a b : list N) (idx : N) : option N :=
  match a, b with
  | x :: a', y :: b' =>
      let w := N.land x y in
      if w =? 0 then first_nonzero2 a' b' (idx + 1) else Some (idx * 32 + ctz32 w)
  | _, _ => None
  end.
Definition first_bit_set_here_and_in (v o : svob) : option N :=
  first_nonzero2 (words v) (words o) 0.

(* iter_set_entries / to_list: whole words below size/32, then the tail bits *)
Definition word_bits (idx : N) (w : N) : list N :=
  map (fun b => idx * 32 + b) (filter (fun b => N.testbit w b) (seqN 0 32)).

Fixpoint words_bits (ws : list N) (idx : N) : list N :=
  match ws with
  | [] => []
  | w :: ws' => word_bits idx w ++ words_bits ws' (idx + 1)
  end.

Definition to_list_pre (v : svob) : bool := vsize v / 32 <=? nwords v.
Definition to_list (v : svob) : list N :=
  let max_len := vsize v / 32 in
  words_bits (firstn (N.to_nat max_len) (words v)) 0
  ++ filter (fun i => get v i) (seqN (max_len * 32) (N.to_nat (vsize v - max_len * 32))).

(* SimpleVobIter: every set bit of every stored word (not limited by size) *)
Definition iter_list (v : svob) : list N := words_bits (words v) 0.

(* trim_trailing_zeros *)
Fixpoint strip_zeros_rev (r : list N) : list N :=
  match r with
  | w :: r' => if w =? 0 then strip_zeros_rev r' else r
  | [] => []
  end.
Definition trim_trailing_zeros (v : svob) : svob :=
  let ws := rev (strip_zeros_rev (rev (words v))) in
  if Nat.eqb (length ws) (length (words v)) then v
  else mk_svob ws (32 * lenN ws).

Definition from_slice (bits : list bool) : svob :=
  fst (fold_left (fun '(v, i) b => (set v i b, i + 1)) bits (alloc (lenN bits), 0)).

Definition to_bin_string (v : svob) : list bool :=
  map (fun i => get v i) (seqN 0 (N.to_nat (vsize v))).

(* --- abstract view ------------------------------------------------------ *)
(* the set of ids a vector denotes *)
Definition bits (v : svob) (i : N) : bool := get v i.

(* well-formedness of the representation *)
Definition svob_wf (v : svob) : Prop :=
  Forall (fun w => w < 2 ^ 32) (words v) /\ vsize v <= cap_bits v.

(* no id at or above the logical size *)
Definition no_excess (v : svob) : Prop := forall i, vsize v <= i -> get v i = false.
