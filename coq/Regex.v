(* Regex.v — byte-level regular expressions with intersection, complement and
   counted repetition; Brzozowski derivatives with the normalising smart
   constructors; emptiness.  This is the textbook contract llguidance relies on
   from the external `derivre` crate (DESIGN.md 3.2, trusted base section 10).
   Definitions only. *)
From LLG Require Import Base.

(* a set of bytes as a 256-bit mask *)
Definition bset := N.
Definition bset_mem (s : bset) (b : byte) : bool := N.testbit s b.
Definition bset_all : bset := N.ones 256.
Definition bset_single (b : byte) : bset := N.shiftl 1 b.
Definition bset_range (lo hi : byte) : bset :=
  if hi <? lo then 0 else N.shiftl (N.ones (hi - lo + 1)) lo.
Definition bset_union (a b : bset) : bset := N.lor a b.
Definition bset_inter (a b : bset) : bset := N.land a b.
Definition bset_compl (a : bset) : bset := N.lxor (N.land a bset_all) bset_all.

Inductive regex :=
| Empty                                  (* no string *)
| Eps                                    (* the empty string *)
| Bytes (s : bset)                       (* one byte out of s *)
| Cat (a b : regex)
| Alt (a b : regex)
| And (a b : regex)
| Not (a : regex)
| Rep (a : regex) (lo : N) (hi : option N).   (* a{lo,hi}; hi = None: unbounded *)

Definition Star (a : regex) := Rep a 0 None.

(* ---------- denotation ---------- *)
Fixpoint pow_lang (L : bytes -> Prop) (n : nat) (w : bytes) : Prop :=
  match n with
  | O => w = []
  | S k => exists u v, w = u ++ v /\ L u /\ pow_lang L k v
  end.

Fixpoint re_lang (r : regex) (w : bytes) : Prop :=
  match r with
  | Empty => False
  | Eps => w = []
  | Bytes s => exists b, w = [b] /\ bset_mem s b = true /\ b < 256
  | Cat a b => exists u v, w = u ++ v /\ re_lang a u /\ re_lang b v
  | Alt a b => re_lang a w \/ re_lang b w
  | And a b => re_lang a w /\ re_lang b w
  | Not a => ~ re_lang a w
  | Rep a lo hi =>
      exists n : nat, (N.to_nat lo <= n)%nat /\
                (match hi with Some h => (n <= N.to_nat h)%nat | None => True end) /\
                pow_lang (re_lang a) n w
  end.

(* ---------- structural equality ---------- *)
Definition optN_eqb (a b : option N) : bool :=
  match a, b with
  | Some x, Some y => x =? y
  | None, None => true
  | _, _ => false
  end.

Fixpoint regex_eqb (a b : regex) : bool :=
  match a, b with
  | Empty, Empty => true
  | Eps, Eps => true
  | Bytes s, Bytes t => s =? t
  | Cat a1 a2, Cat b1 b2 => regex_eqb a1 b1 && regex_eqb a2 b2
  | Alt a1 a2, Alt b1 b2 => regex_eqb a1 b1 && regex_eqb a2 b2
  | And a1 a2, And b1 b2 => regex_eqb a1 b1 && regex_eqb a2 b2
  | Not a1, Not b1 => regex_eqb a1 b1
  | Rep a1 l1 h1, Rep b1 l2 h2 => regex_eqb a1 b1 && (l1 =? l2) && optN_eqb h1 h2
  | _, _ => false
  end.

(* ---------- nullable ---------- *)
Fixpoint nullable (r : regex) : bool :=
  match r with
  | Empty => false
  | Eps => true
  | Bytes _ => false
  | Cat a b => nullable a && nullable b
  | Alt a b => nullable a || nullable b
  | And a b => nullable a && nullable b
  | Not a => negb (nullable a)
  | Rep a lo hi =>
      (match hi with Some h => lo <=? h | None => true end) && ((lo =? 0) || nullable a)
  end.

(* ---------- normalising constructors ---------- *)
Definition is_empty_syn (r : regex) : bool := match r with Empty => true | _ => false end.
Definition is_eps_syn (r : regex) : bool := match r with Eps => true | _ => false end.
(* Not Empty = everything *)
Definition is_all_syn (r : regex) : bool := match r with Not Empty => true | _ => false end.

Definition mk_bytes (s : bset) : regex :=
  let s' := N.land s bset_all in if s' =? 0 then Empty else Bytes s'.

Definition mk_cat (a b : regex) : regex :=
  if is_empty_syn a || is_empty_syn b then Empty
  else if is_eps_syn a then b
  else if is_eps_syn b then a
  else match a with
       | Cat a1 a2 => Cat a1 (Cat a2 b)      (* one step of right-association *)
       | _ => Cat a b
       end.

(* membership of r among the alternatives of a right-nested Alt *)
Fixpoint alt_mem (r : regex) (l : regex) : bool :=
  match l with
  | Alt x rest => regex_eqb r x || alt_mem r rest
  | _ => regex_eqb r l
  end.

(* union of two right-nested, duplicate-free alternations *)
Fixpoint alt_insert_all (a b : regex) : regex :=
  match a with
  | Alt x rest =>
      let r := alt_insert_all rest b in
      if alt_mem x r then r else Alt x r
  | _ => if alt_mem a b then b else Alt a b
  end.

Definition mk_alt (a b : regex) : regex :=
  if is_empty_syn a then b
  else if is_empty_syn b then a
  else if is_all_syn a || is_all_syn b then Not Empty
  else match a, b with
       | Bytes s, Bytes t => Bytes (N.lor s t)
       | _, _ => alt_insert_all a b
       end.

Definition mk_and (a b : regex) : regex :=
  if is_empty_syn a || is_empty_syn b then Empty
  else if is_all_syn a then b
  else if is_all_syn b then a
  else if regex_eqb a b then a
  else match a, b with
       | Bytes s, Bytes t => mk_bytes (N.land s t)
       | Eps, _ => if nullable b then Eps else Empty
       | _, Eps => if nullable a then Eps else Empty
       | _, _ => And a b
       end.

(* no double-negation elimination: keeps every proof constructive *)
Definition mk_not (a : regex) : regex := Not a.

Definition pred_opt (h : option N) : option N :=
  match h with Some x => Some (x - 1) | None => None end.

Definition mk_rep (a : regex) (lo : N) (hi : option N) : regex :=
  match hi with
  | Some h =>
      if h <? lo then Empty
      else if h =? 0 then Eps
      else if is_empty_syn a then (if lo =? 0 then Eps else Empty)
      else if is_eps_syn a then Eps
      else if (lo =? 1) && (h =? 1) then a
      else Rep a lo hi
  | None =>
      if is_empty_syn a then (if lo =? 0 then Eps else Empty)
      else if is_eps_syn a then Eps
      else Rep a lo hi
  end.

(* rebuild a regex bottom-up through the smart constructors *)
Fixpoint normalize (r : regex) : regex :=
  match r with
  | Empty => Empty
  | Eps => Eps
  | Bytes s => mk_bytes s
  | Cat a b => mk_cat (normalize a) (normalize b)
  | Alt a b => mk_alt (normalize a) (normalize b)
  | And a b => mk_and (normalize a) (normalize b)
  | Not a => mk_not (normalize a)
  | Rep a lo hi => mk_rep (normalize a) lo hi
  end.

(* ---------- derivative ---------- *)
Fixpoint deriv (r : regex) (c : byte) : regex :=
  match r with
  | Empty => Empty
  | Eps => Empty
  | Bytes s => if bset_mem s c && (c <? 256) then Eps else Empty
  | Cat a b =>
      let d1 := mk_cat (deriv a c) b in
      if nullable a then mk_alt d1 (deriv b c) else d1
  | Alt a b => mk_alt (deriv a c) (deriv b c)
  | And a b => mk_and (deriv a c) (deriv b c)
  | Not a => mk_not (deriv a c)
  | Rep a lo hi =>
      match hi with
      | Some 0 => Empty
      | _ => mk_cat (deriv a c) (mk_rep a (lo - 1) (pred_opt hi))
      end
  end.

Fixpoint deriv_word (r : regex) (w : bytes) : regex :=
  match w with
  | [] => r
  | c :: w' => deriv_word (deriv r c) w'
  end.

Definition re_match (r : regex) (w : bytes) : bool := nullable (deriv_word r w).

(* ---------- emptiness ---------- *)
Fixpoint has_and_not (r : regex) : bool :=
  match r with
  | And _ _ | Not _ => true
  | Cat a b | Alt a b => has_and_not a || has_and_not b
  | Rep a _ _ => has_and_not a
  | _ => false
  end.

(* exact for And/Not-free expressions *)
Fixpoint nonempty_simple (r : regex) : bool :=
  match r with
  | Empty => false
  | Eps => true
  | Bytes s => negb (N.land s bset_all =? 0)
  | Cat a b => nonempty_simple a && nonempty_simple b
  | Alt a b => nonempty_simple a || nonempty_simple b
  | Rep a lo hi =>
      match hi with
      | Some h => (lo <=? h) && ((lo =? 0) || nonempty_simple a)
      | None => (lo =? 0) || nonempty_simple a
      end
  | And _ _ | Not _ => true      (* not used on such expressions *)
  end.

(* byte sets mentioned in r *)
Fixpoint byte_sets (r : regex) (acc : list bset) : list bset :=
  match r with
  | Bytes s => if existsb (N.eqb s) acc then acc else s :: acc
  | Cat a b | Alt a b | And a b => byte_sets a (byte_sets b acc)
  | Not a => byte_sets a acc
  | Rep a _ _ => byte_sets a acc
  | _ => acc
  end.

(* one representative byte per class of the partition induced by the sets *)
Definition signature (sets : list bset) (b : byte) : list bool := map (fun s => bset_mem s b) sets.
Definition sig_eqb (a b : list bool) : bool := list_eqb Bool.eqb a b.
Definition representatives (sets : list bset) : list byte :=
  fst (fold_left (fun '(reps, sigs) b =>
                    let sg := signature sets b in
                    if existsb (sig_eqb sg) sigs then (reps, sigs) else (b :: reps, sg :: sigs))
                 (seqN 0 256) ([], [])).

(* search the derivative graph for a nullable expression *)
Fixpoint nonempty_search (fuel : nat) (reps : list byte) (work : list regex) (seen : list regex)
  : option bool :=
  match fuel with
  | O => None
  | S f =>
      match work with
      | [] => Some false
      | r :: work' =>
          if nullable r then Some true
          else if existsb (regex_eqb r) seen then nonempty_search f reps work' seen
          else
            let next := map (deriv r) reps in
            let next := filter (fun d => negb (is_empty_syn d)) next in
            nonempty_search f reps (next ++ work') (r :: seen)
      end
  end.

Definition nonempty_fuel (fuel : nat) (r : regex) : option bool :=
  if has_and_not r
  then nonempty_search fuel (representatives (byte_sets r [])) [r] []
  else Some (nonempty_simple r).

Definition default_fuel : nat := 4000.

(* derivative that drops expressions recognised as empty (regexvec rule);
   None = fuel exhausted (a documented resource stop) *)
Definition nonempty (r : regex) : bool :=
  match nonempty_fuel default_fuel r with Some b => b | None => true end.

(* the expression matches exactly the empty string *)
Definition forced_eoi (r : regex) : bool := is_eps_syn r.

(* ---------- convenience constructors used by front ends ---------- *)
Fixpoint lit (w : bytes) : regex :=
  match w with
  | [] => Eps
  | [b] => Bytes (bset_single b)
  | b :: w' => Cat (Bytes (bset_single b)) (lit w')
  end.

Definition opt (a : regex) : regex := Rep a 0 (Some 1).
Definition plus (a : regex) : regex := Rep a 1 None.
Definition any_byte : regex := Bytes bset_all.
