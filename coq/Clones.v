(* Clones.v — model of what clones of an engine share: the lexer's lazily built
   automaton (regexvec.rs: state vectors hash-consed to ids, transition table
   filled on demand; parser.rs with_shared: the whole operation runs with the
   mutex held).  The shared part is an append-only memo; a clone's private state
   refers to it by ids.  Definitions only. *)
From LLG Require Import Base.

Section Memo.
  Variable St : Type.                       (* a lexer state vector *)
  Variable step : St -> byte -> St.         (* the pure transition (derive, drop empty) *)
  Variable st_eqb : St -> St -> bool.

  Record memo := mk_memo {
    m_states : list St;                     (* id -> state vector (hash-consing) *)
    m_table : list (nat * byte * nat)       (* filled transitions *)
  }.

  Definition abs_id (m : memo) (id : nat) (dflt : St) : St := nth id (m_states m) dflt.

  Fixpoint find_state (l : list St) (s : St) (i : nat) : option nat :=
    match l with
    | [] => None
    | x :: l' => if st_eqb x s then Some i else find_state l' s (S i)
    end.

  (* insert_state: existing id, or append *)
  Definition insert_state (m : memo) (s : St) : memo * nat :=
    match find_state (m_states m) s 0 with
    | Some i => (m, i)
    | None => (mk_memo (m_states m ++ [s]) (m_table m), length (m_states m))
    end.

  Definition lookup (m : memo) (id : nat) (b : byte) : option nat :=
    match find (fun '(i, c, _) => Nat.eqb i id && (c =? b)) (m_table m) with
    | Some (_, _, j) => Some j
    | None => None
    end.

  (* RegexVec::transition *)
  Definition transition (dflt : St) (m : memo) (id : nat) (b : byte) : memo * nat :=
    match lookup m id b with
    | Some j => (m, j)
    | None =>
        let s' := step (abs_id m id dflt) b in
        let '(m1, j) := insert_state m s' in
        (mk_memo (m_states m1) ((id, b, j) :: m_table m1), j)
    end.

  (* one atomic operation of a clone: push a byte string through the automaton *)
  Fixpoint run_bytes (dflt : St) (m : memo) (id : nat) (w : bytes) : memo * nat :=
    match w with
    | [] => (m, id)
    | b :: w' => let '(m', id') := transition dflt m id b in run_bytes dflt m' id' w'
    end.

  (* n clones, each with a private current id; a schedule is a list of
     (clone index, bytes of its next operation) executed atomically in order *)
  Definition clones := list nat.
  Fixpoint run_schedule (dflt : St) (m : memo) (cs : clones) (sched : list (nat * bytes))
    : memo * clones :=
    match sched with
    | [] => (m, cs)
    | (i, w) :: rest =>
        let '(m', id') := run_bytes dflt m (nth i cs 0%nat) w in
        run_schedule dflt m' (update_nth cs i (fun _ => id')) rest
    end.

  (* the pure meaning of a clone's history: just the bytes it consumed *)
  Fixpoint pure_run (s : St) (w : bytes) : St :=
    match w with [] => s | b :: w' => pure_run (step s b) w' end.

  (* the bytes clone i consumed in a schedule, in order *)
  Definition bytes_of (i : nat) (sched : list (nat * bytes)) : bytes :=
    flat_map (fun '(j, w) => if Nat.eqb i j then w else []) sched.

  (* memo well-formedness: every table entry is the pure transition; no duplicate states *)
  Definition memo_wf (dflt : St) (m : memo) : Prop :=
    (forall i b j, In (i, b, j) (m_table m) ->
       (i < length (m_states m))%nat /\ (j < length (m_states m))%nat /\
       st_eqb (abs_id m j dflt) (step (abs_id m i dflt) b) = true) /\
    (forall i j, (i < length (m_states m))%nat -> (j < length (m_states m))%nat ->
       st_eqb (abs_id m i dflt) (abs_id m j dflt) = true -> i = j).
End Memo.
