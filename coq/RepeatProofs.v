(* RepeatProofs.v — the repetition encodings admit exactly the counts they name,
   for every factorisation constant K >= 2 (so a change of K or of the
   thresholds that keeps the structure does not break the proof).
   STATEMENTS MARKED (*FIXED*) MUST NOT CHANGE. *)
From LLG Require Import Base Repeat.
From Coq Require Import Setoid.
Local Open Scope nat_scope.

(* k is a sum of n counts drawn from C *)
Definition cpow (C : nat -> Prop) (n k : nat) : Prop :=
  exists parts : list nat, length parts = n /\ k = fold_right Nat.add 0 parts /\ Forall C parts.

(* ---------- induction principle for the nested inductive gexp ---------- *)
Section GexpInd.
  Variable P : gexp -> Prop.
  Hypothesis HElt : P GElt.
  Hypothesis HSeq : forall l, Forall P l -> P (GSeq l).
  Hypothesis HAlt : forall l, Forall P l -> P (GAlt l).
  Hypothesis HStar : forall e, P e -> P (GStar e).
  Hypothesis HPlus : forall e, P e -> P (GPlus e).
  Fixpoint gexp_ind' (e : gexp) : P e :=
    match e with
    | GElt => HElt
    | GSeq l => HSeq l ((fix go (l : list gexp) : Forall P l :=
                           match l with
                           | [] => @Forall_nil _ P
                           | x :: l' => @Forall_cons _ P x l' (gexp_ind' x) (go l')
                           end) l)
    | GAlt l => HAlt l ((fix go (l : list gexp) : Forall P l :=
                           match l with
                           | [] => @Forall_nil _ P
                           | x :: l' => @Forall_cons _ P x l' (gexp_ind' x) (go l')
                           end) l)
    | GStar x => HStar x (gexp_ind' x)
    | GPlus x => HPlus x (gexp_ind' x)
    end.
End GexpInd.

(* ---------- algebra of cpow ---------- *)
Lemma cpow_0 : forall C k, cpow C 0 k <-> k = 0.
Proof.
  intros C k; split.
  - intros (parts & Hl & Hk & _). destruct parts as [|p ps]; [exact Hk | discriminate].
  - intros ->. exists []. split; [reflexivity|]. split; [reflexivity|constructor].
Qed.

Lemma cpow_S : forall C n k,
  cpow C (S n) k <-> exists a b, k = a + b /\ C a /\ cpow C n b.
Proof.
  intros C n k; split.
  - intros (parts & Hl & Hk & HF). destruct parts as [|a ps]; [discriminate|].
    simpl in Hl, Hk. pose proof (Forall_inv HF) as Ha. pose proof (Forall_inv_tail HF) as Hps.
    exists a, (fold_right Nat.add 0 ps). split; [exact Hk|]. split; [exact Ha|].
    exists ps. split; [lia|]. split; [reflexivity|exact Hps].
  - intros (a & b & -> & Ha & (ps & Hl & -> & HF)).
    exists (a :: ps). split; [simpl; lia|]. split; [reflexivity|]. constructor; assumption.
Qed.

Lemma cpow_1 : forall (C : nat -> Prop) k, cpow C 1 k <-> C k.
Proof.
  intros C k. rewrite cpow_S. split.
  - intros (a & b & -> & Ha & Hb). apply cpow_0 in Hb. subst b. rewrite Nat.add_0_r. exact Ha.
  - intros H. exists k, 0. split; [lia|]. split; [exact H|]. apply cpow_0. reflexivity.
Qed.

Lemma cpow_add : forall C a b k,
  cpow C (a + b) k <-> exists x y, k = x + y /\ cpow C a x /\ cpow C b y.
Proof.
  intros C a; induction a as [|a IH]; intros b k.
  - simpl. split.
    + intros H. exists 0, k. split; [reflexivity|]. split; [apply cpow_0; reflexivity | exact H].
    + intros (x & y & -> & Hx & Hy). apply cpow_0 in Hx. subst x. exact Hy.
  - change (S a + b) with (S (a + b)). split.
    + intros H. apply cpow_S in H. destruct H as (p & q & -> & Hp & Hq).
      apply IH in Hq. destruct Hq as (x & y & -> & Hx & Hy).
      exists (p + x), y. split; [lia|]. split; [|exact Hy]. apply cpow_S. exists p, x. auto.
    + intros (x & y & -> & Hx & Hy). apply cpow_S in Hx. destruct Hx as (p & q & -> & Hp & Hq).
      apply cpow_S. exists p, (q + y). split; [lia|]. split; [exact Hp|]. apply IH. exists q, y. auto.
Qed.

Lemma cpow_ext : forall (C D : nat -> Prop), (forall k, C k <-> D k) ->
  forall n k, cpow C n k <-> cpow D n k.
Proof.
  intros C D H n k; split; intros (ps & Hl & Hk & HF); exists ps;
    (split; [exact Hl|]; split; [exact Hk|]); revert HF; apply Forall_impl; intros a; apply H.
Qed.

Lemma ex2_iff : forall (P P' Q Q' : nat -> Prop),
  (forall a, P a <-> P' a) -> (forall b, Q b <-> Q' b) ->
  forall k, (exists a b, k = a + b /\ P a /\ Q b) <-> (exists a b, k = a + b /\ P' a /\ Q' b).
Proof.
  intros P P' Q Q' HP HQ k; split; intros (a & b & Hk & Ha & Hb); exists a, b;
    (split; [exact Hk|]; split; [apply HP; exact Ha | apply HQ; exact Hb]).
Qed.

Lemma cpow_mul : forall C m n k, cpow (cpow C m) n k <-> cpow C (m * n) k.
Proof.
  intros C m n; induction n as [|n IH]; intros k.
  - rewrite Nat.mul_0_r. rewrite !cpow_0. reflexivity.
  - rewrite Nat.mul_succ_r. rewrite (Nat.add_comm (m * n) m). rewrite cpow_S, cpow_add.
    apply ex2_iff; [intros; reflexivity | exact IH].
Qed.

(* ---------- unfolding lemmas for counts ---------- *)
Lemma counts_seq_nil : forall k, counts (GSeq []) k <-> k = 0.
Proof. intros; split; intros H; exact H. Qed.

Lemma counts_seq_nil_eq : forall k, counts (GSeq []) k -> k = 0.
Proof. intros k H; exact H. Qed.

Lemma counts_seq_cons : forall x l k,
  counts (GSeq (x :: l)) k <-> exists a b, k = a + b /\ counts x a /\ counts (GSeq l) b.
Proof. intros; split; intros H; exact H. Qed.

Lemma counts_alt_nil : forall k, counts (GAlt []) k <-> False.
Proof. intros; split; intros H; exact H. Qed.

Lemma counts_alt_cons : forall x l k,
  counts (GAlt (x :: l)) k <-> counts x k \/ counts (GAlt l) k.
Proof. intros; split; intros H; exact H. Qed.

Lemma counts_seq_single : forall y k, counts (GSeq [y]) k <-> counts y k.
Proof.
  intros y k. rewrite counts_seq_cons. split.
  - intros (a & b & -> & Ha & Hb). apply counts_seq_nil_eq in Hb. subst b. rewrite Nat.add_0_r. exact Ha.
  - intros H. exists k, 0. split; [lia|]. split; [exact H|]. apply counts_seq_nil. reflexivity.
Qed.

Lemma counts_seq_app : forall l1 l2 k,
  counts (GSeq (l1 ++ l2)) k <->
  exists a b, k = a + b /\ counts (GSeq l1) a /\ counts (GSeq l2) b.
Proof.
  induction l1 as [|x l1 IH]; intros l2 k.
  - change ([] ++ l2) with l2. split.
    + intros H. exists 0, k. split; [reflexivity|]. split; [apply counts_seq_nil; reflexivity|exact H].
    + intros (a & b & -> & Ha & Hb). apply counts_seq_nil_eq in Ha. subst a. exact Hb.
  - change ((x :: l1) ++ l2) with (x :: (l1 ++ l2)). split.
    + intros H. apply counts_seq_cons in H. destruct H as (p & q & -> & Hp & Hq).
      apply IH in Hq. destruct Hq as (a & b & -> & Ha & Hb).
      exists (p + a), b. split; [lia|]. split; [|exact Hb]. apply counts_seq_cons. exists p, a. auto.
    + intros (a & b & -> & Ha & Hb). apply counts_seq_cons in Ha. destruct Ha as (p & q & -> & Hp & Hq).
      apply counts_seq_cons. exists p, (q + b). split; [lia|]. split; [exact Hp|]. apply IH. exists q, b. auto.
Qed.

Lemma is_gempty_counts : forall e, is_gempty e = true -> forall k, counts e k <-> k = 0.
Proof.
  intros e H k. destruct e as [|[|x l]|l|e|e]; simpl in H; try discriminate. apply counts_seq_nil.
Qed.

Lemma counts_seq_filter : forall l k,
  counts (GSeq (filter (fun e => negb (is_gempty e)) l)) k <-> counts (GSeq l) k.
Proof.
  induction l as [|x l IH]; intros k.
  - reflexivity.
  - cbn [filter]. destruct (is_gempty x) eqn:Hx; cbn [negb].
    + rewrite IH. split.
      * intros H. apply counts_seq_cons. exists 0, k. split; [reflexivity|].
        split; [apply (is_gempty_counts x Hx); reflexivity| exact H].
      * intros H. apply counts_seq_cons in H. destruct H as (a & b & -> & Ha & Hb).
        apply (is_gempty_counts x Hx) in Ha. subst a. exact Hb.
    + rewrite !counts_seq_cons. apply ex2_iff; [intros; reflexivity | exact IH].
Qed.

Lemma counts_gjoin : forall l k, counts (gjoin l) k <-> counts (GSeq l) k.
Proof.
  intros l k. transitivity (counts (GSeq (filter (fun e => negb (is_gempty e)) l)) k);
    [|apply counts_seq_filter].
  unfold gjoin. destruct (filter (fun e => negb (is_gempty e)) l) as [|x [|y l']].
  - reflexivity.
  - symmetry. apply counts_seq_single.
  - reflexivity.
Qed.

Lemma counts_gjoin2 : forall x y k,
  counts (gjoin [x; y]) k <-> exists a b, k = a + b /\ counts x a /\ counts y b.
Proof.
  intros x y k. rewrite counts_gjoin, counts_seq_cons.
  apply ex2_iff; [intros; reflexivity | intros; apply counts_seq_single].
Qed.

Lemma counts_gselect : forall l k, counts (gselect l) k <-> counts (GAlt l) k.
Proof.
  intros l k. destruct l as [|x [|y l]]; try reflexivity.
  cbn [gselect]. rewrite counts_alt_cons, counts_alt_nil. tauto.
Qed.

Lemma counts_seq_repeat : forall e n k, counts (GSeq (repeat e n)) k <-> cpow (counts e) n k.
Proof.
  intros e n; induction n as [|n IH]; intros k.
  - cbn [repeat]. rewrite counts_seq_nil, cpow_0. reflexivity.
  - cbn [repeat]. rewrite counts_seq_cons, cpow_S. apply ex2_iff; [intros; reflexivity | exact IH].
Qed.

(*FIXED*)
Theorem simple_repeat_counts : forall e n k,
  counts (simple_repeat e n) k <-> cpow (counts e) n k.
Proof.
  intros e n k. unfold simple_repeat. rewrite counts_gjoin. apply counts_seq_repeat.
Qed.

Lemma cpow_simple_repeat : forall e m n k,
  cpow (counts (simple_repeat e m)) n k <-> cpow (counts e) (m * n) k.
Proof.
  intros e m n k. rewrite <- cpow_mul. apply cpow_ext. intros j. apply simple_repeat_counts.
Qed.

Lemma counts_goptional : forall e k, counts (goptional e) k <-> k = 0 \/ counts e k.
Proof.
  intros e k. unfold goptional, gempty. rewrite !counts_alt_cons, counts_alt_nil, counts_seq_nil. tauto.
Qed.

Lemma counts_alt_map_simple : forall e l k,
  counts (GAlt (map (simple_repeat e) l)) k <-> exists j, In j l /\ cpow (counts e) j k.
Proof.
  intros e l k; induction l as [|j l IH].
  - cbn [map]. rewrite counts_alt_nil. split; [tauto| intros (j & [] & _)].
  - cbn [map]. rewrite counts_alt_cons, simple_repeat_counts, IH. split.
    + intros [H | (j' & Hin & H)];
        [exists j; split; [left; reflexivity|exact H] | exists j'; split; [right; exact Hin|exact H]].
    + intros (j' & [<- | Hin] & H); [left; exact H | right; exists j'; auto].
Qed.

Lemma counts_select_upto : forall e n k,
  counts (gselect (map (simple_repeat e) (seq 0 (S n)))) k <->
  exists j, j <= n /\ cpow (counts e) j k.
Proof.
  intros e n k. rewrite counts_gselect, counts_alt_map_simple.
  split; intros (j & Hj & H); exists j; (split; [|exact H]);
    [apply in_seq in Hj; lia | apply in_seq; lia].
Qed.

Lemma counts_star : forall e k, counts (GStar e) k <-> exists j, cpow (counts e) j k.
Proof.
  intros e k; split.
  - intros (ps & Hk & HF). exists (length ps), ps. auto.
  - intros (j & ps & Hl & Hk & HF). exists ps. auto.
Qed.

Lemma counts_plus : forall e k,
  counts (GPlus e) k <-> exists j, 1 <= j /\ cpow (counts e) j k.
Proof.
  intros e k; split.
  - intros (ps & Hne & Hk & HF). exists (length ps). split.
    + destruct ps; [congruence | simpl; lia].
    + exists ps. auto.
  - intros (j & Hj & ps & Hl & Hk & HF). exists ps. split; [|auto].
    intros ->. simpl in Hl. lia.
Qed.

Lemma cpow_elt : forall j k, cpow (counts GElt) j k <-> k = j.
Proof.
  induction j as [|j IH]; intros k.
  - apply cpow_0.
  - rewrite cpow_S. split.
    + intros (a & b & -> & Ha & Hb). apply IH in Hb. simpl in Ha. subst. reflexivity.
    + intros ->. exists 1, j. split; [reflexivity|]. split; [reflexivity| apply IH; reflexivity].
Qed.

Section K.
  Variable K : nat.
  Hypothesis HK : 2 <= K.

  Lemma repeat_exact_S : forall f e n,
    repeat_exact K (S f) e n =
    if 2 * K <? n
    then gjoin (repeat e (n mod K) ++ [repeat_exact K f (simple_repeat e K) (n / K)])
    else simple_repeat e n.
  Proof. intros; reflexivity. Qed.

  (*FIXED*)
  Theorem repeat_exact_counts : forall fuel e n k,
    counts (repeat_exact K fuel e n) k <-> cpow (counts e) n k.
  Proof.
    induction fuel as [|f IH]; intros e n k.
    - apply simple_repeat_counts.
    - rewrite repeat_exact_S. destruct (2 * K <? n) eqn:Hlt; [|apply simple_repeat_counts].
      assert (Hn : n mod K + K * (n / K) = n) by (pose proof (Nat.div_mod_eq n K); lia).
      transitivity (cpow (counts e) (n mod K + K * (n / K)) k); [| rewrite Hn; reflexivity].
      rewrite counts_gjoin, counts_seq_app, cpow_add.
      apply ex2_iff; intros x.
      + apply counts_seq_repeat.
      + rewrite counts_seq_single, IH. apply cpow_simple_repeat.
  Qed.

  Lemma at_most_S_0 : forall f e, at_most K (S f) e 0 = gempty.
  Proof. intros; reflexivity. Qed.
  Lemma at_most_S_1 : forall f e, at_most K (S f) e 1 = goptional e.
  Proof. intros; reflexivity. Qed.
  Lemma at_most_S_SS : forall f e n, 2 <= n ->
    at_most K (S f) e n =
    if n <? 3 * K then gselect (map (simple_repeat e) (seq 0 (S n)))
    else gselect [gjoin [repeat_exact K f (simple_repeat e K) (n / K); at_most K f e (n mod K)];
                  gjoin [at_most K f (simple_repeat e K) (n / K - 1); at_most K f e (K - 1)]].
  Proof. intros f e n Hn. destruct n as [|[|n]]; [lia|lia|reflexivity]. Qed.

  (*FIXED*)
  Theorem at_most_counts : forall fuel e n k,
    counts (at_most K fuel e n) k <-> exists j, j <= n /\ cpow (counts e) j k.
  Proof.
    induction fuel as [|f IH]; intros e n k.
    - apply counts_select_upto.
    - destruct (le_lt_dec 2 n) as [Hn2 | Hn2].
      + rewrite at_most_S_SS by exact Hn2.
        destruct (n <? 3 * K) eqn:Hlt; [apply counts_select_upto|].
        apply Nat.ltb_ge in Hlt.
        pose proof (Nat.div_mod_eq n K) as Hn.
        pose proof (Nat.mod_upper_bound n K ltac:(lia)) as Hr.
        remember (n / K) as q eqn:Eq. remember (n mod K) as r eqn:Er.
        assert (Hq : 1 <= q) by nia.
        rewrite counts_gselect, !counts_alt_cons, counts_alt_nil, !counts_gjoin2.
        split.
        * intros [(a & b & -> & Ha & Hb) | [(a & b & -> & Ha & Hb) | []]].
          -- apply repeat_exact_counts in Ha. apply cpow_simple_repeat in Ha.
             apply IH in Hb. destruct Hb as (j & Hj & Hb).
             exists (K * q + j). split; [lia|]. apply cpow_add. exists a, b. auto.
          -- apply IH in Ha. destruct Ha as (j1 & Hj1 & Ha). apply cpow_simple_repeat in Ha.
             apply IH in Hb. destruct Hb as (j2 & Hj2 & Hb).
             exists (K * j1 + j2). split; [nia|]. apply cpow_add. exists a, b. auto.
        * intros (j & Hj & H). destruct (le_lt_dec (K * q) j) as [Hge | Hlt'].
          -- left. replace j with (K * q + (j - K * q)) in H by lia.
             apply cpow_add in H. destruct H as (a & b & -> & Ha & Hb).
             exists a, b. split; [reflexivity|]. split.
             ++ apply repeat_exact_counts. apply cpow_simple_repeat. exact Ha.
             ++ apply IH. exists (j - K * q). split; [lia | exact Hb].
          -- right; left.
             pose proof (Nat.div_mod_eq j K) as Hj'.
             pose proof (Nat.mod_upper_bound j K ltac:(lia)) as Hjr.
             assert (Hjq : j / K <= q - 1).
             { assert (j / K < q) by (apply Nat.div_lt_upper_bound; lia). lia. }
             rewrite Hj' in H. apply cpow_add in H. destruct H as (a & b & -> & Ha & Hb).
             exists a, b. split; [reflexivity|]. split.
             ++ apply IH. exists (j / K). split; [exact Hjq|]. apply cpow_simple_repeat. exact Ha.
             ++ apply IH. exists (j mod K). split; [lia| exact Hb].
      + destruct n as [|[|n']]; [| |lia].
        * rewrite at_most_S_0. unfold gempty. rewrite counts_seq_nil. split.
          -- intros ->. exists 0. split; [lia|apply cpow_0; reflexivity].
          -- intros (j & Hj & H). assert (j = 0) by lia. subst j. apply cpow_0 in H. exact H.
        * rewrite at_most_S_1, counts_goptional. split.
          -- intros [-> | H];
               [exists 0; split; [lia|apply cpow_0; reflexivity]
               | exists 1; split; [lia|apply cpow_1; exact H]].
          -- intros (j & Hj & H). destruct j as [|[|j]];
               [left; apply cpow_0 in H; exact H | right; apply (proj1 (cpow_1 _ _)) in H; exact H | lia].
  Qed.

  (*FIXED*)
  Theorem at_least_counts : forall fuel e n k,
    counts (at_least K fuel e n) k <-> exists j, n <= j /\ cpow (counts e) j k.
  Proof.
    intros fuel e n k. destruct n as [|n'].
    - cbn [at_least]. rewrite counts_star.
      split; [intros (j & H); exists j; split; [lia|exact H] | intros (j & _ & H); exists j; exact H].
    - cbn [at_least]. rewrite counts_gjoin2. split.
      + intros (a & b & -> & Ha & Hb). apply repeat_exact_counts in Ha.
        apply counts_star in Hb. destruct Hb as (j & Hb).
        exists (S n' + j). split; [lia|]. apply cpow_add. exists a, b. auto.
      + intros (j & Hj & H). replace j with (S n' + (j - S n')) in H by lia.
        apply cpow_add in H. destruct H as (a & b & -> & Ha & Hb).
        exists a, b. split; [reflexivity|]. split.
        * apply repeat_exact_counts. exact Ha.
        * apply counts_star. exists (j - S n'). exact Hb.
  Qed.

  Lemma grepeat_some : forall e lo hi,
    grepeat K e lo (Some hi) =
    if lo =? hi then repeat_exact K (S hi) e lo
    else if lo =? 0 then at_most K (S hi) e hi
    else gjoin [repeat_exact K (S hi) e lo; at_most K (S hi) e (hi - lo)].
  Proof. intros; reflexivity. Qed.

  (*FIXED*) (* x{lo,hi} *)
  Theorem grepeat_counts_bounded : forall e lo hi k,
    lo <= hi ->
    (counts (grepeat K e lo (Some hi)) k <-> exists j, lo <= j <= hi /\ cpow (counts e) j k).
  Proof.
    intros e lo hi k Hle. rewrite grepeat_some.
    destruct (lo =? hi) eqn:E1.
    - apply Nat.eqb_eq in E1. subst hi. rewrite repeat_exact_counts. split.
      + intros H. exists lo. split; [lia|exact H].
      + intros (j & Hj & H). assert (j = lo) by lia. subst j. exact H.
    - apply Nat.eqb_neq in E1. destruct (lo =? 0) eqn:E2.
      + apply Nat.eqb_eq in E2. subst lo. rewrite at_most_counts.
        split; intros (j & Hj & H); exists j; (split; [lia|exact H]).
      + apply Nat.eqb_neq in E2. rewrite counts_gjoin2. split.
        * intros (a & b & -> & Ha & Hb). apply repeat_exact_counts in Ha.
          apply at_most_counts in Hb. destruct Hb as (j & Hj & Hb).
          exists (lo + j). split; [lia|]. apply cpow_add. exists a, b. auto.
        * intros (j & Hj & H). replace j with (lo + (j - lo)) in H by lia.
          apply cpow_add in H. destruct H as (a & b & -> & Ha & Hb).
          exists a, b. split; [reflexivity|]. split.
          -- apply repeat_exact_counts. exact Ha.
          -- apply at_most_counts. exists (j - lo). split; [lia|exact Hb].
  Qed.

  (*FIXED*) (* x{lo,} *)
  Theorem grepeat_counts_unbounded : forall e lo k,
    counts (grepeat K e lo None) k <-> exists j, lo <= j /\ cpow (counts e) j k.
  Proof. intros e lo k. cbn [grepeat]. apply at_least_counts. Qed.

  (*FIXED*) (* on the element itself: exactly the counts lo..hi *)
  Corollary grepeat_elt_counts : forall lo hi k,
    lo <= hi -> (counts (grepeat K GElt lo (Some hi)) k <-> lo <= k <= hi).
  Proof.
    intros lo hi k Hle. rewrite grepeat_counts_bounded by exact Hle. split.
    - intros (j & Hj & H). apply cpow_elt in H. subst k. exact Hj.
    - intros H. exists k. split; [exact H|]. apply cpow_elt. reflexivity.
  Qed.
  (*FIXED*)
  Corollary grepeat_elt_counts_unbounded : forall lo k,
    counts (grepeat K GElt lo None) k <-> lo <= k.
  Proof.
    intros lo k. rewrite grepeat_counts_unbounded. split.
    - intros (j & Hj & H). apply cpow_elt in H. subst k. exact Hj.
    - intros H. exists k. split; [exact H|]. apply cpow_elt. reflexivity.
  Qed.
End K.

(*FIXED*) (* x?, x*, x+ *)
Theorem optional_counts : forall e k, counts (goptional e) k <-> k = 0 \/ counts e k.
Proof. exact counts_goptional. Qed.
(*FIXED*)
Theorem star_elt_counts : forall k, counts (GStar GElt) k.
Proof. intros k. apply counts_star. exists k. apply cpow_elt. reflexivity. Qed.
(*FIXED*)
Theorem plus_elt_counts : forall k, counts (GPlus GElt) k <-> 1 <= k.
Proof.
  intros k. rewrite counts_plus. split.
  - intros (j & Hj & H). apply cpow_elt in H. subst k. exact Hj.
  - intros H. exists k. split; [exact H|]. apply cpow_elt. reflexivity.
Qed.

(* ---------- languages ---------- *)
Lemma glang_seq_cons : forall A (L : list A -> Prop) x l w,
  glang L (GSeq (x :: l)) w <-> exists u v, w = u ++ v /\ glang L x u /\ glang L (GSeq l) v.
Proof. intros; split; intros H; exact H. Qed.

Lemma glang_alt_cons : forall A (L : list A -> Prop) x l w,
  glang L (GAlt (x :: l)) w <-> glang L x w \/ glang L (GAlt l) w.
Proof. intros; split; intros H; exact H. Qed.

Lemma lpow_add : forall A (L : list A -> Prop) a b w,
  lpow L (a + b) w <-> exists u v, w = u ++ v /\ lpow L a u /\ lpow L b v.
Proof.
  intros A L a; induction a as [|a IH]; intros b w.
  - split.
    + intros H. exists [], w. split; [reflexivity|]. split; [reflexivity|exact H].
    + intros (u & v & -> & Hu & Hv). simpl in Hu. subst u. exact Hv.
  - split.
    + intros H. simpl in H. destruct H as (u & v & -> & Hu & Hv).
      apply IH in Hv. destruct Hv as (v1 & v2 & -> & Hv1 & Hv2).
      exists (u ++ v1), v2. split; [apply app_assoc|]. split; [|exact Hv2].
      simpl. exists u, v1. auto.
    + intros (u & v & -> & Hu & Hv). simpl in Hu. destruct Hu as (u1 & u2 & -> & Hu1 & Hu2).
      simpl. exists u1, (u2 ++ v). split; [symmetry; apply app_assoc|]. split; [exact Hu1|].
      apply IH. exists u2, v. auto.
Qed.

Lemma star_fwd : forall A (L : list A -> Prop) x,
  (forall w, glang L x w -> exists k, counts x k /\ lpow L k w) ->
  forall ws, Forall (glang L x) ws ->
  exists parts, length parts = length ws /\ Forall (counts x) parts /\
                lpow L (fold_right Nat.add 0 parts) (concat ws).
Proof.
  intros A L x IH ws HF; induction HF as [|w ws Hw HF IHF].
  - exists []. split; [reflexivity|]. split; [constructor|reflexivity].
  - destruct IHF as (ps & Hl & Hps & Hlp). destruct (IH w Hw) as (k & Hk & Hkw).
    exists (k :: ps). split; [simpl; lia|]. split; [constructor; assumption|].
    simpl. apply lpow_add. exists w, (concat ws). auto.
Qed.

Lemma star_bwd : forall A (L : list A -> Prop) x,
  (forall w k, counts x k -> lpow L k w -> glang L x w) ->
  forall parts, Forall (counts x) parts ->
  forall w, lpow L (fold_right Nat.add 0 parts) w ->
  exists ws, length ws = length parts /\ w = concat ws /\ Forall (glang L x) ws.
Proof.
  intros A L x IH parts HF; induction HF as [|p ps Hp HF IHF]; intros w Hw.
  - simpl in Hw. subst w. exists []. split; [reflexivity|]. split; [reflexivity|constructor].
  - simpl in Hw. apply lpow_add in Hw. destruct Hw as (u & v & -> & Hu & Hv).
    destruct (IHF v Hv) as (ws & Hl & -> & Hws).
    exists (u :: ws). split; [simpl; lia|]. split; [reflexivity|].
    constructor; [eapply IH; eauto|assumption].
Qed.

Lemma length_ne : forall A B (a : list A) (b : list B),
  length a = length b -> b <> [] -> a <> [].
Proof. intros A B a b Hl Hb ->. destruct b; [apply Hb; reflexivity | discriminate]. Qed.

(*FIXED*) (* the language of an expression is determined by its counts *)
Theorem glang_counts : forall {A} (L : list A -> Prop) e w,
  glang L e w <-> exists k, counts e k /\ lpow L k w.
Proof.
  intros A L e. induction e as [|l IHl|l IHl|x IHx|x IHx] using gexp_ind'; intros w.
  - split.
    + intros H. exists 1. split; [reflexivity|]. simpl. exists w, [].
      split; [symmetry; apply app_nil_r|]. split; [exact H|reflexivity].
    + intros (k & Hk & Hw). simpl in Hk. subst k. simpl in Hw.
      destruct Hw as (u & v & -> & Hu & Hv). subst v. rewrite app_nil_r. exact Hu.
  - revert w; induction IHl as [|x l Hx Hl IH]; intros w.
    + split.
      * intros H. simpl in H. subst w. exists 0. split; reflexivity.
      * intros (k & Hk & Hw). simpl in Hk. subst k. exact Hw.
    + rewrite glang_seq_cons. split.
      * intros (u & v & -> & Hu & Hv). apply Hx in Hu. destruct Hu as (a & Ha & Hua).
        apply IH in Hv. destruct Hv as (b & Hb & Hvb). exists (a + b).
        split; [apply counts_seq_cons; exists a, b; auto | apply lpow_add; exists u, v; auto].
      * intros (k & Hk & Hw). apply counts_seq_cons in Hk. destruct Hk as (a & b & -> & Ha & Hb).
        apply lpow_add in Hw. destruct Hw as (u & v & -> & Hu & Hv).
        exists u, v. split; [reflexivity|].
        split; [apply Hx; exists a; auto | apply IH; exists b; auto].
  - revert w; induction IHl as [|x l Hx Hl IH]; intros w.
    + split; [intros [] | intros (k & [] & _)].
    + rewrite glang_alt_cons. split.
      * intros [H | H]; [apply Hx in H | apply IH in H]; destruct H as (k & Hk & Hw); exists k;
          (split; [apply counts_alt_cons|exact Hw]); [left|right]; exact Hk.
      * intros (k & Hk & Hw). apply counts_alt_cons in Hk.
        destruct Hk as [Hk|Hk]; [left; apply Hx | right; apply IH]; exists k; auto.
  - split.
    + intros (ws & -> & HF).
      destruct (star_fwd A L x (fun w => proj1 (IHx w)) ws HF) as (ps & Hl & Hps & Hlp).
      exists (fold_right Nat.add 0 ps). split; [exists ps; auto | exact Hlp].
    + intros (k & (ps & -> & Hps) & Hw).
      destruct (star_bwd A L x
                  (fun w k Hk Hw => proj2 (IHx w) (ex_intro _ k (conj Hk Hw))) ps Hps w Hw)
        as (ws & Hl & -> & Hws).
      exists ws; auto.
  - split.
    + intros (ws & Hne & -> & HF).
      destruct (star_fwd A L x (fun w => proj1 (IHx w)) ws HF) as (ps & Hl & Hps & Hlp).
      exists (fold_right Nat.add 0 ps). split; [|exact Hlp].
      exists ps. split; [exact (length_ne _ _ _ _ Hl Hne)|auto].
    + intros (k & (ps & Hne & -> & Hps) & Hw).
      destruct (star_bwd A L x
                  (fun w k Hk Hw => proj2 (IHx w) (ex_intro _ k (conj Hk Hw))) ps Hps w Hw)
        as (ws & Hl & -> & Hws).
      exists ws. split; [exact (length_ne _ _ _ _ Hl Hne)|auto].
Qed.

Lemma lpow_ext_counts_elt : forall A (L : list A -> Prop) (R : nat -> Prop) e w,
  (forall k, counts e k <-> R k) ->
  (glang L e w <-> exists j, R j /\ lpow L j w).
Proof.
  intros A L R e w H. rewrite glang_counts.
  split; intros (k & Hk & Hw); exists k; (split; [apply H; exact Hk|exact Hw]).
Qed.

(*FIXED*) (* hence x{lo,hi} denotes the union of the powers lo..hi of the element's language *)
Theorem grepeat_lang : forall {A} (L : list A -> Prop) K lo hi w,
  2 <= K -> lo <= hi ->
  (glang L (grepeat K GElt lo (Some hi)) w <-> exists j, lo <= j <= hi /\ lpow L j w).
Proof.
  intros A L K lo hi w HK Hle. apply lpow_ext_counts_elt.
  intros k. apply grepeat_elt_counts; assumption.
Qed.
(*FIXED*)
Theorem grepeat_lang_unbounded : forall {A} (L : list A -> Prop) K lo w,
  2 <= K ->
  (glang L (grepeat K GElt lo None) w <-> exists j, lo <= j /\ lpow L j w).
Proof.
  intros A L K lo w HK. apply lpow_ext_counts_elt.
  intros k. apply grepeat_elt_counts_unbounded; assumption.
Qed.

(* ---------- executable count sets ---------- *)
Definition cs_ok (bound : nat) (s : cset) (P : nat -> Prop) : Prop :=
  length s = S bound /\ forall k, k <= bound -> (cs_get s k = true <-> P k).

Lemma cs_ok_ext : forall bound s (P Q : nat -> Prop),
  cs_ok bound s P -> (forall k, k <= bound -> (P k <-> Q k)) -> cs_ok bound s Q.
Proof.
  intros bound s P Q [Hl H] HPQ. split; [exact Hl|].
  intros k Hk. rewrite (H k Hk). apply HPQ. exact Hk.
Qed.

Lemma nth_map_seq : forall (f : nat -> bool) n k,
  k < n -> nth k (map f (seq 0 n)) false = f k.
Proof.
  intros f n k Hk.
  rewrite (nth_indep _ false (f 0)) by (rewrite map_length, seq_length; exact Hk).
  rewrite map_nth. rewrite seq_nth by exact Hk. reflexivity.
Qed.

Lemma cs_ok_single : forall bound j, cs_ok bound (cs_single bound j) (fun k => k = j).
Proof.
  intros bound j. split.
  - unfold cs_single. rewrite map_length, seq_length. reflexivity.
  - intros k Hk. unfold cs_get, cs_single. rewrite nth_map_seq by lia. apply Nat.eqb_eq.
Qed.

Lemma cs_ok_empty : forall bound,
  cs_ok bound (map (fun _ => false) (seq 0 (S bound))) (fun _ => False).
Proof.
  intros bound. split.
  - rewrite map_length, seq_length. reflexivity.
  - intros k Hk. unfold cs_get. rewrite nth_map_seq by lia. split; [discriminate|tauto].
Qed.

Lemma cs_get_union : forall a b k,
  length a = length b -> cs_get (cs_union a b) k = cs_get a k || cs_get b k.
Proof.
  unfold cs_get, cs_union. induction a as [|x a IH]; intros [|y b] k Hl; try discriminate.
  - destruct k; reflexivity.
  - destruct k as [|k]; simpl; [reflexivity|]. apply IH. simpl in Hl. lia.
Qed.

Lemma cs_ok_union : forall bound a b P Q,
  cs_ok bound a P -> cs_ok bound b Q -> cs_ok bound (cs_union a b) (fun k => P k \/ Q k).
Proof.
  intros bound a b P Q [La Ha] [Lb Hb]. split.
  - unfold cs_union. rewrite map_length, combine_length. lia.
  - intros k Hk. rewrite cs_get_union by lia. rewrite orb_true_iff, (Ha k Hk), (Hb k Hk). reflexivity.
Qed.

Lemma cs_ok_conv : forall bound a b P Q,
  cs_ok bound a P -> cs_ok bound b Q ->
  cs_ok bound (cs_conv bound a b) (fun k => exists i j, k = i + j /\ P i /\ Q j).
Proof.
  intros bound a b P Q [La Ha] [Lb Hb]. split.
  - unfold cs_conv. rewrite map_length, seq_length. reflexivity.
  - intros k Hk.
    change (cs_get (cs_conv bound a b) k) with (nth k (cs_conv bound a b) false).
    unfold cs_conv. rewrite nth_map_seq by lia.
    rewrite existsb_exists. split.
    + intros (i & Hi & H). apply in_seq in Hi. apply andb_true_iff in H. destruct H as [H1 H2].
      exists i, (k - i). split; [lia|].
      split; [apply Ha; [lia|exact H1] | apply Hb; [lia|exact H2]].
    + intros (i & j & -> & Hi & Hj). exists i. split; [apply in_seq; lia|].
      apply andb_true_iff. split; [apply Ha; [lia|exact Hi]|].
      replace (i + j - i) with j by lia. apply Hb; [lia|exact Hj].
Qed.

Lemma cs_ok_iter : forall bound x X, cs_ok bound x X ->
  forall n acc P, cs_ok bound acc P ->
  cs_ok bound (cs_iter n bound x acc)
        (fun k => exists j, j <= n /\ exists a b, k = a + b /\ P a /\ cpow X j b).
Proof.
  intros bound x X Hx n; induction n as [|n IH]; intros acc P Hacc.
  - cbn [cs_iter]. apply (cs_ok_ext _ _ _ _ Hacc). intros k _. split.
    + intros H. exists 0. split; [lia|]. exists k, 0. split; [lia|]. split; [exact H|].
      apply cpow_0. reflexivity.
    + intros (j & Hj & a & b & -> & Ha & Hb). assert (j = 0) by lia. subst j.
      apply cpow_0 in Hb. subst b. rewrite Nat.add_0_r. exact Ha.
  - cbn [cs_iter].
    pose proof (IH _ _ (cs_ok_union _ _ _ _ _ Hacc (cs_ok_conv _ _ _ _ _ Hacc Hx))) as H.
    apply (cs_ok_ext _ _ _ _ H). intros k _. split.
    + intros (j & Hj & a & b & -> & [Ha | (a1 & b1 & -> & Ha1 & Hb1)] & Hb).
      * exists j. split; [lia|]. exists a, b. auto.
      * exists (S j). split; [lia|]. exists a1, (b1 + b). split; [lia|]. split; [exact Ha1|].
        apply cpow_S. exists b1, b. auto.
    + intros (j & Hj & a & b & -> & Ha & Hb). destruct (le_lt_dec j n) as [Hjn | Hjn].
      * exists j. split; [exact Hjn|]. exists a, b. auto.
      * assert (j = S n) by lia. subst j. apply cpow_S in Hb.
        destruct Hb as (b1 & b2 & -> & Hb1 & Hb2).
        exists n. split; [lia|]. exists (a + b1), b2. split; [lia|]. split; [|exact Hb2].
        right. exists a, b1. auto.
Qed.

Lemma drop_zeros : forall (C : nat -> Prop) ps, Forall C ps ->
  exists ps', length ps' <= fold_right Nat.add 0 ps /\
              fold_right Nat.add 0 ps' = fold_right Nat.add 0 ps /\ Forall C ps'.
Proof.
  intros C ps HF; induction HF as [|p ps Hp HF IH].
  - exists []. split; [simpl; lia|]. split; [reflexivity|constructor].
  - destruct IH as (ps' & Hl & Hs & HF'). destruct p as [|p].
    + exists ps'. simpl. auto.
    + exists (S p :: ps'). simpl. split; [lia|]. split; [lia|]. constructor; assumption.
Qed.

Lemma cpow_drop : forall (C : nat -> Prop) j k, cpow C j k -> exists j', j' <= k /\ cpow C j' k.
Proof.
  intros C j k (ps & Hl & -> & HF). destruct (drop_zeros C ps HF) as (ps' & Hl' & Hs & HF').
  exists (length ps'). split; [exact Hl'|]. exists ps'. split; [reflexivity|].
  split; [symmetry; exact Hs| exact HF'].
Qed.

Lemma count_set_ok : forall bound e, cs_ok bound (count_set bound e) (counts e).
Proof.
  intros bound e. induction e as [|l IHl|l IHl|x IHx|x IHx] using gexp_ind'.
  - apply cs_ok_single.
  - induction IHl as [|x l Hx Hl IH].
    + apply cs_ok_single.
    + change (count_set bound (GSeq (x :: l)))
        with (cs_conv bound (count_set bound x) (count_set bound (GSeq l))).
      apply (cs_ok_ext _ _ _ _ (cs_ok_conv _ _ _ _ _ Hx IH)).
      intros k _. symmetry. apply counts_seq_cons.
  - induction IHl as [|x l Hx Hl IH].
    + apply cs_ok_empty.
    + change (count_set bound (GAlt (x :: l)))
        with (cs_union (count_set bound x) (count_set bound (GAlt l))).
      apply (cs_ok_ext _ _ _ _ (cs_ok_union _ _ _ _ _ Hx IH)).
      intros k _. symmetry. apply counts_alt_cons.
  - change (count_set bound (GStar x))
      with (cs_iter (S bound) bound (count_set bound x) (cs_single bound 0)).
    apply (cs_ok_ext _ _ _ _ (cs_ok_iter _ _ _ IHx (S bound) _ _ (cs_ok_single bound 0))).
    intros k Hk. rewrite counts_star. split.
    + intros (j & Hj & a & b & -> & -> & H). exists j. exact H.
    + intros (j & H). destruct (cpow_drop _ _ _ H) as (j' & Hj' & H').
      exists j'. split; [lia|]. exists 0, k. auto.
  - change (count_set bound (GPlus x))
      with (cs_conv bound (count_set bound x)
              (cs_iter (S bound) bound (count_set bound x) (cs_single bound 0))).
    apply (cs_ok_ext _ _ _ _
             (cs_ok_conv _ _ _ _ _ IHx
                (cs_ok_iter _ _ _ IHx (S bound) _ _ (cs_ok_single bound 0)))).
    intros k Hk. rewrite counts_plus. split.
    + intros (i & j0 & -> & Hi & (j & Hj & a & b & -> & -> & H)).
      exists (S j). split; [lia|]. apply cpow_S. exists i, b. auto.
    + intros (j & Hj & H). destruct j as [|j]; [lia|]. apply cpow_S in H.
      destruct H as (i & b & -> & Hi & Hb). destruct (cpow_drop _ _ _ Hb) as (j' & Hj' & H').
      exists i, b. split; [reflexivity|]. split; [exact Hi|].
      exists j'. split; [lia|]. exists 0, b. auto.
Qed.

(*FIXED*) (* the executable count sets used by the correspondence check decide `counts` *)
Theorem count_set_correct : forall bound e k,
  k <= bound -> (cs_get (count_set bound e) k = true <-> counts e k).
Proof. intros bound e k Hk. apply (proj2 (count_set_ok bound e)). exact Hk. Qed.

Print Assumptions simple_repeat_counts.
Print Assumptions repeat_exact_counts.
Print Assumptions at_most_counts.
Print Assumptions at_least_counts.
Print Assumptions grepeat_counts_bounded.
Print Assumptions grepeat_counts_unbounded.
Print Assumptions grepeat_elt_counts.
Print Assumptions grepeat_elt_counts_unbounded.
Print Assumptions optional_counts.
Print Assumptions star_elt_counts.
Print Assumptions plus_elt_counts.
Print Assumptions glang_counts.
Print Assumptions grepeat_lang.
Print Assumptions grepeat_lang_unbounded.
Print Assumptions count_set_correct.
