(* RegexProofs.v — derivatives, nullability, normalisation and emptiness are
   correct w.r.t. the denotation re_lang.  STATEMENTS MARKED (*FIXED*) MUST NOT
   CHANGE; auxiliary lemmas may be added. *)
From LLG Require Import Base Regex.

Definition bytes_ok (w : bytes) : Prop := Forall (fun b => b < 256) w.

(* ------------------------------------------------------------------ *)
(* structural equality                                                  *)
(* ------------------------------------------------------------------ *)

Lemma optN_eqb_eq : forall a b, optN_eqb a b = true <-> a = b.
Proof.
  intros [x|] [y|]; cbn [optN_eqb]; split; intros H; try discriminate; try reflexivity.
  - apply N.eqb_eq in H. now subst.
  - injection H as ->. apply N.eqb_refl.
Qed.

(*FIXED*)
Lemma regex_eqb_eq : forall a b, regex_eqb a b = true <-> a = b.
Proof.
  induction a as [| |s|a1 IH1 a2 IH2|a1 IH1 a2 IH2|a1 IH1 a2 IH2|a1 IH1|a1 IH1 l1 h1];
    intros [| |t|b1 b2|b1 b2|b1 b2|b1|b1 l2 h2]; cbn [regex_eqb];
    split; intros H; try discriminate; try reflexivity.
  - apply N.eqb_eq in H. now subst.
  - injection H as ->. apply N.eqb_refl.
  - apply andb_true_iff in H as [H1 H2]. apply IH1 in H1. apply IH2 in H2. now subst.
  - injection H as -> ->. apply andb_true_iff; split; [now apply IH1 | now apply IH2].
  - apply andb_true_iff in H as [H1 H2]. apply IH1 in H1. apply IH2 in H2. now subst.
  - injection H as -> ->. apply andb_true_iff; split; [now apply IH1 | now apply IH2].
  - apply andb_true_iff in H as [H1 H2]. apply IH1 in H1. apply IH2 in H2. now subst.
  - injection H as -> ->. apply andb_true_iff; split; [now apply IH1 | now apply IH2].
  - apply IH1 in H. now subst.
  - injection H as ->. now apply IH1.
  - apply andb_true_iff in H as [H12 H3]. apply andb_true_iff in H12 as [H1 H2].
    apply IH1 in H1. apply N.eqb_eq in H2. apply optN_eqb_eq in H3. now subst.
  - injection H as -> -> ->. rewrite !andb_true_iff. repeat split.
    + now apply IH1.
    + apply N.eqb_refl.
    + now apply optN_eqb_eq.
Qed.

(* ------------------------------------------------------------------ *)
(* pow_lang facts                                                       *)
(* ------------------------------------------------------------------ *)

Lemma pow_nil : forall (L : bytes -> Prop) n, L [] -> pow_lang L n [].
Proof.
  intros L n HL. induction n as [|n IH]; cbn [pow_lang].
  - reflexivity.
  - exists [], []. repeat split; assumption.
Qed.

Lemma pow_pad : forall (L : bytes -> Prop) n w, L [] -> pow_lang L n w -> pow_lang L (S n) w.
Proof.
  intros L n w HL Hp. cbn [pow_lang]. exists [], w. repeat split; assumption.
Qed.

Lemma pow_one : forall (L : bytes -> Prop) w, pow_lang L 1 w <-> L w.
Proof.
  intros L w. cbn [pow_lang]. split.
  - intros (u & v & -> & Hu & ->). now rewrite app_nil_r.
  - intros Hw. exists w, []. rewrite app_nil_r. repeat split; assumption.
Qed.

Lemma pow_eps : forall n w, pow_lang (re_lang Eps) n w <-> w = [].
Proof.
  induction n as [|n IH]; intros w; cbn [pow_lang].
  - tauto.
  - split.
    + intros (u & v & -> & Hu & Hv). cbn [re_lang] in Hu. subst u. now apply IH.
    + intros ->. exists [], []. repeat split. now apply IH.
Qed.

(* first non-empty factor *)
Lemma pow_cons : forall (L : bytes -> Prop) k c w,
  pow_lang L (S k) (c :: w) -> exists u v, w = u ++ v /\ L (c :: u) /\ pow_lang L k v.
Proof.
  intros L. induction k as [|k IH]; intros c w Hp.
  - apply (proj1 (pow_one L _)) in Hp. exists w, []. rewrite app_nil_r. repeat split; assumption.
  - destruct Hp as (u0 & v0 & Heq & Hu0 & Hv0).
    destruct u0 as [|c0 u0].
    + cbn [app] in Heq. subst v0.
      destruct (IH c w Hv0) as (u & v & -> & Hu & Hv).
      exists u, v. repeat split; try assumption. now apply pow_pad.
    + cbn [app] in Heq. injection Heq as -> ->.
      exists u0, v0. repeat split; assumption.
Qed.

(* ------------------------------------------------------------------ *)
(* nullable                                                             *)
(* ------------------------------------------------------------------ *)

(*FIXED*)
Theorem nullable_correct : forall r, nullable r = true <-> re_lang r [].
Proof.
  induction r as [| |s|a IHa b IHb|a IHa b IHb|a IHa b IHb|a IHa|a IHa lo hi];
    cbn [nullable re_lang].
  - split; [discriminate | tauto].
  - tauto.
  - split; [discriminate | intros (b & H & _); discriminate].
  - rewrite andb_true_iff, IHa, IHb. split.
    + intros [Ha Hb]. exists [], []. repeat split; assumption.
    + intros (u & v & H & Ha & Hb). symmetry in H. apply app_eq_nil in H as [-> ->]. now split.
  - rewrite orb_true_iff, IHa, IHb. tauto.
  - rewrite andb_true_iff, IHa, IHb. tauto.
  - rewrite <- IHa. destruct (nullable a); cbn [negb]; split; intros H.
    + discriminate.
    + exfalso. now apply H.
    + discriminate.
    + reflexivity.
  - rewrite andb_true_iff, orb_true_iff, N.eqb_eq. split.
    + intros [Hh [Hlo | Hn]].
      * subst lo. exists 0%nat. split; [lia|]. split; [destruct hi; [lia | exact I] | reflexivity].
      * exists (N.to_nat lo). split; [lia|].
        split; [destruct hi; [apply N.leb_le in Hh; lia | exact I]|].
        apply pow_nil. now apply IHa.
    + intros (n & Hlo & Hhi & Hp). split.
      { destruct hi as [h|]; [apply N.leb_le; lia | reflexivity]. }
      destruct (N.eq_dec lo 0) as [E|E]; [now left | right].
      destruct n as [|n]; [lia|].
      destruct Hp as (u & v & Heq & Hu & _). symmetry in Heq.
      apply app_eq_nil in Heq as [-> _]. now apply IHa.
Qed.

(* ------------------------------------------------------------------ *)
(* smart constructors                                                   *)
(* ------------------------------------------------------------------ *)

Lemma is_empty_syn_true : forall r, is_empty_syn r = true -> r = Empty.
Proof. intros r H. destruct r; try discriminate. reflexivity. Qed.

Lemma is_eps_syn_true : forall r, is_eps_syn r = true -> r = Eps.
Proof. intros r H. destruct r; try discriminate. reflexivity. Qed.

Lemma is_all_syn_true : forall r, is_all_syn r = true -> r = Not Empty.
Proof.
  intros r H. destruct r as [| | | | | |r|]; try discriminate.
  destruct r; try discriminate. reflexivity.
Qed.

Lemma bset_mem_land_all : forall s b, b < 256 -> bset_mem (N.land s bset_all) b = bset_mem s b.
Proof.
  intros s b Hb. unfold bset_mem, bset_all.
  rewrite N.land_spec, N.ones_spec_low by lia. apply andb_true_r.
Qed.

(* the smart constructors preserve the language *)
(*FIXED*)
Lemma mk_bytes_lang : forall s w, re_lang (mk_bytes s) w <-> re_lang (Bytes s) w.
Proof.
  intros s w. unfold mk_bytes. destruct (N.land s bset_all =? 0) eqn:E.
  - apply N.eqb_eq in E. cbn [re_lang]. split; [tauto|].
    intros (b & _ & Hm & Hb). rewrite <- bset_mem_land_all in Hm by assumption.
    rewrite E in Hm. unfold bset_mem in Hm. rewrite N.bits_0 in Hm. discriminate.
  - cbn [re_lang]. split; intros (b & Hw & Hm & Hb); exists b; repeat split; try assumption.
    + now rewrite bset_mem_land_all in Hm.
    + now rewrite bset_mem_land_all.
Qed.

(*FIXED*)
Lemma mk_cat_lang : forall a b w, re_lang (mk_cat a b) w <-> re_lang (Cat a b) w.
Proof.
  intros a b w. unfold mk_cat.
  destruct (is_empty_syn a) eqn:Ea.
  { apply is_empty_syn_true in Ea. subst a. cbn [orb re_lang]. split; [tauto|].
    intros (u & v & _ & [] & _). }
  destruct (is_empty_syn b) eqn:Eb.
  { apply is_empty_syn_true in Eb. subst b. cbn [orb re_lang]. split; [tauto|].
    intros (u & v & _ & _ & []). }
  cbn [orb].
  destruct (is_eps_syn a) eqn:Ea'.
  { apply is_eps_syn_true in Ea'. subst a. cbn [re_lang]. split.
    - intros H. exists [], w. repeat split; assumption.
    - intros (u & v & -> & -> & H). exact H. }
  destruct (is_eps_syn b) eqn:Eb'.
  { apply is_eps_syn_true in Eb'. subst b. cbn [re_lang]. split.
    - intros H. exists w, []. rewrite app_nil_r. repeat split; assumption.
    - intros (u & v & -> & H & ->). now rewrite app_nil_r. }
  destruct a as [| |s|a1 a2|a1 a2|a1 a2|a1|a1 l1 h1]; try reflexivity.
  cbn [re_lang]. split.
  - intros (u & v & -> & H1 & (u2 & v2 & -> & H2 & H3)).
    exists (u ++ u2), v2. rewrite app_assoc. repeat split; try assumption.
    exists u, u2. repeat split; assumption.
  - intros (u & v & -> & (u1 & u2 & -> & H1 & H2) & H3).
    exists u1, (u2 ++ v). rewrite <- app_assoc. repeat split; try assumption.
    exists u2, v. repeat split; assumption.
Qed.

Lemma alt_mem_lang : forall x l w, alt_mem x l = true -> re_lang x w -> re_lang l w.
Proof.
  intros x l w. induction l as [| |s|l1 _ l2 _|l1 _ l2 IH2|l1 _ l2 _|l1 _|l1 _ lo hi];
    cbn [alt_mem]; intros H Hx;
    try (apply regex_eqb_eq in H; subst x; exact Hx).
  apply orb_true_iff in H as [H|H].
  - apply regex_eqb_eq in H. subst x. cbn [re_lang]. now left.
  - cbn [re_lang]. right. now apply IH2.
Qed.

Lemma alt_insert_all_lang : forall a b w,
  re_lang (alt_insert_all a b) w <-> re_lang a w \/ re_lang b w.
Proof.
  intros a b w. induction a as [| |s|a1 _ a2 _|a1 _ a2 IH2|a1 _ a2 _|a1 _|a1 _ lo hi];
    cbn [alt_insert_all].
  1-4,6-8:
    match goal with |- context [alt_mem ?x ?y] => destruct (alt_mem x y) eqn:E end;
    [ split; [now right | intros [H|H]; [now apply (alt_mem_lang _ _ _ E) | exact H]]
    | cbn [re_lang]; tauto ].
  destruct (alt_mem a1 (alt_insert_all a2 b)) eqn:E.
  - rewrite IH2. cbn [re_lang]. split; [tauto|].
    intros [[H|H]|H]; try tauto.
    apply IH2. now apply (alt_mem_lang _ _ _ E).
  - cbn [re_lang]. rewrite IH2. tauto.
Qed.

(*FIXED*)
Lemma mk_alt_lang : forall a b w, re_lang (mk_alt a b) w <-> re_lang (Alt a b) w.
Proof.
  intros a b w. unfold mk_alt.
  destruct (is_empty_syn a) eqn:Ea.
  { apply is_empty_syn_true in Ea. subst a. cbn [re_lang]. tauto. }
  destruct (is_empty_syn b) eqn:Eb.
  { apply is_empty_syn_true in Eb. subst b. cbn [re_lang]. tauto. }
  destruct (is_all_syn a || is_all_syn b) eqn:Eall.
  { apply orb_true_iff in Eall as [E|E]; apply is_all_syn_true in E; subst;
      cbn [re_lang]; tauto. }
  destruct a as [| |s|a1 a2|a1 a2|a1 a2|a1|a1 l1 h1]; try apply alt_insert_all_lang.
  destruct b as [| |t|b1 b2|b1 b2|b1 b2|b1|b1 l2 h2]; try apply alt_insert_all_lang.
  cbn [re_lang]. unfold bset_mem. split.
  - intros (c & -> & Hm & Hc). rewrite N.lor_spec in Hm. apply orb_true_iff in Hm as [Hm|Hm].
    + left. exists c. repeat split; assumption.
    + right. exists c. repeat split; assumption.
  - intros [(c & -> & Hm & Hc)|(c & -> & Hm & Hc)]; exists c; rewrite N.lor_spec, Hm;
      repeat split; try assumption. apply orb_true_r.
Qed.

Lemma and_eps_l : forall b w,
  re_lang (if nullable b then Eps else Empty) w <-> re_lang (And Eps b) w.
Proof.
  intros b w. pose proof (nullable_correct b) as Hn.
  destruct (nullable b); cbn [re_lang]; split.
  - intros ->. split; [reflexivity | now apply Hn].
  - tauto.
  - tauto.
  - intros [-> H]. apply Hn in H. discriminate.
Qed.

Lemma and_eps_r : forall a w,
  re_lang (if nullable a then Eps else Empty) w <-> re_lang (And a Eps) w.
Proof.
  intros a w. rewrite and_eps_l. cbn [re_lang]. tauto.
Qed.

(*FIXED*)
Lemma mk_and_lang : forall a b w, re_lang (mk_and a b) w <-> re_lang (And a b) w.
Proof.
  intros a b w. unfold mk_and.
  destruct (is_empty_syn a) eqn:Ea.
  { apply is_empty_syn_true in Ea. subst a. cbn [orb re_lang]. tauto. }
  destruct (is_empty_syn b) eqn:Eb.
  { apply is_empty_syn_true in Eb. subst b. cbn [orb re_lang]. tauto. }
  cbn [orb].
  destruct (is_all_syn a) eqn:Ea'.
  { apply is_all_syn_true in Ea'. subst a. cbn [re_lang]. tauto. }
  destruct (is_all_syn b) eqn:Eb'.
  { apply is_all_syn_true in Eb'. subst b. cbn [re_lang]. tauto. }
  destruct (regex_eqb a b) eqn:Eab.
  { apply regex_eqb_eq in Eab. subst b. cbn [re_lang]. tauto. }
  destruct a as [| |s|a1 a2|a1 a2|a1 a2|a1|a1 l1 h1];
    try discriminate; try apply and_eps_l;
    destruct b as [| |t|b1 b2|b1 b2|b1 b2|b1|b1 l2 h2];
    try discriminate; try reflexivity; try apply and_eps_r.
  rewrite mk_bytes_lang. cbn [re_lang]. unfold bset_mem. split.
  - intros (c & -> & Hm & Hc). rewrite N.land_spec in Hm. apply andb_true_iff in Hm as [H1 H2].
    split; exists c; repeat split; assumption.
  - intros [(c & -> & Hm & Hc) (c' & Heq & Hm' & _)]. injection Heq as <-.
    exists c. rewrite N.land_spec, Hm, Hm'. repeat split. assumption.
Qed.

Lemma rep_empty_lang : forall lo hi w,
  match hi with Some h => lo <= h | None => True end ->
  (re_lang (if lo =? 0 then Eps else Empty) w <-> re_lang (Rep Empty lo hi) w).
Proof.
  intros lo hi w Hhi. destruct (lo =? 0) eqn:E; cbn [re_lang].
  - apply N.eqb_eq in E. subst lo. split.
    + intros ->. exists 0%nat. split; [lia|]. split; [destruct hi; [lia | exact I] | reflexivity].
    + intros (n & _ & _ & Hp). destruct n as [|n]; [exact Hp|].
      destruct Hp as (u & v & _ & [] & _).
  - apply N.eqb_neq in E. split; [tauto|].
    intros (n & Hlo & _ & Hp). destruct n as [|n]; [lia|].
    destruct Hp as (u & v & _ & [] & _).
Qed.

Lemma rep_eps_lang : forall lo hi w,
  match hi with Some h => lo <= h | None => True end ->
  (re_lang Eps w <-> re_lang (Rep Eps lo hi) w).
Proof.
  intros lo hi w Hhi. cbn [re_lang]. split.
  - intros ->. exists (N.to_nat lo). split; [lia|].
    split; [destruct hi; [lia | exact I]|]. now apply pow_eps.
  - intros (n & _ & _ & Hp). now apply (proj1 (pow_eps _ _)) in Hp.
Qed.

(*FIXED*)
Lemma mk_rep_lang : forall a lo hi w, re_lang (mk_rep a lo hi) w <-> re_lang (Rep a lo hi) w.
Proof.
  intros a lo hi w. unfold mk_rep. destruct hi as [h|].
  - destruct (h <? lo) eqn:E1.
    { apply N.ltb_lt in E1. cbn [re_lang]. split; [tauto|]. intros (n & H1 & H2 & _). lia. }
    apply N.ltb_ge in E1.
    destruct (h =? 0) eqn:E2.
    { apply N.eqb_eq in E2. subst h. cbn [re_lang]. split.
      - intros ->. exists 0%nat. split; [lia|]. split; [lia | reflexivity].
      - intros (n & H1 & H2 & H3). assert (n = 0%nat) as -> by lia. exact H3. }
    destruct (is_empty_syn a) eqn:Ea.
    { apply is_empty_syn_true in Ea. subst a. now apply rep_empty_lang. }
    destruct (is_eps_syn a) eqn:Ea'.
    { apply is_eps_syn_true in Ea'. subst a. now apply rep_eps_lang. }
    destruct ((lo =? 1) && (h =? 1)) eqn:E3; [|reflexivity].
    apply andb_true_iff in E3 as [E3 E4]. apply N.eqb_eq in E3, E4. subst lo h.
    cbn [re_lang]. split.
    + intros H. exists 1%nat. split; [lia|]. split; [lia|]. now apply pow_one.
    + intros (n & H1 & H2 & H3). assert (n = 1%nat) as -> by lia. now apply (proj1 (pow_one _ _)) in H3.
  - destruct (is_empty_syn a) eqn:Ea.
    { apply is_empty_syn_true in Ea. subst a. now apply rep_empty_lang. }
    destruct (is_eps_syn a) eqn:Ea'.
    { apply is_eps_syn_true in Ea'. subst a. now apply rep_eps_lang. }
    reflexivity.
Qed.

Lemma pow_lang_ext : forall (L L' : bytes -> Prop), (forall w, L w <-> L' w) ->
  forall n w, pow_lang L n w <-> pow_lang L' n w.
Proof.
  intros L L' HL. induction n as [|n IH]; intros w; cbn [pow_lang].
  - tauto.
  - split; intros (u & v & -> & Hu & Hv); exists u, v; repeat split;
      try (now apply HL); now apply IH.
Qed.

(*FIXED*)
Theorem normalize_lang : forall r w, re_lang (normalize r) w <-> re_lang r w.
Proof.
  induction r as [| |s|a IHa b IHb|a IHa b IHb|a IHa b IHb|a IHa|a IHa lo hi];
    intros w; cbn [normalize].
  - reflexivity.
  - reflexivity.
  - apply mk_bytes_lang.
  - rewrite mk_cat_lang. cbn [re_lang].
    split; intros (u & v & -> & H1 & H2); exists u, v; repeat split;
      try (now apply IHa); now apply IHb.
  - rewrite mk_alt_lang. cbn [re_lang]. rewrite IHa, IHb. reflexivity.
  - rewrite mk_and_lang. cbn [re_lang]. rewrite IHa, IHb. reflexivity.
  - unfold mk_not. cbn [re_lang]. split; intros H H'; apply H; now apply IHa.
  - rewrite mk_rep_lang. cbn [re_lang].
    split; intros (n & H1 & H2 & H3); exists n; repeat split; try assumption;
      now apply (pow_lang_ext _ _ IHa).
Qed.

Lemma rep_deriv_aux : forall a lo hi c w,
  (forall w, re_lang (deriv a c) w <-> re_lang a (c :: w)) ->
  hi <> Some 0 ->
  (re_lang (mk_cat (deriv a c) (mk_rep a (lo - 1) (pred_opt hi))) w
   <-> re_lang (Rep a lo hi) (c :: w)).
Proof.
  intros a lo hi c w IH Hhi0. rewrite mk_cat_lang. cbn [re_lang]. split.
  - intros (u & v & -> & H1 & H2). apply (proj1 (mk_rep_lang _ _ _ _)) in H2.
    cbn [re_lang] in H2. destruct H2 as (n & Hlo & Hhi & Hp).
    exists (S n). split; [lia|]. split.
    + destruct hi as [h|]; cbn [pred_opt] in Hhi; [|exact I].
      assert (h <> 0) by congruence. lia.
    + exists (c :: u), v. repeat split; try assumption. now apply IH.
  - intros (n & Hlo & Hhi & Hp). destruct n as [|n]; [discriminate Hp|].
    apply pow_cons in Hp as (u & v & -> & Hu & Hv).
    exists u, v. split; [reflexivity|]. split; [now apply IH|].
    apply (proj2 (mk_rep_lang _ _ _ _)). cbn [re_lang]. exists n. split; [lia|].
    split; [|assumption]. destruct hi as [h|]; cbn [pred_opt]; [lia | exact I].
Qed.

(*FIXED*) (* the derivative is the left quotient *)
Theorem deriv_correct : forall r c w,
  c < 256 -> (re_lang (deriv r c) w <-> re_lang r (c :: w)).
Proof.
  induction r as [| |s|a IHa b IHb|a IHa b IHb|a IHa b IHb|a IHa|a IHa lo hi];
    intros c w Hc; cbn [deriv].
  - reflexivity.
  - cbn [re_lang]. split; [intros [] | discriminate].
  - destruct (bset_mem s c && (c <? 256)) eqn:E; cbn [re_lang].
    + apply andb_true_iff in E as [Hm _]. split.
      * intros ->. exists c. repeat split; assumption.
      * intros (b & Heq & _). now injection Heq as _ ->.
    + split; [tauto|]. intros (b & Heq & Hm & Hb). injection Heq as -> ->.
      apply N.ltb_lt in Hb. rewrite Hm, Hb in E. discriminate.
  - assert (Hd1 : re_lang (mk_cat (deriv a c) b) w <->
                  exists u v, w = u ++ v /\ re_lang a (c :: u) /\ re_lang b v).
    { rewrite mk_cat_lang. cbn [re_lang].
      split; intros (u & v & -> & H1 & H2); exists u, v; repeat split;
        try assumption; now apply IHa. }
    destruct (nullable a) eqn:En.
    + rewrite mk_alt_lang. cbn [re_lang]. rewrite Hd1. split.
      * intros [(u & v & -> & H1 & H2) | H].
        -- exists (c :: u), v. repeat split; assumption.
        -- exists [], (c :: w). repeat split; [now apply nullable_correct | now apply IHb].
      * intros (u & v & Heq & H1 & H2). destruct u as [|c0 u]; cbn [app] in Heq.
        -- subst v. right. now apply IHb.
        -- injection Heq as <- ->. left. exists u, v. repeat split; assumption.
    + rewrite Hd1. cbn [re_lang]. split.
      * intros (u & v & -> & H1 & H2). exists (c :: u), v. repeat split; assumption.
      * intros (u & v & Heq & H1 & H2). destruct u as [|c0 u]; cbn [app] in Heq.
        -- apply nullable_correct in H1. rewrite H1 in En. discriminate.
        -- injection Heq as <- ->. exists u, v. repeat split; assumption.
  - rewrite mk_alt_lang. cbn [re_lang]. rewrite (IHa c w Hc), (IHb c w Hc). reflexivity.
  - rewrite mk_and_lang. cbn [re_lang]. rewrite (IHa c w Hc), (IHb c w Hc). reflexivity.
  - unfold mk_not. cbn [re_lang]. split; intros H H'; apply H; now apply (IHa c w Hc).
  - destruct hi as [[|p]|].
    + cbn [re_lang]. split; [tauto|]. intros (n & _ & Hn & Hp).
      assert (n = 0%nat) as -> by lia. discriminate Hp.
    + apply rep_deriv_aux; [intros w'; now apply IHa | discriminate].
    + apply rep_deriv_aux; [intros w'; now apply IHa | discriminate].
Qed.

(*FIXED*)
Theorem deriv_word_correct : forall u r w,
  bytes_ok u -> (re_lang (deriv_word r u) w <-> re_lang r (u ++ w)).
Proof.
  induction u as [|c u IH]; intros r w Hok; cbn [deriv_word app].
  - reflexivity.
  - inversion Hok as [|c' u' Hc Hu]; subst.
    rewrite (IH _ _ Hu). now apply deriv_correct.
Qed.

(*FIXED*) (* the derivative matcher decides the denotation *)
Theorem re_match_correct : forall r w, bytes_ok w -> (re_match r w = true <-> re_lang r w).
Proof.
  intros r w Hok. unfold re_match.
  rewrite nullable_correct, (deriv_word_correct w r [] Hok), app_nil_r. reflexivity.
Qed.

(*FIXED*) (* forced end of input: only the empty string *)
Lemma forced_eoi_sound : forall r w, forced_eoi r = true -> (re_lang r w <-> w = []).
Proof.
  intros r w H. unfold forced_eoi in H. apply is_eps_syn_true in H. subst r. reflexivity.
Qed.

Lemma bset_single_mem : forall b c, bset_mem (bset_single b) c = true <-> c = b.
Proof.
  intros b c. unfold bset_mem, bset_single. destruct (N.lt_ge_cases c b) as [Hlt|Hge].
  - rewrite N.shiftl_spec_low by assumption. split; [discriminate | lia].
  - rewrite N.shiftl_spec_high' by assumption.
    destruct (c - b) as [|p] eqn:E.
    + split; [lia | reflexivity].
    + split; [discriminate | lia].
Qed.

Lemma bytes_single_lang : forall b w, b < 256 -> (re_lang (Bytes (bset_single b)) w <-> w = [b]).
Proof.
  intros b w Hb. cbn [re_lang]. split.
  - intros (c & -> & Hm & _). apply bset_single_mem in Hm. now subst.
  - intros ->. exists b. repeat split; [now apply bset_single_mem | assumption].
Qed.

(* literal strings *)
(*FIXED*)
Lemma lit_lang : forall u w, bytes_ok u -> (re_lang (lit u) w <-> w = u).
Proof.
  induction u as [|b u IH]; intros w Hok.
  - reflexivity.
  - inversion Hok as [|b' u' Hb Hu]; subst.
    destruct u as [|b2 u].
    + now apply bytes_single_lang.
    + change (lit (b :: b2 :: u)) with (Cat (Bytes (bset_single b)) (lit (b2 :: u))).
      cbn [re_lang]. split.
      * intros (x & y & -> & Hx & Hy).
        apply (proj1 (bytes_single_lang b x Hb)) in Hx. apply (proj1 (IH y Hu)) in Hy.
        now subst.
      * intros ->. exists [b], (b2 :: u). repeat split.
        -- now apply (bytes_single_lang b [b] Hb).
        -- now apply (IH _ Hu).
Qed.

(* ------------------------------------------------------------------ *)
(* And/Not-free expressions                                             *)
(* ------------------------------------------------------------------ *)

Lemma pow_bytes_ok : forall (L : bytes -> Prop), (forall w, L w -> bytes_ok w) ->
  forall n w, pow_lang L n w -> bytes_ok w.
Proof.
  intros L HL. induction n as [|n IH]; intros w Hp; cbn [pow_lang] in Hp.
  - subst w. constructor.
  - destruct Hp as (u & v & -> & Hu & Hv). apply Forall_app. split; [now apply HL | now apply IH].
Qed.

(*FIXED*) (* strings containing a value >= 256 are in no language of an And/Not-free expression *)
Lemma re_lang_bytes_ok : forall r w, has_and_not r = false -> re_lang r w -> bytes_ok w.
Proof.
  induction r as [| |s|a IHa b IHb|a IHa b IHb|a IHa b IHb|a IHa|a IHa lo hi];
    intros w Hn H; cbn [has_and_not] in Hn; cbn [re_lang] in H; try discriminate.
  - destruct H.
  - subst w. constructor.
  - destruct H as (b & -> & _ & Hb). constructor; [assumption | constructor].
  - apply orb_false_iff in Hn as [Hna Hnb]. destruct H as (u & v & -> & H1 & H2).
    apply Forall_app. split; [now apply IHa | now apply IHb].
  - apply orb_false_iff in Hn as [Hna Hnb]. destruct H as [H|H]; [now apply IHa | now apply IHb].
  - destruct H as (n & _ & _ & Hp).
    apply (pow_bytes_ok (re_lang a)) with (n := n); [|assumption].
    intros w' Hw'. now apply IHa.
Qed.

Lemma pow_repeat : forall (L : bytes -> Prop) u n, L u -> pow_lang L n (concat (repeat u n)).
Proof.
  intros L u n Hu. induction n as [|n IH]; cbn [repeat concat pow_lang].
  - reflexivity.
  - exists u, (concat (repeat u n)). repeat split; assumption.
Qed.

Lemma rep_nonempty : forall a lo hi,
  (exists w, re_lang (Rep a lo hi) w) <->
  (match hi with Some h => lo <= h | None => True end) /\ (lo = 0 \/ exists u, re_lang a u).
Proof.
  intros a lo hi. cbn [re_lang]. split.
  - intros (w & n & Hlo & Hhi & Hp). split.
    + destruct hi as [h|]; [lia | exact I].
    + destruct (N.eq_dec lo 0) as [E|E]; [now left | right].
      destruct n as [|n]; [lia|]. destruct Hp as (u & v & _ & Hu & _). now exists u.
  - intros [Hh [Hlo | (u & Hu)]].
    + subst lo. exists [], 0%nat. split; [lia|].
      split; [destruct hi; [lia | exact I] | reflexivity].
    + exists (concat (repeat u (N.to_nat lo))), (N.to_nat lo). split; [lia|].
      split; [destruct hi; [lia | exact I] | now apply pow_repeat].
Qed.

Lemma bytes_nonempty : forall s,
  negb (N.land s bset_all =? 0) = true <-> exists w, re_lang (Bytes s) w.
Proof.
  intros s. rewrite negb_true_iff, N.eqb_neq. cbn [re_lang]. split.
  - intros Hne. pose proof (N.bit_log2 _ Hne) as Hbit.
    set (b := N.log2 (N.land s bset_all)) in *.
    rewrite N.land_spec in Hbit. apply andb_true_iff in Hbit as [Hs Hall].
    assert (Hb : b < 256).
    { destruct (N.lt_ge_cases b 256) as [Hlt|Hge]; [assumption|].
      unfold bset_all in Hall. rewrite N.ones_spec_high in Hall by assumption. discriminate. }
    exists [b], b. repeat split; assumption.
  - intros (w & b & _ & Hm & Hb) E.
    rewrite <- bset_mem_land_all in Hm by assumption.
    rewrite E in Hm. unfold bset_mem in Hm. rewrite N.bits_0 in Hm. discriminate.
Qed.

(*FIXED*)
Theorem nonempty_simple_correct : forall r,
  has_and_not r = false -> (nonempty_simple r = true <-> exists w, re_lang r w).
Proof.
  induction r as [| |s|a IHa b IHb|a IHa b IHb|a IHa b IHb|a IHa|a IHa lo hi];
    intros Hn; cbn [has_and_not] in Hn; cbn [nonempty_simple]; try discriminate.
  - split; [discriminate | intros (w & [])].
  - split; [intros _; now exists [] | reflexivity].
  - apply bytes_nonempty.
  - apply orb_false_iff in Hn as [Hna Hnb].
    rewrite andb_true_iff, (IHa Hna), (IHb Hnb). cbn [re_lang]. split.
    + intros [(u & Hu) (v & Hv)]. exists (u ++ v), u, v. repeat split; assumption.
    + intros (w & u & v & _ & Hu & Hv). split; [now exists u | now exists v].
  - apply orb_false_iff in Hn as [Hna Hnb].
    rewrite orb_true_iff, (IHa Hna), (IHb Hnb). cbn [re_lang]. split.
    + intros [(w & H)|(w & H)]; exists w; [now left | now right].
    + intros (w & [H|H]); [left | right]; now exists w.
  - rewrite rep_nonempty. destruct hi as [h|].
    + rewrite andb_true_iff, orb_true_iff, N.leb_le, N.eqb_eq, (IHa Hn). reflexivity.
    + rewrite orb_true_iff, N.eqb_eq, (IHa Hn). tauto.
Qed.

(* ------------------------------------------------------------------ *)
(* representatives                                                      *)
(* ------------------------------------------------------------------ *)

Lemma in_seqN : forall n s x, In x (seqN s n) <-> s <= x < s + N.of_nat n.
Proof.
  induction n as [|n IH]; intros s x; cbn [seqN In].
  - lia.
  - rewrite IH. lia.
Qed.

Lemma in_seqN_256 : forall x, In x (seqN 0 256) <-> x < 256.
Proof.
  intros x. rewrite in_seqN. change (N.of_nat 256) with 256. lia.
Qed.

Lemma sig_eqb_eq : forall a b, sig_eqb a b = true -> a = b.
Proof.
  unfold sig_eqb. induction a as [|x a IH]; intros [|y b] H; cbn [list_eqb] in H;
    try discriminate; try reflexivity.
  apply andb_true_iff in H as [H1 H2]. apply Bool.eqb_prop in H1. apply IH in H2. now subst.
Qed.

Definition rep_step (sets : list bset)
  : list byte * list (list bool) -> byte -> list byte * list (list bool) :=
  fun '(reps, sigs) b =>
    let sg := signature sets b in
    if existsb (sig_eqb sg) sigs then (reps, sigs) else (b :: reps, sg :: sigs).

Lemma representatives_unfold : forall sets,
  representatives sets = fst (fold_left (rep_step sets) (seqN 0 256) ([], [])).
Proof. intros sets. reflexivity. Qed.

Lemma rep_step_inv : forall sets reps sigs x reps' sigs',
  sigs = map (signature sets) reps ->
  Forall (fun b => b < 256) reps -> x < 256 ->
  rep_step sets (reps, sigs) x = (reps', sigs') ->
  sigs' = map (signature sets) reps' /\
  Forall (fun b => b < 256) reps' /\
  (forall b', In b' reps -> In b' reps') /\
  exists b', In b' reps' /\ signature sets b' = signature sets x.
Proof.
  intros sets reps sigs x reps' sigs' Hs Hr Hx Hst. unfold rep_step in Hst.
  destruct (existsb (sig_eqb (signature sets x)) sigs) eqn:E; injection Hst as <- <-.
  - repeat split; try assumption; [auto|].
    apply existsb_exists in E as (sg & Hin & Heqb). apply sig_eqb_eq in Heqb.
    subst sigs. apply in_map_iff in Hin as (b' & Hb' & Hin').
    exists b'. split; [assumption | congruence].
  - repeat split.
    + cbn [map]. now f_equal.
    + now constructor.
    + intros b' Hb'. now right.
    + exists x. split; [now left | reflexivity].
Qed.

Lemma rep_fold_inv : forall sets l reps sigs,
  sigs = map (signature sets) reps ->
  Forall (fun b => b < 256) reps -> Forall (fun b => b < 256) l ->
  Forall (fun b => b < 256) (fst (fold_left (rep_step sets) l (reps, sigs))) /\
  forall b, (In b l \/ exists b', In b' reps /\ signature sets b' = signature sets b) ->
            exists b', In b' (fst (fold_left (rep_step sets) l (reps, sigs))) /\
                       signature sets b' = signature sets b.
Proof.
  intros sets. induction l as [|x l IH]; intros reps sigs Hs Hr Hl; cbn [fold_left].
  - cbn [fst]. split; [assumption|]. intros b [[]|H]. exact H.
  - inversion Hl as [|x' l' Hx Hl']; subst x' l'.
    destruct (rep_step sets (reps, sigs) x) as [reps' sigs'] eqn:Est.
    destruct (rep_step_inv _ _ _ _ _ _ Hs Hr Hx Est) as (Hs' & Hr' & Hmono & (bx & Hbx & Hsx)).
    destruct (IH reps' sigs' Hs' Hr' Hl') as [HF Hcov].
    split; [assumption|]. intros b [[Hb|Hb]|(b' & Hb' & Hsb)].
    + subst b. apply Hcov. right. now exists bx.
    + apply Hcov. now left.
    + apply Hcov. right. exists b'. split; [now apply Hmono | assumption].
Qed.

Lemma seqN_256_ok : Forall (fun b => b < 256) (seqN 0 256).
Proof. apply Forall_forall. intros x Hx. now apply in_seqN_256. Qed.

Lemma representatives_lt : forall sets, Forall (fun b => b < 256) (representatives sets).
Proof.
  intros sets. rewrite representatives_unfold.
  exact (proj1 (rep_fold_inv sets (seqN 0 256) [] [] eq_refl (Forall_nil _) seqN_256_ok)).
Qed.

(* representatives: every byte behaves like its representative *)
(*FIXED*)
Lemma representatives_cover : forall sets b,
  b < 256 -> exists b', In b' (representatives sets) /\ b' < 256 /\
                        signature sets b' = signature sets b.
Proof.
  intros sets b Hb.
  pose proof (representatives_lt sets) as HF. rewrite Forall_forall in HF.
  destruct (rep_fold_inv sets (seqN 0 256) [] [] eq_refl (Forall_nil _) seqN_256_ok) as [_ Hcov].
  destruct (Hcov b (or_introl (proj2 (in_seqN_256 b) Hb))) as (b' & Hin & Hsig).
  rewrite <- representatives_unfold in Hin.
  exists b'. split; [exact Hin|]. split; [exact (HF b' Hin) | exact Hsig].
Qed.

(* ------------------------------------------------------------------ *)
(* search                                                               *)
(* ------------------------------------------------------------------ *)

(*FIXED*) (* a positive answer of the search is always right *)
Theorem nonempty_search_true : forall fuel reps work seen,
  Forall (fun b => b < 256) reps ->
  nonempty_search fuel reps work seen = Some true ->
  exists r w, In r work /\ bytes_ok w /\ re_lang r w.
Proof.
  induction fuel as [|f IH]; intros reps work seen Hreps H; cbn [nonempty_search] in H.
  - discriminate.
  - destruct work as [|r work']; [discriminate|].
    destruct (nullable r) eqn:En.
    + exists r, []. split; [now left|]. split; [constructor | now apply nullable_correct].
    + destruct (existsb (regex_eqb r) seen) eqn:Es.
      * destruct (IH _ _ _ Hreps H) as (r' & w & Hin & Hok & Hl).
        exists r', w. split; [now right|]. now split.
      * destruct (IH _ _ _ Hreps H) as (r' & w & Hin & Hok & Hl).
        apply in_app_or in Hin as [Hin|Hin].
        -- apply filter_In in Hin as [Hin _]. apply in_map_iff in Hin as (b & <- & Hb).
           rewrite Forall_forall in Hreps. pose proof (Hreps b Hb) as Hb256.
           exists r, (b :: w). split; [now left|].
           split; [now constructor | now apply deriv_correct].
        -- exists r', w. split; [now right|]. now split.
Qed.

(*FIXED*) (* hence an expression dropped because nonempty_fuel says `Some false`... see below;
   and `Some true` always has a witness *)
Theorem nonempty_fuel_true : forall fuel r,
  nonempty_fuel fuel r = Some true -> exists w, re_lang r w.
Proof.
  intros fuel r. unfold nonempty_fuel. destruct (has_and_not r) eqn:E; intros H.
  - destruct (nonempty_search_true _ _ _ _ (representatives_lt _) H)
      as (r' & w & [<-|[]] & _ & Hl).
    now exists w.
  - injection H as H. now apply nonempty_simple_correct.
Qed.

(* ------------------------------------------------------------------ *)
(* signatures                                                           *)
(* ------------------------------------------------------------------ *)

(* s occurs as a byte set of r *)
Fixpoint occ (s : bset) (r : regex) : Prop :=
  match r with
  | Bytes t => s = t
  | Cat a b | Alt a b | And a b => occ s a \/ occ s b
  | Not a => occ s a
  | Rep a _ _ => occ s a
  | _ => False
  end.

Lemma byte_sets_acc : forall r acc s, In s acc -> In s (byte_sets r acc).
Proof.
  induction r as [| |t|a IHa b IHb|a IHa b IHb|a IHa b IHb|a IHa|a IHa lo hi];
    intros acc s H; cbn [byte_sets]; auto.
  destruct (existsb (N.eqb t) acc); [assumption | now right].
Qed.

Lemma byte_sets_occ : forall r acc s, occ s r -> In s (byte_sets r acc).
Proof.
  induction r as [| |t|a IHa b IHb|a IHa b IHb|a IHa b IHb|a IHa|a IHa lo hi];
    intros acc s H; cbn [byte_sets]; cbn [occ] in H; auto;
    try (destruct H as [H|H]; [now apply IHa | apply byte_sets_acc; now apply IHb]).
  - destruct H.
  - destruct H.
  - subst t. destruct (existsb (N.eqb s) acc) eqn:E; [|now left].
    apply existsb_exists in E as (x & Hin & Hx). apply N.eqb_eq in Hx. now subst.
Qed.

Lemma signature_mem : forall sets c c' s,
  signature sets c = signature sets c' -> In s sets -> bset_mem s c = bset_mem s c'.
Proof.
  unfold signature. induction sets as [|t sets IH]; intros c c' s Heq Hin; cbn [map] in Heq.
  - destruct Hin.
  - injection Heq as H1 H2. destruct Hin as [<-|Hin]; [assumption | now apply IH].
Qed.

Lemma deriv_occ : forall r c c',
  c < 256 -> c' < 256 -> (forall s, occ s r -> bset_mem s c = bset_mem s c') ->
  deriv r c = deriv r c'.
Proof.
  induction r as [| |t|a IHa b IHb|a IHa b IHb|a IHa b IHb|a IHa|a IHa lo hi];
    intros c c' Hc Hc' H; cbn [deriv]; cbn [occ] in H.
  - reflexivity.
  - reflexivity.
  - rewrite (H t eq_refl). apply N.ltb_lt in Hc, Hc'. now rewrite Hc, Hc'.
  - rewrite (IHa c c' Hc Hc'), (IHb c c' Hc Hc'); auto.
  - rewrite (IHa c c' Hc Hc'), (IHb c c' Hc Hc'); auto.
  - rewrite (IHa c c' Hc Hc'), (IHb c c' Hc Hc'); auto.
  - rewrite (IHa c c' Hc Hc'); auto.
  - rewrite (IHa c c' Hc Hc'); auto.
Qed.

(*FIXED*) (* derivatives only depend on the signature of the byte w.r.t. the byte sets of r *)
Lemma deriv_signature : forall r c c' sets,
  (forall s, In s (byte_sets r []) -> In s sets) ->
  c < 256 -> c' < 256 -> signature sets c = signature sets c' -> deriv r c = deriv r c'.
Proof.
  intros r c c' sets Hsub Hc Hc' Hsig. apply deriv_occ; try assumption.
  intros s Hs. apply (signature_mem sets); [assumption|].
  apply Hsub. now apply byte_sets_occ.
Qed.

Print Assumptions regex_eqb_eq.
Print Assumptions nullable_correct.
Print Assumptions normalize_lang.
Print Assumptions deriv_correct.
Print Assumptions deriv_word_correct.
Print Assumptions re_match_correct.
Print Assumptions re_lang_bytes_ok.
Print Assumptions nonempty_simple_correct.
Print Assumptions nonempty_search_true.
Print Assumptions nonempty_fuel_true.
Print Assumptions representatives_cover.
Print Assumptions deriv_signature.
Print Assumptions forced_eoi_sound.
Print Assumptions lit_lang.
Print Assumptions mk_and_lang.
Print Assumptions mk_rep_lang.
