(* Engine.v — model of ParserState (parser/src/earley/parser.rs) for the core
   fragment: Earley rows in a mutable array shared by speculative (mask) and
   definitive (commit) pushes, the virtual stack `lexer_stack` of
   (row_idx, lexer_state, byte), speculative row reuse up to rows_valid_end,
   the mask cache `bias_cache` and its key, byte-count rollback, forced bytes,
   validate_tokens.  Every assert!/index of the code on these paths is an
   explicit failure flag (`p_panic`).  Not modelled: hidden bytes / stop= /
   max_tokens / nested grammars / captures / numeric-token commits.
   Definitions only. *)
From LLG Require Import Base Svob Trie WalkM Regex Lexer Earley.

Record ctx := mk_ctx {
  c_g : grammar;
  c_nl : list bool;
  c_sp : lexspec;
  c_trie : trie;
  c_marker_tok : option tokid;      (* token whose bytes are exactly [0xFF] *)
  c_eos : list tokid;
  c_rollback_clears_cache : bool;   (* Params: does rollback reset bias_cache? *)
  c_max_items : N                   (* step_max_items *)
}.

Record lframe := mk_frame { f_row : nat; f_lst : lstate; f_byte : option byte }.

Record pstate := mk_pstate {
  p_rows : list row;               (* physical rows, index 0 first *)
  p_valid_end : nat;               (* rows_valid_end *)
  p_stack : list lframe;           (* lexer_stack, top first *)
  p_definitive : bool;
  p_bytes : bytes;                 (* committed + forced bytes *)
  p_applied : nat;                 (* byte_to_token_idx.len() *)
  p_row_infos : nat;               (* row_infos.len() *)
  p_top_eos : bool;
  p_trie_stack : nat;              (* trie_lexer_stack *)
  p_cache : option (lstate * nat * bool * svob);
  p_last_force : option nat;       (* last_force_bytes_len; None = usize::MAX *)
  p_items : N;                     (* stats.all_items *)
  p_max_items : option N;          (* max_all_items; None = usize::MAX *)
  p_error : bool;                  (* parser_error (resource limit) *)
  p_panic : bool                   (* an assert!/index of the code would have fired *)
}.

Definition set_rows st rows ve := mk_pstate rows ve (p_stack st) (p_definitive st) (p_bytes st)
  (p_applied st) (p_row_infos st) (p_top_eos st) (p_trie_stack st) (p_cache st) (p_last_force st)
  (p_items st) (p_max_items st) (p_error st) (p_panic st).
Definition set_stack st stk := mk_pstate (p_rows st) (p_valid_end st) stk (p_definitive st) (p_bytes st)
  (p_applied st) (p_row_infos st) (p_top_eos st) (p_trie_stack st) (p_cache st) (p_last_force st)
  (p_items st) (p_max_items st) (p_error st) (p_panic st).
Definition set_row_infos st n := mk_pstate (p_rows st) (p_valid_end st) (p_stack st) (p_definitive st)
  (p_bytes st) (p_applied st) n (p_top_eos st) (p_trie_stack st) (p_cache st) (p_last_force st)
  (p_items st) (p_max_items st) (p_error st) (p_panic st).
Definition set_panic st := mk_pstate (p_rows st) (p_valid_end st) (p_stack st) (p_definitive st)
  (p_bytes st) (p_applied st) (p_row_infos st) (p_top_eos st) (p_trie_stack st) (p_cache st)
  (p_last_force st) (p_items st) (p_max_items st) (p_error st) true.
Definition set_items st n := mk_pstate (p_rows st) (p_valid_end st) (p_stack st) (p_definitive st)
  (p_bytes st) (p_applied st) (p_row_infos st) (p_top_eos st) (p_trie_stack st) (p_cache st)
  (p_last_force st) n (p_max_items st) (p_error st) (p_panic st).
Definition set_cache st c := mk_pstate (p_rows st) (p_valid_end st) (p_stack st) (p_definitive st)
  (p_bytes st) (p_applied st) (p_row_infos st) (p_top_eos st) (p_trie_stack st) c
  (p_last_force st) (p_items st) (p_max_items st) (p_error st) (p_panic st).

Definition dead_frame : lframe := mk_frame 0 [] None.
Definition top (st : pstate) : lframe := hd dead_frame (p_stack st).
Definition num_rows (st : pstate) : nat := S (f_row (top st)).
Definition dummy_row : row := mk_row [] [] (MLSingle 0).
Definition row_at (st : pstate) (i : nat) : row := nth i (p_rows st) dummy_row.
Definition curr_row (st : pstate) : row := row_at st (f_row (top st)).

Definition start_state_of (cx : ctx) (r : row) : lstate := initial_state (c_sp cx) (r_allowed r).

Definition set_nth {A} (l : list A) (i : nat) (x : A) : list A :=
  if Nat.eqb i (length l) then l ++ [x] else update_nth l i (fun _ => x).

(* has_pending_lexeme_bytes *)
Fixpoint pending_loop (stk : list lframe) (row_idx : nat) : bool :=
  match stk with
  | [] => false
  | f :: stk' =>
      if negb (Nat.eqb (f_row f) row_idx) then false
      else match f_byte f with Some _ => true | None => pending_loop stk' row_idx end
  end.
Definition has_pending (st : pstate) : bool := pending_loop (p_stack st) (f_row (top st)).

(* assert_definitive *)
Definition definitive_ok (st : pstate) : bool :=
  p_definitive st && Nat.eqb (num_rows st) (p_row_infos st)
  && Nat.eqb (length (p_stack st)) (length (p_bytes st) + (if p_top_eos st then 2 else 1)).
Definition assert_definitive (st : pstate) : pstate :=
  if definitive_ok st then st else set_panic st.

Definition over_limit (st : pstate) : bool :=
  match p_max_items st with Some m => m <? p_items st | None => false end.

(* advance_parser without the single-byte-lexeme chaining; returns the frame
   to push (not pushed yet) *)
Definition advance_parser_core (cx : ctx) (st : pstate) (pre : prelexeme)
  : option (lframe * pstate) :=
  if over_limit st then None else
  let nr := num_rows st in
  let reuse := negb (p_definitive st) && Nat.ltb nr (p_valid_end st)
               && mlidx_eqb (r_lexeme (row_at st nr)) (pl_idx pre) in
  let scan_res :=
    if reuse then Some st
    else match scan_row (c_g cx) (c_nl cx) (c_sp cx) (firstn nr (p_rows st)) (pl_idx pre) with
         | None => None
         | Some r =>
             let st1 := set_rows st (set_nth (p_rows st) nr r) (S nr) in
             let st2 := set_items st1 (p_items st1 + lenN (r_items r)) in
             Some (if p_definitive st2 then set_row_infos st2 (S (Nat.min (p_row_infos st2) nr)) else st2)
         end in
  match scan_res with
  | None => None
  | Some st' =>
      let tb := if pl_next_row pre then pl_byte pre else None in
      let s0 := start_state_of cx (row_at st' nr) in
      let s1 := match tb with Some b => transition s0 b | None => s0 end in
      Some (mk_frame nr s1 tb, st')
  end.

(* failure keeps the mutated rows (the code does not roll them back) *)
Definition advance_parser (cx : ctx) (st : pstate) (pre : prelexeme) : bool * pstate :=
  if over_limit st then (false, st) else
  let nr := num_rows st in
  match advance_parser_core cx st pre with
  | None =>
      (* scan may have failed after nothing was written *)
      (false, st)
  | Some (fr, st1) =>
      if pl_next_row pre && is_dead (f_lst fr) then
        (false, if p_definitive st1 then set_row_infos st1 (Nat.min (p_row_infos st1) nr) else st1)
      else
        match (match f_byte fr with
               | Some b => check_for_single_byte_lexeme (f_lst fr) b
               | None => None end) with
        | Some second =>
            (* push the start frame without its byte, advance with the single-byte
               lexeme, then merge the two frames into one *)
            let st2 := set_stack st1 (mk_frame (f_row fr) (f_lst fr) None :: p_stack st1) in
            match advance_parser_core cx st2 second with
            | None => (false, set_stack st2 (p_stack st1))
            | Some (fr2, st3) => (true, set_stack st3 (fr2 :: p_stack st1))
            end
        | None => (true, set_stack st1 (fr :: p_stack st1))
        end
  end.

Definition advance_lexer_or_parser (cx : ctx) (st : pstate) (res : lexres) (curr : lframe)
  : bool * pstate :=
  match res with
  | LState s b => (true, set_stack st (mk_frame (f_row curr) s (Some b) :: p_stack st))
  | LError => (false, st)
  | LLexeme pre => advance_parser cx st pre
  end.

(* ParserRecognizer::try_push_byte *)
Definition try_push_byte (cx : ctx) (st : pstate) (b : byte) : bool * pstate :=
  let curr := top st in
  advance_lexer_or_parser cx st (advance (c_sp cx) (f_lst curr) b) curr.

Definition pop_bytes (st : pstate) (n : nat) : pstate := set_stack st (skipn n (p_stack st)).

Definition set_spec st (defin : bool) (trie_stack : nat) (ve : nat) :=
  mk_pstate (p_rows st) ve (p_stack st) defin (p_bytes st) (p_applied st) (p_row_infos st)
            (p_top_eos st) trie_stack (p_cache st) (p_last_force st) (p_items st) (p_max_items st)
            (p_error st) (p_panic st).

Definition trie_started (st : pstate) : pstate :=
  let st := assert_definitive st in
  set_spec st false (length (p_stack st)) (num_rows st).

Definition trie_finished (st : pstate) : pstate :=
  let st := if p_definitive st || Nat.ltb (num_rows st) (p_row_infos st) then set_panic st else st in
  let st := set_stack st (skipn (length (p_stack st) - p_trie_stack st) (p_stack st)) in
  let st := set_spec st true (p_trie_stack st) (p_valid_end st) in
  let st := assert_definitive st in
  set_spec st true (p_trie_stack st) (num_rows st).

Definition flush_lexer (cx : ctx) (st : pstate) : bool * pstate :=
  if negb (has_pending st) then (true, st)
  else let curr := top st in
       advance_lexer_or_parser cx st (try_lexeme_end (f_lst curr)) curr.

Definition is_accepting_inner (cx : ctx) (st : pstate) : bool * pstate :=
  let '(ok, st') := flush_lexer cx st in
  (ok && row_is_accepting (c_g cx) (curr_row st'), st').

Definition is_accepting (cx : ctx) (st : pstate) : bool * pstate :=
  let '(r, st') := is_accepting_inner cx (trie_started st) in
  (r, trie_finished st').

(* with_items_limit *)
Definition with_limit {A} (cx : ctx) (st : pstate) (f : pstate -> A * pstate) : A * pstate :=
  let st0 := mk_pstate (p_rows st) (p_valid_end st) (p_stack st) (p_definitive st) (p_bytes st)
                       (p_applied st) (p_row_infos st) (p_top_eos st) (p_trie_stack st) (p_cache st)
                       (p_last_force st) (p_items st) (Some (p_items st + c_max_items cx))
                       (p_error st) (p_panic st) in
  let '(a, st1) := f st0 in
  let err := p_error st1 || over_limit st1 in
  (a, mk_pstate (p_rows st1) (p_valid_end st1) (p_stack st1) (p_definitive st1) (p_bytes st1)
                (p_applied st1) (p_row_infos st1) (p_top_eos st1) (p_trie_stack st1) (p_cache st1)
                (p_last_force st1) (p_items st1) None err (p_panic st1)).

(* token-range lexemes among the possible lexemes of the top state *)
Definition token_ranges_top (cx : ctx) (st : pstate) : list (N * N) :=
  flat_map (fun i => lx_token_ranges (lex_get (c_sp cx) i)) (possible (f_lst (top st))).

(* ParserState::compute_bias with the plain (unsliced) bias computer *)
Definition compute_bias (cx : ctx) (st : pstate) (start : bytes) : svob * pstate :=
  let probe :=
    match start, p_cache st with
    | [], Some (ls, ri, hp, m) =>
        if lstate_eqb ls (f_lst (top st)) && Nat.eqb ri (f_row (top st)) && Bool.eqb hp (has_pending st)
        then Some m else None
    | _, _ => None
    end in
  match probe with
  | Some m => (m, st)
  | None =>
      let '((st1, set1), st2) :=
        with_limit cx st (fun s =>
          let '(s', toks) := add_biasM pstate (try_push_byte cx) pop_bytes trie_started trie_finished
                                       (c_trie cx) s (alloc_token_set (c_trie cx)) start in
          ((s', toks), s')) in
      let set2 := match c_marker_tok cx with Some t => disallow_token set1 t | None => set1 end in
      let '(set3, st3) :=
        match start with
        | [] =>
            let s := trie_started st2 in
            let '(ok, s') := flush_lexer cx s in
            let set' := if ok then fold_left (fun v '(lo, hi) => allow_range v lo hi)
                                             (token_ranges_top cx s') set2
                        else set2 in
            (set', trie_finished s')
        | _ => (set2, st2)
        end in
      let st4 := match start with
                 | [] => set_cache st3 (Some (f_lst (top st3), f_row (top st3), has_pending st3, set3))
                 | _ => st3
                 end in
      (set3, st4)
  end.

(* try_push_byte_definitive(Some b) *)
Definition push_definitive (cx : ctx) (st : pstate) (b : byte) : bool * pstate :=
  let '(ok, st') := try_push_byte cx st b in
  if ok then
    (true, mk_pstate (p_rows st') (p_valid_end st') (p_stack st') (p_definitive st')
                     (p_bytes st' ++ [b]) (p_applied st') (p_row_infos st') (p_top_eos st')
                     (p_trie_stack st') (p_cache st') (p_last_force st') (p_items st')
                     (p_max_items st') (p_error st') (p_panic st'))
  else (false, st').

Definition set_applied st n := mk_pstate (p_rows st) (p_valid_end st) (p_stack st) (p_definitive st)
  (p_bytes st) n (p_row_infos st) (p_top_eos st) (p_trie_stack st) (p_cache st) (p_last_force st)
  (p_items st) (p_max_items st) (p_error st) (p_panic st).

(* apply_token: bytes beyond the already-forced ones are pushed definitively;
   forced bytes must match.  false = "token doesn't satisfy the grammar". *)
Fixpoint apply_bytes (cx : ctx) (st : pstate) (w : bytes) : bool * pstate :=
  match w with
  | [] => (true, st)
  | b :: w' =>
      if Nat.leb (length (p_bytes st)) (p_applied st) then
        let '(ok, st1) := push_definitive cx st b in
        if ok then apply_bytes cx (set_applied st1 (S (p_applied st1))) w' else (false, st1)
      else
        match nth_error (p_bytes st) (p_applied st) with
        | Some x => if x =? b then apply_bytes cx (set_applied st (S (p_applied st))) w'
                    else (false, st)
        | None => (false, set_panic st)
        end
  end.

Definition apply_token (cx : ctx) (st : pstate) (w : bytes) : bool * pstate :=
  let st := assert_definitive st in
  (* run_speculative(flush_and_check_numeric) when no forced bytes are pending *)
  let st :=
    if Nat.eqb (p_applied st) (length (p_bytes st))
    then trie_finished (snd (flush_lexer cx (trie_started st))) else st in
  let '(ok, st1) := apply_bytes cx st w in
  (ok, if ok then assert_definitive st1 else st1).

(* rollback(n_bytes): None = "rollback: too many bytes" / parser error *)
Definition rollback (cx : ctx) (st : pstate) (n_bytes : nat) : option pstate :=
  if p_error st then None else
  let st := assert_definitive st in
  if Nat.ltb (p_applied st) n_bytes then None else
  let new_len := (p_applied st - n_bytes)%nat in
  let stk := skipn (length (p_stack st) - (new_len + 1)) (p_stack st) in
  let st1 := mk_pstate (p_rows st) (p_valid_end st) stk (p_definitive st)
                       (firstn new_len (p_bytes st)) new_len (p_row_infos st) false
                       (p_trie_stack st)
                       (if c_rollback_clears_cache cx then None else p_cache st)
                       None (p_items st) (p_max_items st) (p_error st) (p_panic st) in
  let nr := num_rows st1 in
  let st2 := set_row_infos st1 (Nat.min (p_row_infos st1) nr) in
  let st3 := set_rows st2 (p_rows st2) nr in
  Some (assert_definitive st3).

(* validate_tokens: speculative; tokens given with their raw bytes *)
Fixpoint validate_bytes (cx : ctx) (st : pstate) (applied : nat) (w : bytes)
  : bool * nat * pstate :=
  match w with
  | [] => (true, applied, st)
  | b :: w' =>
      if Nat.ltb applied (length (p_bytes st)) then
        match nth_error (p_bytes st) applied with
        | Some x => if x =? b then validate_bytes cx st (S applied) w' else (false, applied, st)
        | None => (false, applied, st)
        end
      else if b =? marker then (false, applied, st)
      else let '(ok, st') := try_push_byte cx st b in
           if ok then validate_bytes cx st' applied w' else (false, applied, st')
  end.

Fixpoint validate_loop (cx : ctx) (st : pstate) (applied : nat) (toks : list tokid) (idx : N)
  : N * pstate :=
  match toks with
  | [] => (idx, st)
  | t :: toks' =>
      if existsb (N.eqb t) (c_eos cx) then
        if Nat.eqb applied (length (p_bytes st)) then
          let '(acc, st') := is_accepting_inner cx st in
          ((if acc then idx + 1 else idx), st')
        else (idx, st)
      else
        (* flush_and_check_numeric: a speculative flush whose stack entry is
           dropped again (restore_state); its row writes stay *)
        let st :=
          if Nat.leb (length (p_bytes st)) applied
          then set_stack (snd (flush_lexer cx st)) (p_stack st) else st in
        let w := decode_raw (c_trie cx) [t] in
        let '(ok, applied', st') := validate_bytes cx st applied w in
        if ok then validate_loop cx st' applied' toks' (idx + 1) else (idx, st')
  end.

Definition validate_tokens (cx : ctx) (st : pstate) (toks : list tokid) : N * pstate :=
  let st := assert_definitive st in
  let '(n, st') := validate_loop cx (trie_started st) (p_applied st) toks 0 in
  (n, trie_finished st').

(* forced_byte: the unique byte the engine accepts next, unless accepting *)
Definition forced_byte (cx : ctx) (st : pstate) : option byte * pstate :=
  let '(acc, st1) := is_accepting cx st in
  if acc then (None, st1) else
  let s := trie_started st1 in
  let '(found, s') :=
    fold_left (fun '(found, s) b =>
                 let '(ok, s1) := try_push_byte cx s b in
                 if ok then (b :: found, pop_bytes s1 1) else (found, s1))
              (seqN 0 256) ([], s) in
  (match found with [b] => Some b | _ => None end, trie_finished s').

Fixpoint force_loop (fuel : nat) (cx : ctx) (st : pstate) : pstate :=
  match fuel with
  | O => st
  | S f =>
      let '(ob, st1) := forced_byte cx st in
      match ob with
      | None => st1
      | Some b =>
          (* every forced byte counts towards the step item limit *)
          let st1 := set_items st1 (p_items st1 + 1) in
          if over_limit st1 then st1 else
          if b =? marker then st1 else
          let '(ok, st2) := push_definitive cx st1 b in
          if ok then force_loop f cx st2 else st2
      end
  end.

Definition set_last_force st v := mk_pstate (p_rows st) (p_valid_end st) (p_stack st) (p_definitive st)
  (p_bytes st) (p_applied st) (p_row_infos st) (p_top_eos st) (p_trie_stack st) (p_cache st) v
  (p_items st) (p_max_items st) (p_error st) (p_panic st).

Definition force_fuel : nat := N.to_nat 60000.

(* force_bytes(): returns the state; the forced bytes are p_bytes beyond p_applied *)
Definition force_bytes (cx : ctx) (st : pstate) : pstate :=
  let st := assert_definitive st in
  match p_last_force st with
  | Some n => if Nat.eqb n (length (p_bytes st)) then st else
      let '(_, st1) := with_limit cx st (fun s => (tt, force_loop force_fuel cx s)) in
      let st2 := assert_definitive st1 in
      set_last_force st2 (Some (length (p_bytes st2)))
  | None =>
      let '(_, st1) := with_limit cx st (fun s => (tt, force_loop force_fuel cx s)) in
      let st2 := assert_definitive st1 in
      set_last_force st2 (Some (length (p_bytes st2)))
  end.

Definition currently_forced (st : pstate) : bytes := skipn (p_applied st) (p_bytes st).

(* scan_eos in the core fragment (no lexeme ends at EOS): flush the lexer
   definitively; remember the extra stack entry *)
Definition scan_eos (cx : ctx) (st : pstate) : bool * pstate :=
  let st := assert_definitive st in
  let prev := length (p_stack st) in
  let '(ok, st1) := flush_lexer cx st in
  if negb ok then (false, st1) else
  let st2 := if Nat.eqb (length (p_stack st1)) prev then st1
             else mk_pstate (p_rows st1) (p_valid_end st1) (p_stack st1) (p_definitive st1)
                            (p_bytes st1) (p_applied st1) (p_row_infos st1) true (p_trie_stack st1)
                            (p_cache st1) (p_last_force st1) (p_items st1) (p_max_items st1)
                            (p_error st1) (p_panic st1) in
  (false, assert_definitive st2).

(* can_advance *)
Definition can_advance (cx : ctx) (st : pstate) : bool :=
  has_pending st || row_can_advance (c_g cx) (curr_row st).

(* ParserState::new *)
Definition init_state (cx : ctx) : option pstate :=
  match initial_row (c_g cx) (c_nl cx) with
  | None => None
  | Some r0 =>
      let s0 := initial_state (c_sp cx) (r_allowed r0) in
      Some (mk_pstate [r0] 1 [mk_frame 0 s0 None] true [] 0 1 false 0 None None
                      (lenN (r_items r0)) None false false)
  end.
