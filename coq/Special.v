(* Special.v — model of grammar_builder.rs negated_token_ranges (complement of a
   list of inclusive token-id ranges within [0, vocab)) and the membership
   semantics of token-range lexemes.  Definitions only. *)
From LLG Require Import Base.

Definition in_ranges (rs : list (N * N)) (t : N) : bool :=
  existsb (fun '(a, b) => (a <=? t) && (t <=? b)) rs.

(* insertion sort by range start (sort_by_key is stable) *)
Fixpoint ins_range (r : N * N) (l : list (N * N)) : list (N * N) :=
  match l with
  | [] => [r]
  | x :: l' => if fst r <? fst x then r :: l else x :: ins_range r l'
  end.
Definition sort_ranges (rs : list (N * N)) : list (N * N) := fold_right ins_range [] rs.

(* the loop over the sorted ranges *)
Fixpoint neg_loop (sorted : list (N * N)) (current : N) (acc : list (N * N)) : N * list (N * N) :=
  match sorted with
  | [] => (current, acc)
  | (s, e) :: rest =>
      if e <? current then neg_loop rest current acc
      else
        let acc' := if current <? s then acc ++ [(current, s - 1)] else acc in
        neg_loop rest (N.max current (e + 1)) acc'
  end.

(* preconditions of the code: non-empty list, start <= end, end < vocab *)
Definition ranges_ok (vocab : N) (rs : list (N * N)) : bool :=
  negb (match rs with [] => true | _ => false end) &&
  forallb (fun '(a, b) => (a <=? b) && (b <? vocab)) rs.

Definition negated_ranges (vocab : N) (rs : list (N * N)) : option (list (N * N)) :=
  if ranges_ok vocab rs && (0 <? vocab) then
    let '(current, acc) := neg_loop (sort_ranges rs) 0 [] in
    Some (if current <=? vocab - 1 then acc ++ [(current, vocab - 1)] else acc)
  else None.

(* ---------- complement terminals (lark/compiler.rs, Atom::Not) ---------- *)
From LLG Require Import Regex.
(* every byte but the marker that special tokens start with *)
Definition no_marker_set : bset := N.lxor bset_all (bset_single 255).
Definition no_marker_text : regex := Rep (Bytes no_marker_set) 0 None.
(* `guard`: the compiled complement is intersected with the marker-free strings *)
Definition lark_not (guard : bool) (r : regex) : regex :=
  if guard then And (Not r) no_marker_text else Not r.
