(* JsonProofs.v — the grammar the model of the JSON-schema compiler builds admits exactly the
   spellings of the valid instances (with object members in the schema's order).
   STATEMENTS MARKED (*FIXED*) MUST NOT CHANGE (if one is false for the model as written: keep the
   original in a comment, add the weakest hypothesis that makes it true, and prove a *_refuted
   lemma with the counterexample). *)
From LLG Require Import Base Regex RegexProofs Numeric NumericProofs JsonModel JsonSeqProofs.
Open Scope N_scope.

(* rx_int_range runs on 200 units of fuel: unfold it last in every conversion (comparing two
   partially unfolded copies is exponential in the fuel) *)
#[local] Strategy 1000 [rx_int_range].

(* the spellings of an integer: canonical digits with an optional minus sign ("-0" spells 0) *)
Definition int_spelling (z : Z) (w : bytes) : Prop :=
  exists ds, canon ds /\ ((w = dstr ds /\ z = V ds) \/ (w = 45 :: dstr ds /\ z = (- V ds)%Z)).

(* the spellings of a value: `ser` with any spelling for the integers *)
Fixpoint spells (v : json) (w : bytes) {struct v} : Prop :=
  match v with
  | JInt z => int_spelling z w
  | JArr l =>
      exists ws, w = 91 :: join_comma ws ++ [93] /\
        (fix all (l : list json) (ws : list bytes) : Prop :=
           match l, ws with
           | [], [] => True
           | x :: l', u :: ws' => spells x u /\ all l' ws'
           | _, _ => False
           end) l ws
  | JObj l =>
      exists ws, w = 123 :: join_comma ws ++ [125] /\
        (fix all (l : list (bytes * json)) (ws : list bytes) : Prop :=
           match l, ws with
           | [], [] => True
           | (k, x) :: l', u :: ws' => (exists u', u = ser_str k ++ 58 :: u' /\ spells x u') /\ all l' ws'
           | _, _ => False
           end) l ws
  | _ => w = ser v
  end.

(* ---------- induction principles for the nested types ---------- *)
Definition optP {A} (P : A -> Prop) (o : option A) : Prop :=
  match o with Some a => P a | None => True end.
Definition schema_ind' (P : schema -> Prop)
  (HNull : P SNull) (HBool : P SBool) (HInt : forall lo hi, P (SInt lo hi))
  (HStr : forall a b, P (SStr a b)) (HConst : forall v, P (SConst v))
  (HArr : forall prefix items minI maxI, Forall P prefix -> optP P items -> P (SArr prefix items minI maxI))
  (HObj : forall props addl,
     Forall (fun p : bytes * (schema * bool) => P (fst (snd p))) props ->
     optP P addl -> P (SObj props addl))
  (HAny : forall l, Forall P l -> P (SAnyOf l)) : forall s, P s :=
  fix F (s : schema) : P s :=
    match s with
    | SNull => HNull
    | SBool => HBool
    | SInt lo hi => HInt lo hi
    | SStr a b => HStr a b
    | SConst v => HConst v
    | SArr prefix items minI maxI =>
        HArr prefix items minI maxI
          ((fix go (l : list schema) : Forall P l :=
              match l with
              | [] => Forall_nil P
              | x :: r => Forall_cons x (F x) (go r)
              end) prefix)
          (match items as o return optP P o with
           | Some a => F a
           | None => I
           end)
    | SObj props addl =>
        HObj props addl
          ((fix go (l : list (bytes * (schema * bool))) :
              Forall (fun p : bytes * (schema * bool) => P (fst (snd p))) l :=
              match l with
              | [] => Forall_nil _
              | x :: r => Forall_cons x (F (fst (snd x))) (go r)
              end) props)
          (match addl as o return optP P o with
           | Some a => F a
           | None => I
           end)
    | SAnyOf l =>
        HAny l
          ((fix go (l : list schema) : Forall P l :=
              match l with
              | [] => Forall_nil P
              | x :: r => Forall_cons x (F x) (go r)
              end) l)
    end.

Definition json_ind' (P : json -> Prop)
  (HNull : P JNull) (HBool : forall b, P (JBool b)) (HInt : forall z, P (JInt z))
  (HStr : forall s, P (JStr s)) (HArr : forall l, Forall P l -> P (JArr l))
  (HObj : forall l, Forall (fun kx : bytes * json => P (snd kx)) l -> P (JObj l)) : forall v, P v :=
  fix F (v : json) : P v :=
    match v with
    | JNull => HNull
    | JBool b => HBool b
    | JInt z => HInt z
    | JStr s => HStr s
    | JArr l =>
        HArr l ((fix go (l : list json) : Forall P l :=
                   match l with
                   | [] => Forall_nil P
                   | x :: r => Forall_cons x (F x) (go r)
                   end) l)
    | JObj l =>
        HObj l ((fix go (l : list (bytes * json)) : Forall (fun kx : bytes * json => P (snd kx)) l :=
                   match l with
                   | [] => Forall_nil _
                   | x :: r => Forall_cons x (F (snd x)) (go r)
                   end) l)
    end.

(* ---------- unfolding the nested fixpoints ---------- *)
Lemma join_comma_cons2 : forall a b r, join_comma (a :: b :: r) = a ++ 44 :: join_comma (b :: r).
Proof. reflexivity. Qed.

Definition kv_ser (kx : bytes * json) : bytes := ser_str (fst kx) ++ 58 :: ser (snd kx).

Lemma ser_arr : forall l, ser (JArr l) = 91 :: join_comma (map ser l) ++ [93].
Proof.
  intros l. cbn [ser]. f_equal. f_equal.
  induction l as [|x r IH]; [reflexivity|].
  destruct r as [|y r']; [reflexivity|].
  cbn [map]. rewrite join_comma_cons2. cbn [map] in IH. rewrite <- IH. reflexivity.
Qed.

Lemma ser_obj : forall l, ser (JObj l) = 123 :: join_comma (map kv_ser l) ++ [125].
Proof.
  intros l. cbn [ser]. f_equal. f_equal.
  induction l as [|[k x] r IH]; [reflexivity|].
  destruct r as [|y r']; [reflexivity|].
  cbn [map]. rewrite join_comma_cons2. cbn [map] in IH. rewrite <- IH.
  unfold kv_ser at 1. cbn [fst snd]. rewrite <- app_assoc. reflexivity.
Qed.

Lemma spells_arr : forall l w,
  spells (JArr l) w <-> exists ws, w = 91 :: join_comma ws ++ [93] /\ Forall2 spells l ws.
Proof.
  intros l w. cbn [spells].
  split; intros (ws & Hw & H); exists ws; (split; [exact Hw|]); clear Hw; revert ws H;
    induction l as [|x r IH]; intros [|u ws'] H; try (now inversion H); try constructor.
  - apply H.
  - apply IH, H.
  - inversion H; subst; assumption.
  - inversion H; subst. apply IH; assumption.
Qed.

Definition kv_spells (kx : bytes * json) (u : bytes) : Prop :=
  exists u', u = ser_str (fst kx) ++ 58 :: u' /\ spells (snd kx) u'.

Lemma spells_obj : forall l w,
  spells (JObj l) w <-> exists ws, w = 123 :: join_comma ws ++ [125] /\ Forall2 kv_spells l ws.
Proof.
  intros l w. cbn [spells].
  split; intros (ws & Hw & H); exists ws; (split; [exact Hw|]); clear Hw; revert ws H;
    induction l as [|[k x] r IH]; intros [|u ws'] H; try (now inversion H); try constructor.
  - apply H.
  - apply IH, H.
  - inversion H; subst; assumption.
  - inversion H; subst. apply IH; assumption.
Qed.

Lemma bytes_eqb_eq : forall a b, bytes_eqb a b = true <-> a = b.
Proof.
  unfold bytes_eqb. induction a as [|x a IH]; intros [|y b]; cbn [list_eqb].
  - split; reflexivity.
  - split; discriminate.
  - split; discriminate.
  - rewrite andb_true_iff, N.eqb_eq, IH. split.
    + intros [-> ->]. reflexivity.
    + intros H. injection H as -> ->. split; reflexivity.
Qed.

Lemma bytes_eqb_refl : forall a, bytes_eqb a a = true.
Proof. intros a. now apply bytes_eqb_eq. Qed.

Lemma bytes_eqb_neq : forall a b, a <> b -> bytes_eqb a b = false.
Proof.
  intros a b H. destruct (bytes_eqb a b) eqn:E; [|reflexivity].
  apply bytes_eqb_eq in E. contradiction.
Qed.

(* ---------- lookup ---------- *)
Lemma lookup_cons : forall k k' sb ps,
  lookup k ((k', sb) :: ps) = if bytes_eqb k' k then Some sb else lookup k ps.
Proof. intros. unfold lookup. cbn [find fst]. destruct (bytes_eqb k' k); reflexivity. Qed.

Lemma lookup_none : forall k props, lookup k props = None <-> ~ In k (map fst props).
Proof.
  intros k props. induction props as [|[k' sb] ps IH].
  - cbn. split; [intros _ []| reflexivity].
  - rewrite lookup_cons. cbn [map fst In]. destruct (bytes_eqb k' k) eqn:E.
    + apply bytes_eqb_eq in E. subst. split; [discriminate|]. intros H. exfalso. apply H. now left.
    + rewrite IH. split.
      * intros H [H1|H1]; [|now apply H]. subst. rewrite bytes_eqb_refl in E. discriminate.
      * intros H H1. apply H. now right.
Qed.

Lemma lookup_in : forall k sb props, NoDup (map fst props) -> In (k, sb) props -> lookup k props = Some sb.
Proof.
  intros k sb props. induction props as [|[k' sb'] ps IH]; intros Hnd Hin; [destruct Hin|].
  cbn [map fst] in Hnd. inversion Hnd as [|? ? Hni Hnd']; subst.
  rewrite lookup_cons. destruct Hin as [Heq|Hin].
  - injection Heq as -> ->. now rewrite bytes_eqb_refl.
  - rewrite bytes_eqb_neq.
    + now apply IH.
    + intros ->. apply Hni. change k with (fst (k, sb)). now apply in_map.
Qed.

Lemma lookup_some_in : forall k sb props, lookup k props = Some sb -> In (k, sb) props.
Proof.
  intros k sb props. induction props as [|[k' sb'] ps IH]; [discriminate|].
  rewrite lookup_cons. destruct (bytes_eqb k' k) eqn:E.
  - intros H. injection H as ->. apply bytes_eqb_eq in E. subst. now left.
  - intros H. right. now apply IH.
Qed.

(* ---------- arrays ---------- *)
Fixpoint preP (P : schema -> json -> Prop) (Q : list json -> Prop) (ps : list schema) (l : list json) : Prop :=
  match ps with
  | [] => Q l
  | p :: ps' => match l with [] => True | x :: r => P p x /\ preP P Q ps' r end
  end.

Definition tailV (items : option schema) : list json -> Prop :=
  match items with Some a => Forall (valid a) | None => fun l => l = [] end.
Definition tailO (items : option schema) : list json -> Prop :=
  match items with Some a => Forall (ordered a) | None => fun _ => True end.

Lemma valid_arr : forall prefix items minI maxI v,
  valid (SArr prefix items minI maxI) v <->
  exists l, v = JArr l /\ (minI <= length l)%nat /\ opt_le (length l) maxI /\ preP valid (tailV items) prefix l.
Proof.
  intros prefix items minI maxI v. cbn [valid].
  split; intros (l & Hv & Hmin & Hmax & Hp); exists l; (split; [exact Hv|]);
    (split; [exact Hmin|]); (split; [exact Hmax|]); clear Hv Hmin Hmax; revert l Hp;
    induction prefix as [|p ps IH]; intros l Hp.
  - destruct items as [a|]; [|exact Hp]. cbn [preP tailV].
    induction l as [|x r IHl]; [constructor|]. destruct Hp as [H1 H2]. constructor; [exact H1|]. apply IHl, H2.
  - destruct l as [|x r]; [exact I|]. destruct Hp as [H1 H2]. split; [exact H1|]. apply IH, H2.
  - destruct items as [a|]; [|exact Hp]. cbn [preP tailV] in Hp.
    induction l as [|x r IHl]; [exact I|]. inversion Hp; subst. split; [assumption|]. apply IHl. assumption.
  - destruct l as [|x r]; [exact I|]. destruct Hp as [H1 H2]. split; [exact H1|]. apply IH, H2.
Qed.

Lemma ordered_arr : forall prefix items minI maxI l,
  ordered (SArr prefix items minI maxI) (JArr l) <-> preP ordered (tailO items) prefix l.
Proof.
  intros prefix items minI maxI l. cbn [ordered].
  split; revert l; induction prefix as [|p ps IH]; intros l Hp.
  - destruct items as [a|]; [|exact I]. cbn [preP tailO].
    induction l as [|x r IHl]; [constructor|]. destruct Hp as [H1 H2]. constructor; [exact H1|]. apply IHl, H2.
  - destruct l as [|x r]; [exact I|]. destruct Hp as [H1 H2]. split; [exact H1|]. apply IH, H2.
  - destruct items as [a|]; [|exact I]. cbn [preP tailO] in Hp.
    induction l as [|x r IHl]; [exact I|]. inversion Hp; subst. split; [assumption|]. apply IHl. assumption.
  - destruct l as [|x r]; [exact I|]. destruct Hp as [H1 H2]. split; [exact H1|]. apply IH, H2.
Qed.

(* ---------- anyOf ---------- *)
Lemma valid_anyof : forall l v, valid (SAnyOf l) v <-> exists s', In s' l /\ valid s' v.
Proof.
  intros l v. cbn [valid]. induction l as [|s r IH].
  - split; [intros [] | intros (s' & [] & _)].
  - rewrite IH. split.
    + intros [H|(s' & Hin & H)]; [exists s; split; [now left|exact H] | exists s'; split; [now right|exact H]].
    + intros (s' & [->|Hin] & H); [now left | right; now exists s'].
Qed.

Lemma ordered_anyof : forall l v, ordered (SAnyOf l) v <-> exists s', In s' l /\ valid s' v /\ ordered s' v.
Proof.
  intros l v. cbn [ordered]. induction l as [|s r IH].
  - split; [intros [] | intros (s' & [] & _)].
  - rewrite IH. split.
    + intros [H|(s' & Hin & H)]; [exists s; split; [now left|exact H] | exists s'; split; [now right|exact H]].
    + intros (s' & [->|Hin] & H); [now left | right; now exists s'].
Qed.

(* ---------- objects ---------- *)
Definition lookP (P : schema -> Prop) (dflt : Prop) (props : list (bytes * (schema * bool))) (k : bytes) : Prop :=
  match lookup k props with Some sb => P (fst sb) | None => dflt end.

Lemma look_fix : forall (P : schema -> Prop) (dflt : Prop) k props,
  (fix look (ps : list (bytes * (schema * bool))) : Prop :=
     match ps with
     | [] => dflt
     | (k', (s', _)) :: ps' => if bytes_eqb k' k then P s' else look ps'
     end) props <-> lookP P dflt props k.
Proof.
  intros P dflt k props. unfold lookP. induction props as [|[k' [s' b]] ps IH].
  - reflexivity.
  - rewrite lookup_cons. destruct (bytes_eqb k' k); [reflexivity | exact IH].
Qed.

Definition addV (addl : option schema) (x : json) : Prop :=
  match addl with Some a => valid a x | None => False end.
Definition addO (addl : option schema) (x : json) : Prop :=
  match addl with Some a => ordered a x | None => True end.

Lemma valid_obj : forall props addl v,
  valid (SObj props addl) v <->
  exists kvs, v = JObj kvs /\
    Forall (fun kx : bytes * json => simple_str (fst kx) = true /\
              lookP (fun s' => valid s' (snd kx)) (addV addl (snd kx)) props (fst kx)) kvs /\
    (forall k s', In (k, (s', true)) props -> In k (map fst kvs)).
Proof.
  intros props addl v. cbn [valid].
  split; intros (kvs & Hv & Hm & Hr); exists kvs; (split; [exact Hv|]); (split; [|exact Hr]);
    clear Hv Hr; induction kvs as [|[k x] r IH].
  - constructor.
  - destruct Hm as (H1 & H2 & H3). constructor; [|apply IH, H3]. cbn [fst snd]. split; [exact H1|].
    apply (look_fix (fun s' => valid s' x) (addV addl x)). exact H2.
  - exact I.
  - inversion Hm as [|? ? [H1 H2] H3]; subst. cbn [fst snd] in *. split; [exact H1|]. split; [|apply IH, H3].
    apply (look_fix (fun s' => valid s' x) (addV addl x)) in H2. exact H2.
Qed.

Lemma ordered_obj : forall props addl kvs,
  ordered (SObj props addl) (JObj kvs) <->
  (exists listed extra, kvs = listed ++ extra /\
     is_subseq (map fst listed) (map fst props) /\
     Forall (fun kv : bytes * json => lookup (fst kv) props = None) extra) /\
  Forall (fun kx : bytes * json =>
            lookP (fun s' => ordered s' (snd kx)) (addO addl (snd kx)) props (fst kx)) kvs.
Proof.
  intros props addl kvs. cbn [ordered].
  split; intros (Hs & Hm); (split; [exact Hs|]); clear Hs; induction kvs as [|[k x] r IH].
  - constructor.
  - destruct Hm as (H2 & H3). constructor; [|apply IH, H3]. cbn [fst snd].
    apply (look_fix (fun s' => ordered s' x) (addO addl x)). exact H2.
  - exact I.
  - inversion Hm as [|? ? H2 H3]; subst. cbn [fst snd] in *. split; [|apply IH, H3].
    apply (look_fix (fun s' => ordered s' x) (addO addl x)) in H2. exact H2.
Qed.

(* ---------- schema_ok, json_simple ---------- *)
Lemma schema_ok_anyof : forall l, schema_ok (SAnyOf l) <-> Forall schema_ok l.
Proof.
  intros l. cbn [schema_ok]. induction l as [|x r IH].
  - split; constructor.
  - split.
    + intros [H1 H2]. constructor; [exact H1 | now apply IH].
    + intros H. inversion H; subst. split; [assumption | now apply IH].
Qed.

Lemma schema_ok_arr : forall prefix items a b,
  schema_ok (SArr prefix items a b) <-> Forall schema_ok prefix /\ optP schema_ok items.
Proof.
  intros prefix items a b. cbn [schema_ok]. unfold optP.
  assert (E : (fix all (l : list schema) : Prop :=
                 match l with [] => True | x :: r => schema_ok x /\ all r end) prefix <-> Forall schema_ok prefix).
  { induction prefix as [|x r IH].
    - split; constructor.
    - split.
      + intros [H1 H2]. constructor; [exact H1 | now apply IH].
      + intros H. inversion H; subst. split; [assumption | now apply IH]. }
  rewrite E. reflexivity.
Qed.

Lemma schema_ok_obj : forall props addl,
  schema_ok (SObj props addl) <->
  NoDup (map fst props) /\
  Forall (fun p : bytes * (schema * bool) => simple_str (fst p) = true /\ schema_ok (fst (snd p))) props /\
  optP schema_ok addl.
Proof.
  intros props addl. cbn [schema_ok]. unfold optP.
  assert (E : (fix all (l : list (bytes * (schema * bool))) : Prop :=
         match l with [] => True | (k, (x, _)) :: r => simple_str k = true /\ schema_ok x /\ all r end) props <->
         Forall (fun p : bytes * (schema * bool) => simple_str (fst p) = true /\ schema_ok (fst (snd p))) props).
  { induction props as [|[k [x b]] r IH].
    - split; constructor.
    - split.
      + intros (H1 & H2 & H3). constructor; [cbn [fst snd]; now split | now apply IH].
      + intros H. inversion H as [|? ? [H1 H2] H3]; subst. cbn [fst snd] in *. split; [assumption|]. split; [assumption | now apply IH]. }
  rewrite E. reflexivity.
Qed.

Lemma json_simple_arr : forall l, json_simple (JArr l) <-> Forall json_simple l.
Proof.
  intros l. cbn [json_simple]. induction l as [|x r IH].
  - split; constructor.
  - split.
    + intros [H1 H2]. constructor; [exact H1 | now apply IH].
    + intros H. inversion H; subst. split; [assumption | now apply IH].
Qed.

Lemma json_simple_obj : forall l,
  json_simple (JObj l) <-> Forall (fun kx : bytes * json => simple_str (fst kx) = true /\ json_simple (snd kx)) l.
Proof.
  intros l. cbn [json_simple]. induction l as [|[k x] r IH].
  - split; constructor.
  - split.
    + intros (H1 & H2 & H3). constructor; [cbn [fst snd]; now split | now apply IH].
    + intros H. inversion H as [|? ? [H1 H2] H3]; subst. cbn [fst snd] in *. split; [assumption|]. split; [assumption | now apply IH].
Qed.

(*FIXED*) (* the compact serialisation is one of the spellings *)
Lemma ser_spells : forall v, json_simple v -> spells v (ser v).
Proof.
  induction v as [| b | z | s | l IH | l IH] using json_ind'; intros Hs.
  - reflexivity.
  - reflexivity.
  - cbn [json_simple] in Hs. cbn [spells ser]. unfold int_spelling.
    assert (Hb : big z) by (unfold big; rewrite P10_80; exact Hs).
    destruct (digits_of_spec z Hb) as [Hc HV]. exists (digits_of z). split; [exact Hc|].
    destruct (Z.lt_ge_cases z 0) as [Hn|Hp].
    + right. rewrite int_literal_neg by assumption. split; [reflexivity | lia].
    + left. rewrite int_literal_nonneg by assumption. split; [reflexivity | lia].
  - reflexivity.
  - apply spells_arr. rewrite ser_arr. exists (map ser l). split; [reflexivity|].
    apply json_simple_arr in Hs. induction l as [|x r IHr]; [constructor|].
    inversion IH; inversion Hs; subst. constructor; [auto | apply IHr; assumption].
  - apply spells_obj. rewrite ser_obj. exists (map kv_ser l). split; [reflexivity|].
    apply json_simple_obj in Hs. induction l as [|[k x] r IHr]; [constructor|].
    inversion IH; inversion Hs as [|? ? [Hk Hx] Hr]; subst. cbn [fst snd] in *. constructor; [|apply IHr; assumption].
    exists (ser x). split; [reflexivity|]. cbn [snd]. auto.
Qed.

Lemma spells_nonempty : forall v u, spells v u -> u <> [].
Proof.
  intros v u H. destruct v as [| b | z | s | l | l].
  - cbn in H. subst. discriminate.
  - cbn in H. subst. destruct b; discriminate.
  - cbn [spells] in H. destruct H as (ds & Hc & [[-> _]|[-> _]]); [|discriminate].
    apply canon_nonempty in Hc. destruct ds; [contradiction | discriminate].
  - cbn in H. subst. discriminate.
  - apply spells_arr in H. destruct H as (ws & -> & _). discriminate.
  - apply spells_obj in H. destruct H as (ws & -> & _). discriminate.
Qed.

(* ---------- bytes_ok of serialisations ---------- *)
Lemma simple_char_spec : forall b, simple_char b = true <-> 32 <= b /\ b <= 126 /\ b <> 34 /\ b <> 92.
Proof.
  intros b. unfold simple_char. rewrite !andb_true_iff, !negb_true_iff, !N.leb_le, !N.eqb_neq. tauto.
Qed.

Lemma simple_str_ok : forall s, simple_str s = true -> bytes_ok s.
Proof.
  unfold simple_str, bytes_ok. intros s H. rewrite forallb_forall in H. apply Forall_forall.
  intros b Hb. apply H, simple_char_spec in Hb. lia.
Qed.

Lemma bytes_ok_app : forall a b, bytes_ok (a ++ b) <-> bytes_ok a /\ bytes_ok b.
Proof. intros. apply Forall_app. Qed.

Lemma bytes_ok_cons : forall a b, bytes_ok (a :: b) <-> a < 256 /\ bytes_ok b.
Proof. intros. unfold bytes_ok. split; [intros H; inversion H; auto | intros [H1 H2]; constructor; auto]. Qed.

Lemma ser_str_ok : forall s, simple_str s = true -> bytes_ok (ser_str s).
Proof.
  intros s H. unfold ser_str. apply bytes_ok_cons. split; [lia|]. apply bytes_ok_app. split; [now apply simple_str_ok|].
  apply bytes_ok_cons. split; [lia | constructor].
Qed.

Lemma join_comma_ok : forall ws, Forall bytes_ok ws -> bytes_ok (join_comma ws).
Proof.
  induction ws as [|a r IH]; intros H; [constructor|]. inversion H; subst.
  destruct r as [|b r']; [assumption|]. rewrite join_comma_cons2. apply bytes_ok_app. split; [assumption|].
  apply bytes_ok_cons. split; [lia | now apply IH].
Qed.

Lemma ser_ok : forall v, json_simple v -> bytes_ok (ser v).
Proof.
  induction v as [| b | z | s | l IH | l IH] using json_ind'; intros Hs.
  - cbv. repeat constructor.
  - destruct b; cbv; repeat constructor.
  - cbn [json_simple] in Hs. cbn [ser].
    assert (Hb : big z) by (unfold big; rewrite P10_80; exact Hs).
    pose proof (dstr_bytes_ok _ (canon_digits _ (digits_of_canon z Hb))) as Hd.
    destruct (Z.lt_ge_cases z 0) as [Hn|Hp].
    + rewrite int_literal_neg by assumption. apply bytes_ok_cons. split; [lia | exact Hd].
    + rewrite int_literal_nonneg by assumption. exact Hd.
  - cbn [ser]. apply ser_str_ok. exact Hs.
  - rewrite ser_arr. apply bytes_ok_cons. split; [lia|]. apply bytes_ok_app. split; [|apply bytes_ok_cons; split; [lia|constructor]].
    apply join_comma_ok. apply json_simple_arr in Hs. apply Forall_forall. intros w Hw. apply in_map_iff in Hw.
    destruct Hw as (x & <- & Hx). rewrite Forall_forall in IH, Hs. auto.
  - rewrite ser_obj. apply bytes_ok_cons. split; [lia|]. apply bytes_ok_app. split; [|apply bytes_ok_cons; split; [lia|constructor]].
    apply join_comma_ok. apply json_simple_obj in Hs. apply Forall_forall. intros w Hw. apply in_map_iff in Hw.
    destruct Hw as ([k x] & <- & Hx). rewrite Forall_forall in IH, Hs. destruct (Hs _ Hx) as [Hk Hjx]. cbn [fst snd] in *.
    unfold kv_ser. cbn [fst snd]. apply bytes_ok_app. split; [now apply ser_str_ok|]. apply bytes_ok_cons. split; [lia|].
    apply (IH _ Hx). exact Hjx.
Qed.

(* ---------- strings ---------- *)
Definition str_lang (minl : nat) (maxl : option nat) : lang :=
  fun u => exists c, u = ser_str c /\ simple_str c = true /\ (minl <= length c)%nat /\ opt_le (length c) maxl.

Lemma bset_union_mem : forall a b c, bset_mem (bset_union a b) c = bset_mem a c || bset_mem b c.
Proof. intros. unfold bset_mem, bset_union. apply N.lor_spec. Qed.

Lemma simple_class_lang : forall w, re_lang simple_class w <-> exists b, w = [b] /\ simple_char b = true.
Proof.
  intros w. unfold simple_class. cbn [re_lang].
  assert (E : forall b, bset_mem (bset_union (bset_union (bset_range 32 33) (bset_range 35 91)) (bset_range 93 126)) b = true /\ b < 256
              <-> simple_char b = true).
  { intros b. rewrite !bset_union_mem, !orb_true_iff, !bset_range_mem, simple_char_spec. lia. }
  split.
  - intros (b & -> & H1 & H2). exists b. split; [reflexivity|]. apply E. now split.
  - intros (b & -> & H). apply E in H. exists b. split; [reflexivity | exact H].
Qed.

Lemma pow_simple_lang : forall n w,
  pow_lang (re_lang simple_class) n w <-> length w = n /\ simple_str w = true.
Proof.
  induction n as [|n IH]; intros w; cbn [pow_lang].
  - split.
    + intros ->. split; reflexivity.
    + intros [H _]. destruct w; [reflexivity | discriminate].
  - split.
    + intros (u & v & -> & Hu & Hv). apply simple_class_lang in Hu. destruct Hu as (b & -> & Hb).
      apply IH in Hv. destruct Hv as [Hl Hs]. cbn [app length simple_str forallb]. split; [now rewrite Hl|].
      rewrite Hb. exact Hs.
    + intros [Hl Hs]. destruct w as [|b v]; [discriminate|]. cbn [length] in Hl. injection Hl as Hl.
      cbn [simple_str forallb] in Hs. apply andb_true_iff in Hs. destruct Hs as [Hb Hs].
      exists [b], v. split; [reflexivity|]. split.
      * apply simple_class_lang. now exists b.
      * apply IH. now split.
Qed.

Lemma str_regex_lang : forall minl maxl u, re_lang (str_regex minl maxl) u <-> str_lang minl maxl u.
Proof.
  intros minl maxl u. unfold str_regex, str_lang. rewrite cat_lang. split.
  - intros (a & v & -> & Ha & Hv). apply ch_lang in Ha; [|lia]. subst a.
    apply cat_lang in Hv. destruct Hv as (m & c & -> & Hm & Hc). apply ch_lang in Hc; [|lia]. subst c.
    cbn [re_lang] in Hm. destruct Hm as (n & Hlo & Hhi & Hp). apply pow_simple_lang in Hp. destruct Hp as [Hl Hs].
    exists m. split; [reflexivity|]. split; [exact Hs|]. rewrite Nat2N.id in Hlo. split; [lia|].
    destruct maxl as [h|]; cbn [option_map opt_le] in *; [rewrite Nat2N.id in Hhi; lia | exact I].
  - intros (c & -> & Hs & Hlo & Hhi). exists [34], (c ++ [34]). split; [reflexivity|]. split; [apply ch_lang; [lia|reflexivity]|].
    apply cat_lang. exists c, [34]. split; [reflexivity|]. split; [|apply ch_lang; [lia|reflexivity]].
    cbn [re_lang]. exists (length c). rewrite Nat2N.id. split; [exact Hlo|]. split.
    + destruct maxl as [h|]; cbn [option_map opt_le] in *; [rewrite Nat2N.id; exact Hhi | exact I].
    + apply pow_simple_lang. now split.
Qed.

(* ---------- additionalProperties keys ---------- *)
Definition okey_lang (taken : list bytes) : lang :=
  fun u => exists c, u = ser_str c /\ simple_str c = true /\ ~ In c taken.

Lemma ser_str_inj : forall a b, ser_str a = ser_str b -> a = b.
Proof. unfold ser_str. intros a b H. injection H as H. now apply app_inv_tail in H. Qed.

Lemma firstn_used : forall (u r : bytes), firstn (length (u ++ r) - length r) (u ++ r) = u.
Proof.
  intros u r. rewrite app_length, Nat.add_sub, firstn_app, Nat.sub_diag, firstn_all, firstn_O, app_nil_r. reflexivity.
Qed.

Lemma mlang_okey : forall taken, mlang (m_other_key taken) (okey_lang taken).
Proof.
  intros taken w r Hw. unfold m_other_key. rewrite filter_In. unfold m_str.
  rewrite (mlang_regex (str_regex 0 None) w r Hw). split.
  - intros [(u & -> & Hu) Hf]. exists u. split; [reflexivity|].
    apply str_regex_lang in Hu. destruct Hu as (c & -> & Hc & _ & _). exists c. split; [reflexivity|]. split; [exact Hc|].
    intros Hin. cbv beta zeta in Hf. rewrite firstn_used in Hf. apply negb_true_iff in Hf.
    assert (E : existsb (fun k : bytes => bytes_eqb (ser_str c) (ser_str k)) taken = true).
    { apply existsb_exists. exists c. split; [exact Hin | apply bytes_eqb_refl]. }
    congruence.
  - intros (u & -> & c & -> & Hc & Hn). split.
    + exists (ser_str c). split; [reflexivity|]. apply str_regex_lang. exists c.
      split; [reflexivity|]. split; [exact Hc|]. split; [lia | exact I].
    + cbv beta zeta. rewrite firstn_used. apply negb_true_iff.
      destruct (existsb (fun k : bytes => bytes_eqb (ser_str c) (ser_str k)) taken) eqn:E; [|reflexivity].
      apply existsb_exists in E. destruct E as (k & Hk & E). apply bytes_eqb_eq, ser_str_inj in E. subst. contradiction.
Qed.

(* ---------- integer ranges compile whenever they are inhabited ---------- *)
Local Open Scope Z_scope.

Lemma nn_none_succeeds : forall f l, 0 <= l -> i64_ok l -> (40 <= f)%nat ->
  exists rx, rx_int_range f (Some l) None = NOk rx.
Proof.
  intros f l H0 Hl Hf. destruct f as [|f]; [lia|]. rewrite rir_nn_none by assumption.
  pose proof (i64_big l Hl) as Hb. pose proof (i64_digits l H0 Hl) as Hd.
  pose proof (num_digits_pos l Hb) as Hp. pose proof (num_digits_upper l H0 Hb) as Hu.
  remember (num_digits l) as k eqn:Ek.
  assert (Hk80 : P10 k <= P10 80) by (apply P10_le; lia).
  assert (Hk1 : num_digits (P10 k - 1) = k).
  { destruct k as [|k']; [lia|]. apply num_digits_eq.
    - pose proof (P10_pos (S k')). lia.
    - unfold big. pose proof (P10_pos (S k')). lia.
    - rewrite P10_S. pose proof (P10_pos k'). lia. }
  destruct (same_len_succeeds f l (P10 k - 1)) as (a & ->); try lia.
  cbv beta iota delta [nbind]. eexists; reflexivity.
Qed.

Lemma some_none_succeeds : forall f l, i64_ok l -> (42 <= f)%nat ->
  exists rx, rx_int_range f (Some l) None = NOk rx.
Proof.
  intros f l Hl Hf. destruct (Z.lt_ge_cases l 0) as [Hn|Hp].
  - destruct f as [|f]; [lia|]. rewrite rir_neg_none by assumption.
    destruct f as [|f]; [lia|]. rewrite rir_neg_some by assumption.
    destruct (Z.ltb_spec (-1) l) as [H|_]; [lia|].
    destruct (Z.ltb_spec (-1) 0) as [_|H]; [|lia].
    destruct (nn_succeeds_i64 f (- -1) (- l)) as (a & ->); [lia | now apply i64_neg | lia|].
    cbv beta iota delta [nbind].
    destruct (nn_none_succeeds (S f) 0) as (b & ->); [lia | unfold i64_ok; lia | lia|].
    eexists; reflexivity.
  - apply nn_none_succeeds; [lia | assumption | lia].
Qed.

Lemma int_opt_succeeds : forall lo hi z, i64 lo -> i64 hi -> in_opt_range lo hi z ->
  exists rx, rx_int_range int_fuel lo hi = NOk rx.
Proof.
  intros lo hi z Hlo Hhi [Hz1 Hz2]. destruct lo as [l|], hi as [r|]; cbn [i64] in *.
  - apply int_range_succeeds; [exact Hlo | exact Hhi | lia].
  - apply some_none_succeeds; [exact Hlo | unfold int_fuel; lia].
  - change int_fuel with (S 199). rewrite rir_none_some.
    destruct (Z.leb_spec 0 r) as [Hr|Hr].
    + destruct (nn_succeeds_i64 199 0 r) as (a & ->); [lia | exact Hhi | lia|].
      cbv beta iota delta [nbind]. change 199%nat with (S 198). rewrite rir_none_some.
      destruct (Z.leb_spec 0 (-1)) as [H|_]; [lia|].
      destruct (nn_none_succeeds 198 (- -1)) as (b & ->); [lia | unfold i64_ok; lia | lia|].
      cbv beta iota delta [nbind]. eexists; reflexivity.
    + destruct (nn_none_succeeds 199 (- r)) as (b & ->); [lia | unfold i64_ok in *; lia | lia|].
      cbv beta iota delta [nbind]. eexists; reflexivity.
  - change int_fuel with (S 199). rewrite rir_none_none. eexists; reflexivity.
Qed.
Local Close Scope Z_scope.

(* ---------- the language of a schema ---------- *)
Definition memb (k : bytes) (L : lang) : lang :=
  fun u => exists u', u = ser_str k ++ 58 :: u' /\ L u'.
Definition omemb (taken : list bytes) (A : lang) : lang :=
  fun u => exists c u', u = ser_str c ++ 58 :: u' /\ simple_str c = true /\ ~ In c taken /\ A u'.
Definition seq1_lang (A : lang) : lang :=
  fun u => exists ws, Forall A ws /\ ws <> [] /\ u = join_comma ws.
Definition int_slang (lo hi : option Z) : lang :=
  match rx_int_range int_fuel lo hi with NOk r => re_lang r | NErr => fun _ => False end.
Definition arr_lang (Lp : list lang) (Li : option lang) (minI : nat) (maxI : option nat) : lang :=
  fun u => exists ws, u = 91 :: join_comma ws ++ [93] /\
                      (minI <= length ws)%nat /\ opt_le (length ws) maxI /\
                      (forall i w, nth_error ws i = Some w -> slot_lang Lp Li i w) /\
                      (Li = None -> (minI <= length Lp)%nat).
Definition extra_langs (taken : list bytes) (Ladd : option lang) : list (lang * bool) :=
  match Ladd with Some A => [(seq1_lang (omemb taken A), false)] | None => [] end.
Definition obj_lang (Lprops : list (lang * bool)) (Ladd : option lang) (taken : list bytes) : lang :=
  fun u => exists ws, picks (Lprops ++ extra_langs taken Ladd) ws /\ u = 123 :: join_comma ws ++ [125].
Definition prop_lang (sl : schema -> lang) (p : bytes * (schema * bool)) : lang * bool :=
  (memb (fst p) (sl (fst (snd p))), snd (snd p)).

Fixpoint slang (s : schema) : lang :=
  match s with
  | SNull => l_lit lit_null
  | SBool => l_alt (l_lit lit_true) (l_lit lit_false)
  | SInt lo hi => int_slang lo hi
  | SStr a b => str_lang a b
  | SConst v => l_lit (ser v)
  | SAnyOf l => fun u => exists L, In L (map slang l) /\ L u
  | SArr prefix items minI maxI => arr_lang (map slang prefix) (option_map slang items) minI maxI
  | SObj props addl =>
      obj_lang (map (fun p : bytes * (schema * bool) => (memb (fst p) (slang (fst (snd p))), snd (snd p))) props)
               (option_map slang addl) (map fst props)
  end.

Lemma slang_obj : forall props addl,
  slang (SObj props addl) = obj_lang (map (prop_lang slang) props) (option_map slang addl) (map fst props).
Proof. reflexivity. Qed.

Definition Gv (s : schema) (v : json) (u : bytes) : Prop := spells v u /\ valid s v /\ ordered s v.

(* ---------- lists ---------- *)
Lemma Forall_mp : forall {A} (P Q : A -> Prop) l, Forall (fun x => P x -> Q x) l -> Forall P l -> Forall Q l.
Proof. intros A P Q l H. induction H; intros H1; inversion H1; subst; constructor; auto. Qed.

Lemma Forall2_mono_In : forall {A B} (R1 R2 : A -> B -> Prop) l1 l2,
  (forall a b, In a l1 -> R1 a b -> R2 a b) -> Forall2 R1 l1 l2 -> Forall2 R2 l1 l2.
Proof.
  intros A B R1 R2 l1 l2 Himp H. induction H; constructor.
  - apply Himp; [now left | assumption].
  - apply IHForall2. intros a b Ha. apply Himp. now right.
Qed.

Lemma Forall2_Forall_l : forall {A B} (R : A -> B -> Prop) (P : A -> Prop) l1 l2,
  (forall a b, R a b -> P a) -> Forall2 R l1 l2 -> Forall P l1.
Proof. intros A B R P l1 l2 Himp H. induction H; constructor; eauto. Qed.

Lemma Forall2_map_r : forall {A B} (R : A -> B -> Prop) (f : A -> B) l,
  (forall a, In a l -> R a (f a)) -> Forall2 R l (map f l).
Proof.
  intros A B R f l. induction l as [|x r IH]; intros H; cbn [map]; constructor.
  - apply H. now left.
  - apply IH. intros a Ha. apply H. now right.
Qed.

Lemma Forall_choice : forall {A B} (P : A -> B -> Prop) (ws : list B),
  Forall (fun w => exists x, P x w) ws -> exists l, Forall2 P l ws.
Proof.
  intros A B P ws H. induction H as [|w ws' [x Hx] _ [l Hl]].
  - exists []. constructor.
  - exists (x :: l). now constructor.
Qed.

Lemma join_comma_ne : forall a r, r <> [] -> join_comma (a :: r) = a ++ 44 :: join_comma r.
Proof. intros a [|b r] H; [contradiction | reflexivity]. Qed.

Lemma join_comma_flat : forall ws1 ws', ws' <> [] ->
  join_comma (ws1 ++ [join_comma ws']) = join_comma (ws1 ++ ws').
Proof.
  intros ws1 ws' Hne. induction ws1 as [|a r IH].
  - reflexivity.
  - cbn [app]. rewrite !join_comma_ne.
    + now rewrite IH.
    + destruct r; [exact Hne | discriminate].
    + destruct r; discriminate.
Qed.

(* ---------- picks ---------- *)
Lemma picks_app : forall L1 L2 w1 w2, picks L1 w1 -> picks L2 w2 -> picks (L1 ++ L2) (w1 ++ w2).
Proof.
  intros L1 L2 w1 w2 H1 H2. induction H1; cbn [app].
  - assumption.
  - now constructor.
  - now apply P_skip.
Qed.

Lemma picks_app_inv : forall L1 L2 ws, picks (L1 ++ L2) ws ->
  exists w1 w2, ws = w1 ++ w2 /\ picks L1 w1 /\ picks L2 w2.
Proof.
  induction L1 as [|[L b] L1 IH]; intros L2 ws H.
  - exists [], ws. split; [reflexivity|]. split; [constructor | exact H].
  - cbn [app] in H. inversion H as [|L0 req rest a ws0 Ha Hr|L0 rest ws0 Hr]; subst.
    + destruct (IH _ _ Hr) as (w1 & w2 & -> & H1 & H2). exists (a :: w1), w2.
      split; [reflexivity|]. split; [now constructor | exact H2].
    + destruct (IH _ _ Hr) as (w1 & w2 & -> & H1 & H2). exists w1, w2.
      split; [reflexivity|]. split; [now apply P_skip | exact H2].
Qed.

Lemma picks_nil_inv : forall ws, picks [] ws -> ws = [].
Proof. intros ws H. inversion H. reflexivity. Qed.

Lemma is_subseq_nil : forall b, is_subseq [] b.
Proof. intros [|y b]; exact I. Qed.

Lemma is_subseq_skip : forall a b y, is_subseq a b -> is_subseq a (y :: b).
Proof. intros [|x a] b y H; [exact I | right; exact H]. Qed.

Lemma is_subseq_In : forall b a x, is_subseq a b -> In x a -> In x b.
Proof.
  induction b as [|y b IH]; intros [|x' a] x H Hin; try destruct Hin; try contradiction.
  - subst. destruct H as [[-> H]|H]; [now left | right; apply (IH _ _ H); now left].
  - destruct H as [[-> Hs]|Hs]; [right; now apply (IH _ _ Hs) | right; apply (IH _ _ Hs); now right].
Qed.

Definition Rprop (Q : schema -> json -> bytes -> Prop) (props : list (bytes * (schema * bool)))
  (kx : bytes * json) (w : bytes) : Prop :=
  exists s' b u', In (fst kx, (s', b)) props /\ w = ser_str (fst kx) ++ 58 :: u' /\ Q s' (snd kx) u'.

Lemma picks_sound : forall props,
  Forall (fun p : bytes * (schema * bool) => forall u, slang (fst (snd p)) u -> exists v, Gv (fst (snd p)) v u) props ->
  forall ws, picks (map (prop_lang slang) props) ws ->
  exists listed, is_subseq (map fst listed) (map fst props) /\ Forall2 (Rprop Gv props) listed ws /\
     (forall k s', In (k, (s', true)) props -> In k (map fst listed)).
Proof.
  intros props HF. induction HF as [|[k [s b]] ps Hp _ IH]; intros ws H.
  - apply picks_nil_inv in H. subst. exists []. split; [exact I|]. split; [constructor|]. intros k s' [].
  - cbn [map] in H. unfold prop_lang at 1 in H. cbn [fst snd] in *.
    inversion H as [|L0 req rest a ws0 Ha Hr|L0 rest ws0 Hr]; subst.
    + destruct (IH _ Hr) as (listed & Hsub & Hl & Hreq). destruct Ha as (u' & -> & Hu').
      destruct (Hp _ Hu') as (v & Hv). exists ((k, v) :: listed). split; [|split].
      * cbn [map fst is_subseq]. left. split; [reflexivity | exact Hsub].
      * constructor.
        -- exists s, b, u'. cbn [fst snd]. split; [now left|]. split; [reflexivity | exact Hv].
        -- eapply Forall2_mono_In; [|exact Hl]. intros kx w _ (s' & b' & u0 & Hin & Hw & HG).
           exists s', b', u0. split; [now right|]. split; assumption.
      * intros k0 s' [Heq|Hin].
        -- injection Heq as -> _ _. now left.
        -- right. eapply Hreq. exact Hin.
    + destruct (IH _ Hr) as (listed & Hsub & Hl & Hreq). exists listed. split; [|split].
      * cbn [map fst]. now apply is_subseq_skip.
      * eapply Forall2_mono_In; [|exact Hl]. intros kx w _ (s' & b' & u0 & Hin & Hw & HG).
        exists s', b', u0. split; [now right|]. split; assumption.
      * intros k0 s' [Heq|Hin]; [discriminate|]. eapply Hreq. exact Hin.
Qed.

Lemma picks_complete : forall props listed ws,
  NoDup (map fst props) -> is_subseq (map fst listed) (map fst props) ->
  Forall2 (Rprop (fun s' _ u' => slang s' u') props) listed ws ->
  (forall k s', In (k, (s', true)) props -> In k (map fst listed)) ->
  picks (map (prop_lang slang) props) ws.
Proof.
  induction props as [|[k [s b]] ps IH]; intros listed ws Hnd Hsub Hl Hreq.
  - destruct listed as [|kx l']; [|destruct Hsub]. inversion Hl; subst. constructor.
  - cbn [map fst] in Hnd. inversion Hnd as [|? ? Hni Hnd']; subst.
    assert (Hdown : forall (l0 : list (bytes * json)) ws0,
              (forall kx, In kx l0 -> In (fst kx) (map fst ps)) ->
              Forall2 (Rprop (fun s' _ u' => slang s' u') ((k, (s, b)) :: ps)) l0 ws0 ->
              Forall2 (Rprop (fun s' _ u' => slang s' u') ps) l0 ws0).
    { intros l0 ws0 Hk. apply Forall2_mono_In. intros kx w Hin (s' & b' & u0 & [Heq|Hin'] & Hw & HG).
      - injection Heq as Hk' _ _. exfalso. apply Hni. rewrite Hk'. now apply Hk.
      - exists s', b', u0. split; [assumption|]. split; assumption. }
    cbn [map]. unfold prop_lang at 1. cbn [fst snd].
    destruct listed as [|[k1 x1] l'].
    + inversion Hl; subst. destruct b.
      * exfalso. apply (Hreq k s). now left.
      * apply P_skip. apply (IH [] []); [assumption | apply is_subseq_nil | constructor|].
        intros k0 s' Hin. apply (Hreq k0 s'). now right.
    + inversion Hl as [|? w1 ? ws' HR Hl']; subst. cbn [map fst is_subseq] in Hsub.
      destruct Hsub as [[-> Hsub]|Hsub].
      * apply P_take.
        -- destruct HR as (s' & b' & u0 & [Heq|Hin'] & Hw & HG); cbn [fst snd] in *.
           ++ injection Heq as -> ->. now exists u0.
           ++ exfalso. apply Hni. change k with (fst (k, (s', b'))). now apply in_map.
        -- apply (IH l' ws'); [assumption | assumption | |].
           ++ apply Hdown; [|assumption]. intros kx Hin. apply (is_subseq_In _ _ _ Hsub). now apply in_map.
           ++ intros k0 s' Hin. destruct (Hreq k0 s' (or_intror Hin)) as [Hk|Hk]; [|exact Hk].
              cbn [fst] in Hk. subst k0. exfalso. apply Hni. change k with (fst (k, (s', true))). now apply in_map.
      * assert (Hkeys : forall kx, In kx ((k1, x1) :: l') -> In (fst kx) (map fst ps)).
        { intros kx Hin. apply (is_subseq_In _ _ _ Hsub). change (k1 :: map fst l') with (map fst ((k1, x1) :: l')). now apply in_map. }
        destruct b.
        -- exfalso. apply Hni. apply (is_subseq_In _ _ _ Hsub). apply (Hreq k s). now left.
        -- apply P_skip. apply (IH ((k1, x1) :: l') (w1 :: ws')); [assumption | exact Hsub | |].
           ++ apply Hdown; [exact Hkeys | exact Hl].
           ++ intros k0 s' Hin. apply (Hreq k0 s'). now right.
Qed.

(* ---------- arrays ---------- *)
Lemma slot_lang_nil : forall Li i, slot_lang [] Li i = match Li with Some L => L | None => fun _ => False end.
Proof. intros Li [|i]; reflexivity. Qed.

Lemma arr_sound : forall items,
  optP (fun a => forall u, slang a u -> exists v, Gv a v u) items ->
  forall prefix, Forall (fun s => forall u, slang s u -> exists v, Gv s v u) prefix ->
  forall ws, (forall i w, nth_error ws i = Some w -> slot_lang (map slang prefix) (option_map slang items) i w) ->
  exists l, Forall2 spells l ws /\ preP valid (tailV items) prefix l /\ preP ordered (tailO items) prefix l.
Proof.
  intros items Hi prefix HF. induction HF as [|p ps Hp _ IH]; intros ws H.
  - cbn [map preP]. destruct items as [a|]; cbn [optP option_map tailV tailO] in *.
    + induction ws as [|w ws' IHw].
      * exists []. split; [constructor|]. split; constructor.
      * destruct IHw as (l & H1 & H2 & H3).
        { intros i w0 Hn. specialize (H (S i) w0 Hn). rewrite slot_lang_nil in *. exact H. }
        specialize (H 0%nat w eq_refl). rewrite slot_lang_nil in H. destruct (Hi _ H) as (v & Hs & Hv & Ho).
        exists (v :: l). split; [now constructor|]. split; now constructor.
    + destruct ws as [|w ws'].
      * exists []. split; [constructor|]. split; [reflexivity | exact I].
      * exfalso. specialize (H 0%nat w eq_refl). rewrite slot_lang_nil in H. exact H.
  - destruct ws as [|w ws'].
    + exists []. split; [constructor|]. split; exact I.
    + destruct (IH ws') as (l & H1 & H2 & H3).
      { intros i w0 Hn. exact (H (S i) w0 Hn). }
      specialize (H 0%nat w eq_refl). cbn in H. destruct (Hp _ H) as (v & Hs & Hv & Ho).
      exists (v :: l). split; [now constructor|]. split; cbn [preP]; now split.
Qed.

Lemma arr_complete : forall items,
  optP (fun a => forall v, json_simple v -> valid a v -> ordered a v -> slang a (ser v)) items ->
  forall prefix, Forall (fun s => forall v, json_simple v -> valid s v -> ordered s v -> slang s (ser v)) prefix ->
  forall l, Forall json_simple l -> preP valid (tailV items) prefix l -> preP ordered (tailO items) prefix l ->
  forall i w, nth_error (map ser l) i = Some w -> slot_lang (map slang prefix) (option_map slang items) i w.
Proof.
  intros items Hi prefix HF. induction HF as [|p ps Hp _ IH]; intros l Hs Hv Ho i w Hn.
  - cbn [map]. rewrite slot_lang_nil. cbn [preP] in Hv, Ho.
    destruct items as [a|]; cbn [optP option_map tailV tailO] in *.
    + apply nth_error_In, in_map_iff in Hn. destruct Hn as (x & <- & Hx).
      rewrite Forall_forall in Hs, Hv, Ho. apply Hi; auto.
    + subst l. destruct i; discriminate.
  - destruct l as [|x r]; [destruct i; discriminate|]. inversion Hs; subst.
    cbn [preP] in Hv, Ho. destruct Hv as [Hv1 Hv2]. destruct Ho as [Ho1 Ho2].
    destruct i as [|i].
    + cbn in Hn. injection Hn as <-. cbn. now apply Hp.
    + cbn [map nth_error] in Hn. cbn [map]. change (slot_lang (slang p :: map slang ps) (option_map slang items) (S i) w)
        with (slot_lang (map slang ps) (option_map slang items) i w). apply (IH r); assumption.
Qed.

Lemma preP_len : forall prefix l, preP valid (tailV None) prefix l -> (length l <= length prefix)%nat.
Proof.
  induction prefix as [|p ps IH]; intros l H.
  - cbn in H. subst. cbn. lia.
  - destruct l as [|x r]; cbn [length]; [lia|]. destruct H as [_ H]. apply IH in H. lia.
Qed.

Definition ext_rel (props : list (bytes * (schema * bool))) (addl : option schema) (kx : bytes * json) (w : bytes) : Prop :=
  exists u', w = ser_str (fst kx) ++ 58 :: u' /\ simple_str (fst kx) = true /\
             ~ In (fst kx) (map fst props) /\ exists a, addl = Some a /\ Gv a (snd kx) u'.

Lemma Forall2_len : forall {A B} (R : A -> B -> Prop) l1 l2, Forall2 R l1 l2 -> length l1 = length l2.
Proof. intros A B R l1 l2 H. induction H; cbn [length]; congruence. Qed.

(* every word of the language spells a valid, ordered instance *)
Theorem slang_sound : forall s, schema_ok s -> forall u, slang s u -> exists v, Gv s v u.
Proof.
  induction s as [| | lo hi | minl maxl | c | prefix items minI maxI IHp IHi | props addl IHp IHa | l IH]
    using schema_ind'; intros Hok u Hu.
  - cbn in Hu. unfold l_lit in Hu. subst. exists JNull. split; [reflexivity|]. split; [reflexivity | exact I].
  - destruct Hu as [Hu|Hu]; unfold l_lit in Hu; subst; [exists (JBool true) | exists (JBool false)];
      (split; [reflexivity|]); (split; [eexists; reflexivity | exact I]).
  - cbn [slang] in Hu. unfold int_slang in Hu.
    destruct (rx_int_range int_fuel lo hi) as [rx|] eqn:E; [|contradiction].
    cbn [schema_ok] in Hok. destruct Hok as [H1 H2].
    apply (int_range_lang int_fuel lo hi rx (opt_ok_big _ H1) (opt_ok_big _ H2) E) in Hu.
    destruct Hu as (ds & Hc & [[-> Hin]|[-> [Hin _]]]).
    + exists (JInt (V ds)). split; [exists ds; split; [exact Hc|]; left; split; reflexivity|].
      split; [exists (V ds); split; [reflexivity | exact Hin] | exact I].
    + exists (JInt (- V ds)). split; [exists ds; split; [exact Hc|]; right; split; reflexivity|].
      split; [exists (- V ds)%Z; split; [reflexivity | exact Hin] | exact I].
  - destruct Hu as (c & -> & Hc & Hlo & Hhi). exists (JStr c). split; [reflexivity|].
    split; [exists c; auto | exact I].
  - cbn in Hu. unfold l_lit in Hu. subst. exists c. split; [apply ser_spells; exact Hok|].
    split; [reflexivity | exact I].
  - (* arrays *)
    apply schema_ok_arr in Hok. destruct Hok as [Hokp Hoki].
    cbn [slang] in Hu. destruct Hu as (ws & -> & Hmin & Hmax & Hslot & _).
    assert (IHi' : optP (fun a => forall u, slang a u -> exists v, Gv a v u) items).
    { destruct items; cbn [optP] in *; auto. }
    pose proof (Forall_mp _ _ _ IHp Hokp) as IHp'. cbn beta in IHp'.
    destruct (arr_sound items IHi' prefix IHp' ws Hslot) as (l & Hsp & Hv & Ho).
    pose proof (Forall2_len _ _ _ Hsp) as Hlen.
    exists (JArr l). split; [apply spells_arr; exists ws; split; [reflexivity | exact Hsp]|]. split.
    + apply valid_arr. exists l. rewrite Hlen. auto.
    + apply (ordered_arr prefix items minI maxI l). exact Ho.
  - (* objects *)
    apply schema_ok_obj in Hok. destruct Hok as (Hnd & Hokp & Hoka).
    rewrite slang_obj in Hu. destruct Hu as (ws & Hpk & ->).
    apply picks_app_inv in Hpk. destruct Hpk as (w1 & w2 & -> & Hp1 & Hp2).
    assert (IHp' : Forall (fun p : bytes * (schema * bool) =>
                             forall u, slang (fst (snd p)) u -> exists v, Gv (fst (snd p)) v u) props).
    { apply (Forall_mp (fun p : bytes * (schema * bool) => schema_ok (fst (snd p)))); [exact IHp|].
      eapply Forall_impl; [|exact Hokp]. intros p [_ H]. exact H. }
    destruct (picks_sound props IHp' w1 Hp1) as (listed & Hsub & Hl & Hreq).
    assert (Hex : exists extra ws', Forall2 (ext_rel props addl) extra ws' /\
                                    join_comma (w1 ++ w2) = join_comma (w1 ++ ws')).
    { destruct addl as [a|]; cbn [option_map extra_langs] in Hp2.
      - inversion Hp2 as [|L0 req rest e ws0 He Hr|L0 rest ws0 Hr]; subst.
        + apply picks_nil_inv in Hr. subst ws0. destruct He as (ws' & HF & Hne & ->).
          assert (HF' : Forall (fun w => exists kx, ext_rel props (Some a) kx w) ws').
          { eapply Forall_impl; [|exact HF]. intros w (c & u' & -> & Hc & Hn & Hu').
            destruct (IHa Hoka _ Hu') as (v & Hv). exists (c, v), u'. cbn [fst snd].
            split; [reflexivity|]. split; [exact Hc|]. split; [exact Hn|]. exists a. split; [reflexivity | exact Hv]. }
          apply Forall_choice in HF'. destruct HF' as (extra & Hext). exists extra, ws'.
          split; [exact Hext | now apply join_comma_flat].
        + apply picks_nil_inv in Hr. subst. exists [], []. split; [constructor | reflexivity].
      - apply picks_nil_inv in Hp2. subst. exists [], []. split; [constructor | reflexivity]. }
    destruct Hex as (extra & ws' & Hext & Hj).
    exists (JObj (listed ++ extra)). split; [|split].
    + apply spells_obj. exists (w1 ++ ws'). split; [rewrite Hj; reflexivity|]. apply Forall2_app.
      * eapply Forall2_mono_In; [|exact Hl]. intros kx w _ (s' & b & u' & _ & -> & Hs & _). now exists u'.
      * eapply Forall2_mono_In; [|exact Hext]. intros kx w _ (u' & -> & _ & _ & a & _ & Hs & _). now exists u'.
    + apply valid_obj. exists (listed ++ extra). split; [reflexivity|]. split.
      * apply Forall_app. split.
        -- eapply Forall2_Forall_l; [|exact Hl]. intros kx w (s' & b & u' & Hin & _ & _ & Hv & _).
           split.
           ++ rewrite Forall_forall in Hokp. apply (Hokp _ Hin).
           ++ unfold lookP. rewrite (lookup_in _ _ _ Hnd Hin). exact Hv.
        -- eapply Forall2_Forall_l; [|exact Hext]. intros kx w (u' & _ & Hc & Hn & a & -> & _ & Hv & _).
           split; [exact Hc|]. unfold lookP. apply lookup_none in Hn. rewrite Hn. exact Hv.
      * intros k s' Hin. rewrite map_app, in_app_iff. left. eapply Hreq. exact Hin.
    + apply ordered_obj. split.
      * exists listed, extra. split; [reflexivity|]. split; [exact Hsub|].
        eapply Forall2_Forall_l; [|exact Hext]. intros kx w (u' & _ & _ & Hn & _). now apply lookup_none.
      * apply Forall_app. split.
        -- eapply Forall2_Forall_l; [|exact Hl]. intros kx w (s' & b & u' & Hin & _ & _ & _ & Ho).
           unfold lookP. rewrite (lookup_in _ _ _ Hnd Hin). exact Ho.
        -- eapply Forall2_Forall_l; [|exact Hext]. intros kx w (u' & _ & Hc & Hn & a & -> & _ & _ & Ho).
           unfold lookP. apply lookup_none in Hn. rewrite Hn. exact Ho.
  - (* anyOf *)
    apply schema_ok_anyof in Hok. cbn [slang] in Hu. destruct Hu as (L & HL & Hu).
    apply in_map_iff in HL. destruct HL as (s' & <- & Hin).
    rewrite Forall_forall in IH, Hok. destruct (IH s' Hin (Hok s' Hin) u Hu) as (v & Hsp & Hv & Ho).
    exists v. split; [exact Hsp|]. split; [apply valid_anyof; eauto | apply ordered_anyof; eauto].
Qed.

Lemma slang_nonempty : forall s, schema_ok s -> nonempty_lang (slang s).
Proof.
  intros s Hok u Hu. destruct (slang_sound s Hok u Hu) as (v & Hs & _). eapply spells_nonempty. exact Hs.
Qed.

(* the compact serialisation of every valid, ordered instance is in the language *)
Theorem slang_complete : forall s, schema_ok s ->
  forall v, json_simple v -> valid s v -> ordered s v -> slang s (ser v).
Proof.
  induction s as [| | lo hi | minl maxl | c | prefix items minI maxI IHp IHi | props addl IHp IHa | l IH]
    using schema_ind'; intros Hok v Hs Hv Ho.
  - cbn [valid] in Hv. subst. reflexivity.
  - destruct Hv as [b ->]. destruct b; [left | right]; reflexivity.
  - destruct Hv as (z & -> & Hin). cbn [json_simple] in Hs. cbn [schema_ok] in Hok. destruct Hok as [H1 H2].
    cbn [slang ser]. unfold int_slang. destruct (int_opt_succeeds lo hi z H1 H2 Hin) as (rx & E). rewrite E.
    apply (int_range_lang int_fuel lo hi rx (opt_ok_big _ H1) (opt_ok_big _ H2) E).
    apply int_lang_literal; [unfold big; rewrite P10_80; exact Hs | exact Hin].
  - destruct Hv as (c & -> & Hc & Hlo & Hhi). exists c. auto.
  - cbn [valid] in Hv. subst. reflexivity.
  - (* arrays *)
    apply valid_arr in Hv. destruct Hv as (l & -> & Hmin & Hmax & Hp).
    apply ordered_arr in Ho. apply json_simple_arr in Hs.
    apply schema_ok_arr in Hok. destruct Hok as [Hokp Hoki].
    assert (IHi' : optP (fun a => forall v, json_simple v -> valid a v -> ordered a v -> slang a (ser v)) items).
    { destruct items; cbn [optP] in *; auto. }
    pose proof (Forall_mp _ _ _ IHp Hokp) as IHp'. cbn beta in IHp'.
    cbn [slang]. rewrite ser_arr. exists (map ser l). rewrite map_length.
    split; [reflexivity|]. split; [exact Hmin|]. split; [exact Hmax|]. split.
    + apply (arr_complete items IHi' prefix IHp' l Hs Hp Ho).
    + intros E. destruct items; [discriminate|]. rewrite map_length. pose proof (preP_len _ _ Hp). lia.
  - (* objects *)
    apply valid_obj in Hv. destruct Hv as (kvs & -> & Hm & Hreq).
    apply ordered_obj in Ho. destruct Ho as [(listed & extra & -> & Hsub & Hex) Hom].
    apply json_simple_obj in Hs.
    apply schema_ok_obj in Hok. destruct Hok as (Hnd & Hokp & Hoka).
    apply Forall_app in Hm, Hom, Hs. destruct Hm as [Hm1 Hm2]. destruct Hom as [Ho1 Ho2]. destruct Hs as [Hs1 Hs2].
    rewrite Forall_forall in Hm1, Hm2, Ho1, Ho2, Hs1, Hs2, Hex, IHp, Hokp.
    rewrite slang_obj, ser_obj.
    assert (Hp1 : picks (map (prop_lang slang) props) (map kv_ser listed)).
    { apply (picks_complete props listed); [exact Hnd | exact Hsub | |].
      - apply Forall2_map_r. intros [k x] Hin.
        assert (Hk : In k (map fst props)).
        { apply (is_subseq_In _ _ _ Hsub). change k with (fst (k, x)). now apply in_map. }
        destruct (lookup k props) as [[s' b]|] eqn:E; [|apply lookup_none in E; contradiction].
        pose proof (lookup_some_in _ _ _ E) as Hinp.
        destruct (Hm1 _ Hin) as [_ Hv]. pose proof (Ho1 _ Hin) as Hox. destruct (Hs1 _ Hin) as [_ Hsx].
        unfold lookP in Hv, Hox. cbn [fst snd] in *. rewrite E in Hv, Hox. cbn [fst] in Hv, Hox.
        exists s', b, (ser x). cbn [fst snd]. split; [exact Hinp|]. split; [reflexivity|].
        apply (IHp _ Hinp); [apply (Hokp _ Hinp) | exact Hsx | exact Hv | exact Hox].
      - intros k s' Hin. specialize (Hreq k s' Hin). rewrite map_app, in_app_iff in Hreq.
        destruct Hreq as [H|H]; [exact H|]. exfalso. apply in_map_iff in H. destruct H as (kx & <- & Hkx).
        apply Hex, lookup_none in Hkx. apply Hkx. change (fst kx) with (fst (fst kx, (s', true))). now apply in_map. }
    assert (Hp2 : exists w2, picks (extra_langs (map fst props) (option_map slang addl)) w2 /\
                             join_comma (map kv_ser listed ++ w2) = join_comma (map kv_ser (listed ++ extra))).
    { destruct extra as [|e extra'].
      - exists []. split.
        + destruct addl; cbn [option_map extra_langs]; [apply P_skip|]; constructor.
        + rewrite !app_nil_r. reflexivity.
      - assert (Ha : exists a, addl = Some a).
        { destruct (Hm2 e (or_introl eq_refl)) as [_ Hv]. unfold lookP in Hv.
          rewrite (Hex e (or_introl eq_refl)) in Hv. destruct addl as [a|]; [now exists a | destruct Hv]. }
        destruct Ha as (a & ->). exists [join_comma (map kv_ser (e :: extra'))]. split.
        + cbn [option_map extra_langs]. apply P_take; [|constructor].
          exists (map kv_ser (e :: extra')). split; [|split; [discriminate | reflexivity]].
          apply Forall_forall. intros w Hw. apply in_map_iff in Hw. destruct Hw as ([k x] & <- & Hin).
          destruct (Hm2 _ Hin) as [Hk Hv]. pose proof (Ho2 _ Hin) as Hox. destruct (Hs2 _ Hin) as [_ Hsx].
          pose proof (Hex _ Hin) as Hn. unfold lookP in Hv, Hox. cbn [fst snd] in *. rewrite Hn in Hv, Hox.
          exists k, (ser x). split; [reflexivity|]. split; [exact Hk|]. split; [now apply lookup_none|].
          cbn [optP] in IHa, Hoka. cbn [addV addO] in Hv, Hox. now apply IHa.
        + rewrite map_app. apply join_comma_flat. discriminate. }
    destruct Hp2 as (w2 & Hp2 & Hj). exists (map kv_ser listed ++ w2).
    split; [now apply picks_app | rewrite Hj; reflexivity].
  - (* anyOf *)
    apply schema_ok_anyof in Hok. apply valid_anyof in Hv. apply ordered_anyof in Ho.
    destruct Ho as (s' & Hin & Hv' & Ho'). rewrite Forall_forall in IH, Hok.
    cbn [slang]. exists (slang s'). split; [now apply in_map|]. exact (IH s' Hin (Hok s' Hin) v Hs Hv' Ho').
Qed.

(* ---------- the matcher of a schema realises its language ---------- *)
Lemma mlang_mfail : mlang m_fail (fun _ => False).
Proof. intros w r _. cbn. split; [intros [] | intros (u & _ & [])]. Qed.

Lemma mlang_memb : forall k m L, mlang m L -> mlang (m_seq (m_lit (ser_str k)) (m_seq colon m)) (memb k L).
Proof.
  intros k m L H. eapply mlang_ext; [|apply mlang_seq; [apply mlang_lit | apply mlang_seq; [apply mlang_lit | exact H]]].
  intros u. unfold memb, l_cat, l_lit. split.
  - intros (a & b & -> & -> & c & d & -> & -> & Hd). now exists d.
  - intros (u' & -> & Hu'). exists (ser_str k), (58 :: u'). split; [reflexivity|]. split; [reflexivity|].
    exists [58], u'. auto.
Qed.

Lemma mlang_omemb : forall taken m L,
  mlang m L -> mlang (m_seq (m_other_key taken) (m_seq colon m)) (omemb taken L).
Proof.
  intros taken m L H. eapply mlang_ext; [|apply mlang_seq; [apply mlang_okey | apply mlang_seq; [apply mlang_lit | exact H]]].
  intros u. unfold omemb, okey_lang, l_cat, l_lit. split.
  - intros (a & b & -> & (c & -> & Hc & Hn) & c' & d & -> & -> & Hd). exists c, d. auto.
  - intros (c & u' & -> & Hc & Hn & Hu'). exists (ser_str c), (58 :: u'). split; [reflexivity|].
    split; [exists c; auto|]. exists [58], u'. auto.
Qed.

Theorem slang_mlang : forall s, schema_ok s -> mlang (jm s) (slang s).
Proof.
  induction s as [| | lo hi | minl maxl | c | prefix items minI maxI IHp IHi | props addl IHp IHa | l IH]
    using schema_ind'; intros Hok.
  - apply mlang_lit.
  - apply mlang_alt; apply mlang_lit.
  - cbn [jm slang]. unfold m_int, int_slang. destruct (rx_int_range int_fuel lo hi); [apply mlang_regex | apply mlang_mfail].
  - cbn [jm slang]. unfold m_str. eapply mlang_ext; [|apply mlang_regex]. intros u. apply str_regex_lang.
  - apply mlang_lit.
  - (* arrays *)
    apply schema_ok_arr in Hok. destruct Hok as [Hokp Hoki].
    cbn [jm slang].
    eapply mlang_ext; [|apply (m_array_exact (map jm prefix) (option_map jm items) minI maxI
                                  (map slang prefix) (option_map slang items))].
    + intros u. unfold arr_lang. rewrite !map_length.
      split; intros (ws & H1 & H2 & H3 & H4 & H5); exists ws; (split; [exact H1|]); (split; [exact H2|]);
        (split; [exact H3|]); (split; [exact H4|]); intros E; apply H5; destruct items; try discriminate; reflexivity.
    + clear - IHp Hokp. induction prefix as [|p ps IHl]; cbn [map]; constructor.
      * inversion IHp; inversion Hokp; subst. auto.
      * inversion IHp; inversion Hokp; subst. auto.
    + apply Forall_forall. intros L HL. apply in_map_iff in HL. destruct HL as (p & <- & Hin).
      rewrite Forall_forall in Hokp. apply slang_nonempty. auto.
    + destruct items as [a|]; cbn [option_map optP] in *; [|exact I]. split; [auto | now apply slang_nonempty].
  - (* objects *)
    apply schema_ok_obj in Hok. destruct Hok as (Hnd & Hokp & Hoka).
    rewrite slang_obj. cbn [jm]. cbv zeta.
    set (items := map (fun p : bytes * (schema * bool) =>
                         (m_seq (m_lit (ser_str (fst p))) (m_seq colon (jm (fst (snd p)))), snd (snd p))) props).
    set (extra := match addl with
                  | Some a => [(m_bseq (m_seq (m_other_key (map fst props)) (m_seq colon (jm a))) 0 None, false)]
                  | None => []
                  end).
    assert (Hreal : realises (items ++ extra)
                      (map (prop_lang slang) props ++ extra_langs (map fst props) (option_map slang addl))).
    { unfold realises. apply Forall2_app.
      - subst items. clear - IHp Hokp. induction props as [|[k [s b]] ps IHl]; cbn [map]; constructor.
        + inversion IHp; inversion Hokp as [|? ? [_ Hs] ?]; subst. cbn [fst snd] in *. split; [|reflexivity].
          apply mlang_memb. auto.
        + inversion IHp; inversion Hokp; subst. auto.
      - subst extra. destruct addl as [a|]; cbn [option_map extra_langs optP] in *; constructor; [|constructor].
        cbn [fst snd]. split; [|reflexivity].
        pose proof (mlang_omemb (map fst props) (jm a) (slang a) (IHa Hoka)) as Hitem.
        eapply mlang_ext; [|apply (m_bseq_exact _ _ 0%nat None Hitem)].
        + intros u. unfold seq1_lang. split.
          * intros (ws & H1 & H2 & _ & _ & H3). exists ws. auto.
          * intros (ws & H1 & H2 & H3). exists ws. split; [exact H1|]. split; [exact H2|].
            split; [lia|]. split; [exact I | exact H3].
        + intros u (c & u' & -> & _). discriminate. }
    destruct (m_oseq_exact _ _ Hreal) as [Hos _].
    eapply mlang_ext; [|apply mlang_seq; [apply mlang_lit | apply mlang_seq; [exact Hos | apply mlang_lit]]].
    intros u. unfold obj_lang, l_cat, l_lit. split.
    + intros (a & b & -> & -> & c & d & -> & (ws & Hp & ->) & ->). exists ws. split; [exact Hp | reflexivity].
    + intros (ws & Hp & ->). exists [123], (join_comma ws ++ [125]). split; [reflexivity|]. split; [reflexivity|].
      exists (join_comma ws), [125]. split; [reflexivity|]. split; [|reflexivity]. exists ws. split; [exact Hp | reflexivity].
  - (* anyOf *)
    apply schema_ok_anyof in Hok. cbn [jm slang]. apply mlang_select.
    clear - IH Hok. induction l as [|p ps IHl]; cbn [map]; constructor.
    + inversion IH; inversion Hok; subst. auto.
    + inversion IH; inversion Hok; subst. auto.
Qed.

(*FIXED*) (* C06: every string the grammar admits spells a valid instance whose object members
   follow the schema's order *)
Theorem json_sound : forall s w,
  schema_ok s -> bytes_ok w -> jaccept s w = true ->
  exists v, spells v w /\ valid s v /\ ordered s v.
Proof.
  intros s w Hok Hw Hacc. unfold jaccept in Hacc. apply existsb_exists in Hacc.
  destruct Hacc as (r & Hin & Hr). destruct r; [|discriminate].
  apply (slang_mlang s Hok w [] Hw) in Hin. destruct Hin as (u & Hwu & Hu).
  rewrite app_nil_r in Hwu. subst u. exact (slang_sound s Hok w Hu).
Qed.

(*FIXED*) (* C07: every valid instance, serialised compactly with its members in the schema's
   order, is admitted *)
Theorem json_complete : forall s v,
  schema_ok s -> json_simple v -> valid s v -> ordered s v -> jaccept s (ser v) = true.
Proof.
  intros s v Hok Hs Hv Ho. unfold jaccept. apply existsb_exists. exists []. split; [|reflexivity].
  apply (slang_mlang s Hok (ser v) [] (ser_ok v Hs)). exists (ser v). split; [now rewrite app_nil_r|].
  now apply slang_complete.
Qed.

(* why completeness is stated for `ser v` and not for every spelling: "-0" spells 0, but the
   integer grammar admits it only for ranges with lo < 0 <= hi (or no bounds at all) *)
Example neg_zero_only_across_zero :
  (jaccept (SInt (Some 0%Z) (Some 5%Z)) [45; 48], jaccept (SInt (Some (-1)%Z) (Some 5%Z)) [45; 48],
   jaccept (SInt None None) [45; 48], jaccept (SInt None (Some 5%Z)) [45; 48]) = (false, true, true, false).
Proof. vm_compute. reflexivity. Qed.

Print Assumptions ser_spells.
Print Assumptions json_sound.
Print Assumptions json_complete.

