(* StopRunProofs.v — the stop-sequence controller over a whole run: with a stop expression S
   and ordinary tokens, the text returned over the run is exactly the decoded text up to but
   excluding the first match of S to complete (when several matches end at that byte, the
   shortest is removed), and the controller is stopped from that token on; if no match ever
   completes nothing is lost: returned text plus held-back text is the whole text.
   STATEMENTS MARKED (*FIXED*) MUST NOT CHANGE (if one is false for the model as written: keep
   the original in a comment, add the weakest hypothesis that makes it true, and prove a
   *_refuted lemma with the counterexample). *)
From LLG Require Import Base Regex RegexProofs Trie StopCtrl StopCtrlProofs.

(* an ordinary token: non-empty text, not a special token, bytes < 256 *)
Definition ordinary (tr : trie) (t : tokid) : Prop :=
  match token tr t with
  | [] => False
  | x :: w => x <> marker /\ bytes_ok (x :: w)
  end.

(* a non-empty match of S ends exactly at position p of the text *)
Definition match_ends_at (S : regex) (text : bytes) (p n : nat) : Prop :=
  (0 < n)%nat /\ (n <= p)%nat /\ (p <= length text)%nat /\
  re_lang S (skipn (p - n) (firstn p text)).

Definition final_state (tr : trie) (S : regex) (ts : list tokid) : sc :=
  fold_left (fun s t => snd (sc_commit tr [] (Some S) s t)) ts sc_init.

(* ------------------------------------------------------------------ *)
(* list helpers                                                         *)
(* ------------------------------------------------------------------ *)

Lemma firstn_app_ge : forall {A} (l1 l2 : list A) k, (length l1 <= k)%nat ->
  firstn k (l1 ++ l2) = l1 ++ firstn (k - length l1) l2.
Proof. intros A l1 l2 k H. rewrite firstn_app, firstn_all2 by assumption. reflexivity. Qed.

Lemma firstn_app_le : forall {A} (l1 l2 : list A) k, (k <= length l1)%nat ->
  firstn k (l1 ++ l2) = firstn k l1.
Proof.
  intros A l1 l2 k H. rewrite firstn_app.
  replace (k - length l1)%nat with 0%nat by lia. rewrite firstn_O. apply app_nil_r.
Qed.

Lemma concat_all_nil : forall {A} (l : list (list A)), Forall (fun o => o = []) l -> concat l = [].
Proof.
  intros A l H. induction H as [|x l Hx _ IH]; cbn [concat]; [reflexivity|].
  rewrite Hx, IH. reflexivity.
Qed.

(* ------------------------------------------------------------------ *)
(* match_ends_at only looks at the prefix of length p                   *)
(* ------------------------------------------------------------------ *)

Lemma mea_prefix : forall rx u v p n, (p <= length u)%nat ->
  (match_ends_at rx (u ++ v) p n <-> match_ends_at rx u p n).
Proof.
  intros rx u v p n Hp. unfold match_ends_at. rewrite firstn_app_le by assumption.
  rewrite app_length. split; intros (H1 & H2 & H3 & H4); repeat split; try assumption; lia.
Qed.

Lemma mea_end : forall rx u n,
  match_ends_at rx u (length u) n <-> ((0 < n)%nat /\ ends_with_match rx u n).
Proof.
  intros rx u n. unfold match_ends_at, ends_with_match. rewrite firstn_all. split.
  - intros (H1 & H2 & _ & H4). auto.
  - intros (H1 & H2 & H4). repeat split; auto.
Qed.

Lemma mea_at : forall rx u v n,
  match_ends_at rx (u ++ v) (length u) n <-> ((0 < n)%nat /\ ends_with_match rx u n).
Proof. intros rx u v n. rewrite mea_prefix by lia. apply mea_end. Qed.

(* ------------------------------------------------------------------ *)
(* the partials are kept youngest first (strictly increasing lengths)   *)
(* ------------------------------------------------------------------ *)

Fixpoint ps_sorted (lo : nat) (ps : partials) : Prop :=
  match ps with
  | [] => True
  | (_, n) :: ps' => (lo <= n)%nat /\ ps_sorted (Datatypes.S n) ps'
  end.

Lemma ps_sorted_weaken : forall ps lo lo', (lo' <= lo)%nat -> ps_sorted lo ps -> ps_sorted lo' ps.
Proof.
  intros [|[r n] ps] lo lo' Hle H; cbn [ps_sorted] in *; [exact I|].
  destruct H as [H1 H2]. split; [lia | assumption].
Qed.

Lemma ps_sorted_in : forall ps lo r n, ps_sorted lo ps -> In (r, n) ps -> (lo <= n)%nat.
Proof.
  induction ps as [|[r0 n0] ps IH]; intros lo r n Hs Hin; cbn [ps_sorted In] in *; [contradiction|].
  destruct Hs as [H1 H2]. destruct Hin as [E|Hin].
  - inversion E; subst. exact H1.
  - specialize (IH _ _ _ H2 Hin). lia.
Qed.

Definition stepf (b : byte) : regex * nat -> option (regex * nat) :=
  fun '(r, n) => let d := deriv r b in
                 if is_empty_syn d then None else if nonempty d then Some (d, Datatypes.S n) else None.

Lemma step_partials_eq : forall rx ps b, step_partials rx ps b = optmap (stepf b) ((rx, O) :: ps).
Proof. reflexivity. Qed.

Lemma ps_sorted_optmap : forall b ps lo,
  ps_sorted lo ps -> ps_sorted (Datatypes.S lo) (optmap (stepf b) ps).
Proof.
  intros b. induction ps as [|[r n] ps IH]; intros lo Hs; cbn [optmap ps_sorted] in *; [exact I|].
  destruct Hs as [H1 H2]. specialize (IH _ H2).
  unfold stepf at 1. cbv zeta.
  destruct (is_empty_syn (deriv r b)).
  { apply ps_sorted_weaken with (lo := Datatypes.S (Datatypes.S n)); [lia | assumption]. }
  destruct (nonempty (deriv r b)).
  - cbn [ps_sorted]. split; [lia | assumption].
  - apply ps_sorted_weaken with (lo := Datatypes.S (Datatypes.S n)); [lia | assumption].
Qed.

Lemma step_partials_sorted : forall rx ps b,
  ps_sorted 1 ps -> ps_sorted 1 (step_partials rx ps b).
Proof.
  intros rx ps b H. rewrite step_partials_eq. apply ps_sorted_optmap.
  cbn [ps_sorted]. split; [lia | assumption].
Qed.

Lemma completed_cons : forall r n ps,
  completed ((r, n) :: ps) = if nullable r then Some n else completed ps.
Proof. intros r n ps. unfold completed. cbn [find]. destruct (nullable r); reflexivity. Qed.

(* `completed` reports the shortest nullable entry *)
Lemma completed_min : forall ps lo r n,
  ps_sorted lo ps -> In (r, n) ps -> nullable r = true ->
  exists m, completed ps = Some m /\ (m <= n)%nat.
Proof.
  induction ps as [|[r0 n0] ps IH]; intros lo r n Hs Hin Hnull; [contradiction|].
  rewrite completed_cons. destruct (nullable r0) eqn:E0.
  - exists n0. split; [reflexivity|].
    apply (ps_sorted_in ((r0, n0) :: ps) n0 r n); [|assumption].
    cbn [ps_sorted] in *. split; [lia | apply Hs].
  - destruct Hin as [E|Hin]; [inversion E; subst; congruence|].
    cbn [ps_sorted] in Hs. destruct Hs as [_ Hs]. exact (IH _ _ _ Hs Hin Hnull).
Qed.

(* held_len bounds every entry *)
Lemma fold_max_ge : forall (ps : partials) m0,
  (m0 <= fold_left (fun m '(_, n) => Nat.max m n) ps m0)%nat.
Proof.
  induction ps as [|[r0 n0] ps IH]; intros m0; cbn [fold_left]; [lia|].
  specialize (IH (Nat.max m0 n0)). lia.
Qed.

Lemma fold_max_in : forall (ps : partials) m0 r n, In (r, n) ps ->
  (n <= fold_left (fun m '(_, n) => Nat.max m n) ps m0)%nat.
Proof.
  induction ps as [|[r0 n0] ps IH]; intros m0 r n Hin; [contradiction|]. cbn [fold_left].
  destruct Hin as [E|Hin].
  - inversion E; subst. pose proof (fold_max_ge ps (Nat.max m0 n)). lia.
  - exact (IH _ r n Hin).
Qed.

Lemma held_len_ge : forall ps r n, In (r, n) ps -> (n <= held_len ps)%nat.
Proof. intros ps r n H. unfold held_len. exact (fold_max_in ps O r n H). Qed.

(* ------------------------------------------------------------------ *)
(* the invariant of `feed`                                              *)
(* ------------------------------------------------------------------ *)

(* seg: all bytes fed since the last reset; buf: the bytes not yet returned *)
Definition feed_inv (rx : regex) (seg : bytes) (ps : partials) (buf : bytes) : Prop :=
  bytes_ok seg /\ partials_live rx seg ps /\ ps_sorted 1 ps /\
  (forall r n, In (r, n) ps -> (n <= length buf)%nat).

Lemma feed_inv_step : forall rx seg ps buf b,
  b < 256 -> feed_inv rx seg ps buf ->
  feed_inv rx (seg ++ [b]) (step_partials rx ps b) (buf ++ [b]).
Proof.
  intros rx seg ps buf b Hb (Hok & Hlive & Hsort & Hbnd). split; [|split; [|split]].
  - unfold bytes_ok in *. apply Forall_app. split; [assumption|]. constructor; [assumption | constructor].
  - now apply step_partials_live.
  - now apply step_partials_sorted.
  - intros r' n' Hin. apply in_step_partials in Hin as (r & n & Hin & _ & -> & _).
    rewrite app_length. cbn [length]. destruct Hin as [E|Hin].
    + inversion E; subst. lia.
    + specialize (Hbnd _ _ Hin). lia.
Qed.

Lemma feed_spec : forall rx w ps buf seg out ps' stopped,
  bytes_ok w -> feed_inv rx seg ps buf -> feed rx ps buf w = (out, ps', stopped) ->
  (stopped = false /\ out = buf ++ w /\ feed_inv rx (seg ++ w) ps' (buf ++ w) /\
     (forall p n, (length seg < p)%nat -> ~ match_ends_at rx (seg ++ w) p n))
  \/
  (stopped = true /\ exists p m, (length seg < p)%nat /\ match_ends_at rx (seg ++ w) p m /\
     (forall n, match_ends_at rx (seg ++ w) p n -> (m <= n)%nat) /\
     (forall p' n, (length seg < p')%nat -> (p' < p)%nat -> ~ match_ends_at rx (seg ++ w) p' n) /\
     (m <= length buf + (p - length seg))%nat /\
     out = firstn (length buf + (p - length seg) - m) (buf ++ w)).
Proof.
  intros rx. induction w as [|b w IH]; intros ps buf seg out ps' stopped Hw Hinv Hf; cbn [feed] in Hf.
  - injection Hf as <- <- <-. left. rewrite !app_nil_r. split; [reflexivity|]. split; [reflexivity|].
    split; [assumption|]. intros p n Hp (H1 & H2 & H3 & _). lia.
  - cbv zeta in Hf. inversion Hw as [|b0 w0 Hb Hw']; subst b0 w0.
    pose proof (feed_inv_step rx seg ps buf b Hb Hinv) as Hinv1.
    assert (Eseg : seg ++ b :: w = (seg ++ [b]) ++ w) by (rewrite <- app_assoc; reflexivity).
    assert (Ebuf : buf ++ b :: w = (buf ++ [b]) ++ w) by (rewrite <- app_assoc; reflexivity).
    assert (Hlen : length (seg ++ [b]) = Datatypes.S (length seg)) by (rewrite app_length; cbn [length]; lia).
    assert (Hlenb : length (buf ++ [b]) = Datatypes.S (length buf)) by (rewrite app_length; cbn [length]; lia).
    pose proof Hinv1 as (Hok1 & Hlive1 & Hsort1 & Hbnd1).
    destruct (completed (step_partials rx ps b)) as [m|] eqn:Ec.
    + injection Hf as <- <- <-. right. split; [reflexivity|].
      exists (Datatypes.S (length seg)), m.
      destruct (completed_sound_live _ _ _ _ Hok1 Hlive1 Ec) as [Hm Hpos].
      split; [lia|]. split; [|split; [|split; [|split]]].
      * rewrite Eseg, <- Hlen. apply mea_at. split; assumption.
      * intros n Hn. rewrite Eseg, <- Hlen in Hn. apply mea_at in Hn as [Hnpos [Hle Hl]].
        destruct Hlive1 as [_ Hbk].
        assert (Hnull : re_lang (deriv_word rx (skipn (length (seg ++ [b]) - n) (seg ++ [b]))) []).
        { apply deriv_word_correct; [now apply skipn_bytes_ok | now rewrite app_nil_r]. }
        assert (Hin : In (deriv_word rx (skipn (length (seg ++ [b]) - n) (seg ++ [b])), n)
                         (step_partials rx ps b)).
        { apply Hbk; try assumption. exists []. split; [constructor | assumption]. }
        apply nullable_correct in Hnull.
        destruct (completed_min _ _ _ _ Hsort1 Hin Hnull) as (m' & Hm' & Hle').
        rewrite Ec in Hm'. injection Hm' as <-. exact Hle'.
      * intros p' n H1 H2. lia.
      * apply completed_some in Ec as (r & Hin & _). specialize (Hbnd1 _ _ Hin). rewrite app_length in Hbnd1. cbn [length] in Hbnd1. lia.
      * rewrite Ebuf. rewrite (firstn_app_le (buf ++ [b]) w) by (rewrite app_length; cbn [length]; lia).
        f_equal. rewrite app_length. cbn [length]. lia.
    + destruct (IH _ (buf ++ [b]) (seg ++ [b]) out ps' stopped Hw' Hinv1 Hf)
        as [(-> & -> & Hinv' & Hno) | (-> & p & m & Hp & Hm & Hmin & Hfirst & Hbnd & Hout)].
      * left. rewrite Eseg, Ebuf. split; [reflexivity|]. split; [reflexivity|].
        split; [assumption|]. intros p n Hp Hmea.
        destruct (Nat.eq_dec p (length (seg ++ [b]))) as [->|Hne].
        -- apply mea_at in Hmea as [Hpos Hmea].
           destruct (completed_complete_live _ _ _ _ Hok1 Hlive1 Hmea Hpos) as [m' Hm']. congruence.
        -- apply (Hno p n); [lia | assumption].
      * right. split; [reflexivity|]. exists p, m. rewrite Eseg, Ebuf.
        split; [lia|]. split; [assumption|]. split; [assumption|]. split; [|split].
        -- intros p' n H1 H2 Hmea.
           destruct (Nat.eq_dec p' (length (seg ++ [b]))) as [->|Hne].
           ++ apply mea_at in Hmea as [Hpos Hmea].
              destruct (completed_complete_live _ _ _ _ Hok1 Hlive1 Hmea Hpos) as [m' Hm']. congruence.
           ++ apply (Hfirst p' n); [lia | assumption | assumption].
        -- lia.
        -- rewrite Hout. f_equal. lia.
Qed.

(* ------------------------------------------------------------------ *)
(* one ordinary token                                                   *)
(* ------------------------------------------------------------------ *)

Lemma ordinary_bytes_ok : forall tr t, ordinary tr t -> bytes_ok (token tr t).
Proof. intros tr t H. unfold ordinary in H. destruct (token tr t); [contradiction | apply H]. Qed.

Lemma tok_text_ordinary : forall tr t, ordinary tr t -> tok_text tr t = token tr t.
Proof.
  intros tr t H. unfold ordinary in H. unfold tok_text. destruct (token tr t) as [|x w]; [contradiction|].
  destruct H as [Hx _]. apply N.eqb_neq in Hx. rewrite Hx. reflexivity.
Qed.

Lemma map_tok_text_ordinary : forall tr ts, Forall (ordinary tr) ts ->
  map (tok_text tr) ts = map (token tr) ts.
Proof.
  intros tr ts H. induction H as [|t ts Ht _ IH]; cbn [map]; [reflexivity|].
  rewrite IH, (tok_text_ordinary _ _ Ht). reflexivity.
Qed.

Lemma sc_commit_ordinary : forall tr rx st t,
  sc_stopped st = false -> ordinary tr t ->
  sc_commit tr [] (Some rx) st t =
    let '(out, ps, stopped) := feed rx (sc_partials st) (sc_pending st) (token tr t) in
    if stopped then (out, mk_sc true ps [])
    else
      let to_return := (length out - held_len ps)%nat in
      let valid := valid_utf8_len (firstn to_return out) in
      (firstn valid out, mk_sc false ps (skipn valid out)).
Proof.
  intros tr rx st t Hst Ht. unfold sc_commit, ordinary in *. rewrite Hst. cbn [existsb].
  destruct (token tr t) as [|x w]; [contradiction|].
  destruct Ht as [Hx _]. apply N.eqb_neq in Hx. rewrite Hx. reflexivity.
Qed.

(* ------------------------------------------------------------------ *)
(* the whole run                                                        *)
(* ------------------------------------------------------------------ *)

(* pre: the decoded text so far *)
Definition run_inv (rx : regex) (pre : bytes) (st : sc) : Prop :=
  sc_stopped st = false /\ feed_inv rx pre (sc_partials st) (sc_pending st).

Lemma run_char : forall tr rx ts pre outsf st,
  Forall (ordinary tr) ts -> run_inv rx pre st -> outsf ++ sc_pending st = pre ->
  let text := pre ++ concat (map (token tr) ts) in
  let fin := fold_left (fun s t => snd (sc_commit tr [] (Some rx) s t)) ts st in
  (sc_stopped fin = false /\
   forall p n, (length pre < p)%nat -> ~ match_ends_at rx text p n)
  \/
  (sc_stopped fin = true /\ exists p m,
     (length pre < p)%nat /\ match_ends_at rx text p m /\
     (forall n, match_ends_at rx text p n -> (m <= n)%nat) /\
     (forall p' n, (length pre < p')%nat -> (p' < p)%nat -> ~ match_ends_at rx text p' n) /\
     outsf ++ concat (sc_run tr [] (Some rx) st ts) = firstn (p - m) text).
Proof.
  intros tr rx. induction ts as [|t ts IH]; intros pre outsf st Hord Hinv Hpre;
    cbn [map concat fold_left sc_run]; cbv zeta.
  - left. split; [apply Hinv|]. intros p n Hp (_ & _ & H3 & _). rewrite app_nil_r in H3. lia.
  - inversion Hord as [|t0 ts0 Ht Hts]; subst t0 ts0. destruct Hinv as [Hst Hfi].
    pose proof (sc_commit_ordinary tr rx st t Hst Ht) as Hc.
    pose proof (ordinary_bytes_ok tr t Ht) as Hw.
    set (w := token tr t) in *.
    set (rest := concat (map (token tr) ts)) in *.
    assert (Hlenpre : length pre = (length outsf + length (sc_pending st))%nat)
      by (rewrite <- Hpre; apply app_length).
    destruct (feed rx (sc_partials st) (sc_pending st) w) as [[out ps] stopped] eqn:Ef.
    destruct (feed_spec _ _ _ _ _ _ _ _ Hw Hfi Ef)
      as [(-> & -> & Hfi' & Hno) | (-> & p & m & Hp & Hm & Hmin & Hfirst & Hbnd & Hout)];
      cbv beta iota zeta in Hc; rewrite Hc; cbn [snd].
    + (* the token does not complete a match *)
      set (out := sc_pending st ++ w) in *.
      set (valid := valid_utf8_len (firstn (length out - held_len ps) out)) in *.
      assert (Hvalid : (valid <= length out - held_len ps)%nat).
      { unfold valid. pose proof (proj1 (valid_utf8_len_bounds (firstn (length out - held_len ps) out))) as H.
        rewrite firstn_length in H. lia. }
      assert (Hinv1 : run_inv rx (pre ++ w) (mk_sc false ps (skipn valid out))).
      { split; [reflexivity|]. cbn [sc_partials sc_pending].
        destruct Hfi' as (H1 & H2 & H3 & H4). split; [assumption|]. split; [assumption|].
        split; [assumption|]. intros r n Hin. rewrite skipn_length.
        pose proof (H4 _ _ Hin). pose proof (held_len_ge _ _ _ Hin). lia. }
      assert (Hpre1 : (outsf ++ firstn valid out) ++ sc_pending (mk_sc false ps (skipn valid out)) = pre ++ w).
      { cbn [sc_pending]. rewrite <- app_assoc, firstn_skipn. unfold out. rewrite app_assoc, Hpre. reflexivity. }
      specialize (IH (pre ++ w) (outsf ++ firstn valid out) _ Hts Hinv1 Hpre1). cbv zeta in IH.
      fold rest in IH. rewrite <- !app_assoc in IH.
      assert (Hlenw : length (pre ++ w) = (length pre + length w)%nat) by apply app_length.
      assert (Hnow : forall p n, (length pre < p)%nat -> (p <= length (pre ++ w))%nat ->
                       ~ match_ends_at rx (pre ++ w ++ rest) p n).
      { intros p n H1 H2 Hmea. rewrite app_assoc in Hmea. rewrite mea_prefix in Hmea by assumption.
        exact (Hno p n H1 Hmea). }
      destruct IH as [(Hfin & Hno') | (Hfin & p & m & Hp & Hm & Hmin & Hfirst & Hout)].
      * left. split; [assumption|]. intros p n Hp Hmea.
        destruct (le_lt_dec p (length (pre ++ w))) as [Hle|Hlt].
        -- exact (Hnow p n Hp Hle Hmea).
        -- exact (Hno' p n Hlt Hmea).
      * right. split; [assumption|]. exists p, m.
        split; [lia|]. split; [assumption|]. split; [assumption|]. split.
        -- intros p' n H1 H2 Hmea.
           destruct (le_lt_dec p' (length (pre ++ w))) as [Hle|Hlt].
           ++ exact (Hnow p' n H1 Hle Hmea).
           ++ exact (Hfirst p' n Hlt H2 Hmea).
        -- cbn [concat]. exact Hout.
    + (* the token completes a match *)
      right. split; [apply fold_stopped; reflexivity|]. exists p, m.
      assert (Hple : (p <= length (pre ++ w))%nat) by (destruct Hm as (_ & _ & H & _); exact H).
      assert (Hlenw : length (pre ++ w) = (length pre + length w)%nat) by apply app_length.
      split; [assumption|]. split; [|split; [|split]].
      * rewrite app_assoc. apply mea_prefix; assumption.
      * intros n Hn. rewrite app_assoc in Hn. rewrite mea_prefix in Hn by assumption. now apply Hmin.
      * intros p' n H1 H2 Hmea. rewrite app_assoc in Hmea. rewrite mea_prefix in Hmea by lia.
        exact (Hfirst p' n H1 H2 Hmea).
      * cbn [concat].
        rewrite (concat_all_nil _ (silent_after_stop tr [] (Some rx) (mk_sc true ps []) ts eq_refl)).
        rewrite app_nil_r, Hout, <- Hpre, <- !app_assoc.
        rewrite (app_length outsf (sc_pending st)).
        rewrite (firstn_app_ge outsf (sc_pending st ++ w ++ rest)) by lia. f_equal.
        rewrite (app_assoc (sc_pending st) w rest).
        rewrite (firstn_app_le (sc_pending st ++ w) rest) by (rewrite app_length; lia).
        f_equal. lia.
Qed.

Lemma run_inv_init : forall rx, run_inv rx [] sc_init.
Proof.
  intros rx. split; [reflexivity|]. cbn [sc_init sc_partials sc_pending].
  split; [constructor|]. split; [apply partials_live_nil|]. split; [exact I|]. intros r n [].
Qed.

(*FIXED*) (* a match completes: everything before the removed match is returned, nothing else,
   and the controller is stopped *)
Theorem run_stops_at_first_match : forall tr S ts p n,
  Forall (ordinary tr) ts ->
  let text := concat (map (token tr) ts) in
  match_ends_at S text p n ->
  (forall p' n', match_ends_at S text p' n' -> (p <= p')%nat) ->      (* first position *)
  (forall n', match_ends_at S text p n' -> (n <= n')%nat) ->           (* shortest there *)
  concat (sc_run tr [] (Some S) sc_init ts) = firstn (p - n) text /\
  sc_stopped (final_state tr S ts) = true.
Proof.
  intros tr rx ts p n Hord text Hm Hfirst Hshort. subst text. unfold final_state.
  destruct (run_char tr rx ts [] [] sc_init Hord (run_inv_init rx) eq_refl)
    as [(_ & Hno) | (Hfin & p0 & m & Hp0 & Hm0 & Hmin & Hfst & Hout)];
    cbn [app length] in *.
  - exfalso. apply (Hno p n); [|exact Hm]. destruct Hm as (H1 & H2 & _). lia.
  - assert (Hpp : p = p0).
    { pose proof (Hfirst _ _ Hm0) as H1.
      destruct (le_lt_dec p0 p) as [H2|H2]; [lia|]. exfalso.
      apply (Hfst p n); [|assumption|exact Hm]. destruct Hm as (H3 & H4 & _). lia. }
    subst p0.
    assert (Hnm : n = m).
    { pose proof (Hshort _ Hm0). pose proof (Hmin _ Hm). lia. }
    subst m. split; assumption.
Qed.

(*FIXED*) (* no match completes: not stopped, and returned text plus held-back text is the text *)
Theorem run_without_match : forall tr S ts,
  Forall (ordinary tr) ts ->
  let text := concat (map (token tr) ts) in
  (forall p n, ~ match_ends_at S text p n) ->
  sc_stopped (final_state tr S ts) = false /\
  concat (sc_run tr [] (Some S) sc_init ts) ++ sc_pending (final_state tr S ts) = text.
Proof.
  intros tr rx ts Hord text Hno. subst text. unfold final_state.
  destruct (run_char tr rx ts [] [] sc_init Hord (run_inv_init rx) eq_refl)
    as [(Hfin & _) | (_ & p0 & m & _ & Hm0 & _)];
    cbn [app length] in *.
  - split; [assumption|].
    rewrite (output_plus_pending_aux tr [] (Some rx) ts sc_init eq_refl Hfin).
    cbn [sc_init sc_pending app]. rewrite (map_tok_text_ordinary _ _ Hord). reflexivity.
  - exfalso. exact (Hno _ _ Hm0).
Qed.

(*FIXED*) (* what is returned never ends inside a UTF-8 character, as far as the cut is concerned:
   while running, each returned piece is a prefix of the available text cut by valid_utf8_len *)
Theorem returned_piece_is_utf8_cut : forall tr S st t o st',
  sc_stopped st = false -> ordinary tr t ->
  sc_commit tr [] (Some S) st t = (o, st') -> sc_stopped st' = false ->
  exists avail, o = firstn (valid_utf8_len avail) (sc_pending st ++ token tr t) /\
                (exists k, avail = firstn k (sc_pending st ++ token tr t)).
Proof.
  intros tr rx st t o st' Hst Ht Hc Hst'. rewrite (sc_commit_ordinary tr rx st t Hst Ht) in Hc.
  destruct (feed rx (sc_partials st) (sc_pending st) (token tr t)) as [[out ps] stopped] eqn:Ef.
  destruct stopped.
  - injection Hc as <- <-. discriminate Hst'.
  - cbv zeta in Hc. injection Hc as <- <-.
    rewrite (feed_no_stop _ _ _ _ _ _ Ef).
    eexists. split; [reflexivity|]. eexists. reflexivity.
Qed.

Print Assumptions run_stops_at_first_match.
Print Assumptions run_without_match.
Print Assumptions returned_piece_is_utf8_cut.
