(* Run08.v — case runner for C08 (harness/src/c08.rs): the regexes of the model of
   numeric.rs decide each literal *)
From Coq Require Import String.
From LLG Require Import Base Params Sx Regex Numeric IntBounds.
Open Scope string_scope.
Open Scope N_scope.

Definition is_none (x : sx) : bool := match x with SY n => bytes_eqb n (sym "none") | _ => false end.
Definition optz (x : sx) : option Z := if is_none x then None else Some (as_z x).
Definition digits_of_bytes (b : bytes) : list Z := map (fun c => Z.of_N c - 48)%Z b.
Definition dec_of_sx (x : sx) : dec :=
  let a := as_list x in
  mk_dec (as_bool (nth_sx a 0)) (digits_of_bytes (as_bytes (nth_sx a 1))) (digits_of_bytes (as_bytes (nth_sx a 2))).
Definition bound_of_sx (x : sx) : option (dec * bool) :=
  if is_none x then None else
  let a := as_list x in Some (dec_of_sx (nth_sx a 0), as_bool (nth_sx a 1)).

Definition run_case08 (x : sx) : sx :=
  let h := head_sym x in
  let a := tail_items x in
  let is s := bytes_eqb h (sym s) in
  if is "intrange" then
    match rx_int_range int_fuel (optz (nth_sx a 0)) (optz (nth_sx a 1)) with
    | NErr => tagged "err" []
    | NOk r =>
        let r := normalize r in
        tagged "ok" (map (fun z => sb (re_match r (int_literal (as_z z)))) (as_list (nth_sx a 2)))
    end
  else if is "floatrange" then
    let lo := bound_of_sx (nth_sx a 0) in
    let hi := bound_of_sx (nth_sx a 1) in
    match rx_float_range float_fuel (option_map fst lo) (option_map fst hi)
                         (match lo with Some (_, i) => i | None => false end)
                         (match hi with Some (_, i) => i | None => false end) with
    | NErr => tagged "err" []
    | NOk r =>
        let r := normalize r in
        tagged "ok" (map (fun s => sb (re_match r (as_bytes s))) (as_list (nth_sx a 2)))
    end
  else if is "intbounds" then
    (* integer schema with fractional / exclusive bounds: (dec excl) | none, twice, then integer literals *)
    match rx_int_bounds (bound_of_sx (nth_sx a 0)) (bound_of_sx (nth_sx a 1)) with
    | NErr => tagged "err" []
    | NOk r =>
        let r := normalize r in
        tagged "ok" (map (fun z => sb (re_match r (int_literal (as_z z)))) (as_list (nth_sx a 2)))
    end
  else if is "lcm" then
    (* allOf of two integer multipleOf: combined by Decimal::lcm, then matched by derivre *)
    match decimal_lcm LCM_CHECKED (as_z (nth_sx a 0), 0%Z) (as_z (nth_sx a 1), 0%Z) with
    | None => tagged "err" []
    | Some (c, e) =>
        if negb (multiple_of_compiles MULTIPLE_OF_GUARD c e) then tagged "err" [] else
        tagged "ok" (map (fun z => sb (if (e =? 0)%Z then multiple_of_accepts_int c (digits_of (as_z z))
                                        else ((as_z z * 10 ^ e) mod c =? 0)%Z)) (as_list (nth_sx a 2)))
    end
  else if is "multof" then
    let c := as_z (nth_sx a 0) in
    if negb (multiple_of_compiles MULTIPLE_OF_GUARD c 0%Z) then tagged "err" [] else
    tagged "ok" (map (fun z => sb (multiple_of_accepts_int c (digits_of (as_z z)))) (as_list (nth_sx a 1)))
  else SL [SY (sym "unknown")].
