(* Substring.v — specification of `%regex { "substring_*": ... }` (parser/src/substring.rs):
   the expression denotes exactly the contiguous runs of chunks of the source text (the
   empty run included).  The implementation builds it with a suffix automaton; here it is
   the plain union over all start positions of the chains of following chunks.  Definitions only. *)
From LLG Require Import Base Regex.
Open Scope N_scope.

(* "", c1, c1 c2, c1 c2 c3, ... *)
Fixpoint prefixes_rx (chunks : list bytes) : regex :=
  match chunks with
  | [] => Eps
  | c :: r => Alt Eps (Cat (lit c) (prefixes_rx r))
  end.

Fixpoint substring_rx (chunks : list bytes) : regex :=
  match chunks with
  | [] => Eps
  | _ :: r => Alt (prefixes_rx chunks) (substring_rx r)
  end.

(* a contiguous run of chunks: n chunks starting at position i *)
Definition chunk_run (chunks : list bytes) (w : bytes) : Prop :=
  exists i n, w = concat (firstn n (skipn i chunks)).
