(* Tokenizers.v — model of the tokenizer-description adapters
   (toktrie_hf_tokenizers/src/lib.rs: byte-level and byte-fallback tokenizer.json;
    toktrie_tiktoken/src/lib.rs: rank tables): which bytes a vocabulary entry stands for.
   Definitions only. *)
From LLG Require Import Base Trie.
Open Scope N_scope.

(* ---------- byte-level (GPT-2 style) alphabet ---------- *)
(* is_self_mapped: the code points that stand for themselves; given as inclusive ranges
   (read from the source into Params.SELF_MAPPED_RANGES) *)
Definition self_mapped (ranges : list (N * N)) (c : N) : bool :=
  existsb (fun r : N * N => (fst r <=? c) && (c <=? snd r)) ranges.

(* build_char_map: bytes 0..255 in order; a byte that is not self-mapped gets the next code
   point from 256 upwards.  Result: (code point, byte) pairs *)
Fixpoint char_map_from (ranges : list (N * N)) (bs : list N) (k : N) : list (N * N) :=
  match bs with
  | [] => []
  | b :: r => if self_mapped ranges b then (b, b) :: char_map_from ranges r k
              else (k, b) :: char_map_from ranges r (k + 1)
  end.
Definition char_map (ranges : list (N * N)) : list (N * N) := char_map_from ranges (seqN 0 256) 256.

Definition byte_of_char (ranges : list (N * N)) (c : N) : option byte :=
  option_map snd (find (fun p : N * N => fst p =? c) (char_map ranges)).
Definition char_of_byte (ranges : list (N * N)) (b : byte) : N :=
  match find (fun p : N * N => snd p =? b) (char_map ranges) with Some p => fst p | None => 0 end.

(* a vocabulary entry given as code points; None = "missing char" (the entry is skipped) *)
Fixpoint decode_byte_level (ranges : list (N * N)) (chars : list N) : option bytes :=
  match chars with
  | [] => Some []
  | c :: r => match byte_of_char ranges c, decode_byte_level ranges r with
              | Some b, Some w => Some (b :: w)
              | _, _ => None
              end
  end.
Definition encode_byte_level (ranges : list (N * N)) (w : bytes) : list N := map (char_of_byte ranges) w.

(* ---------- byte-fallback (SentencePiece style) entries, names as UTF-8 bytes ---------- *)
Definition hex_val (c : byte) : option N :=
  if (48 <=? c) && (c <=? 57) then Some (c - 48)
  else if (97 <=? c) && (c <=? 102) then Some (c - 87)
  else if (65 <=? c) && (c <=? 70) then Some (c - 55)
  else None.

Fixpoint starts_with (p w : bytes) : bool :=
  match p, w with
  | [], _ => true
  | a :: p', b :: w' => (a =? b) && starts_with p' w'
  | _ :: _, [] => false
  end.

(* str::replace(space_ch, " ") on the UTF-8 bytes (space = UTF-8 of space_ch, non-empty) *)
Fixpoint replace_space (fuel : nat) (space : bytes) (w : bytes) : bytes :=
  match fuel with
  | O => w
  | S f =>
      match w with
      | [] => []
      | b :: w' => if starts_with space w then 32 :: replace_space f space (skipn (length space) w)
                   else b :: replace_space f space w'
      end
  end.

Inductive fallback_result := FOk (w : bytes) | FPanic.
(* "<0xNN>" (exactly six bytes) is the byte NN; any other name starting with "<0x" trips an
   assertion; everything else is its own text with the space character replaced *)
Definition byte_fallback_bytes (space : bytes) (name : bytes) : fallback_result :=
  match name with
  | [60; 48; 120; h1; h2; 62] =>
      match hex_val h1, hex_val h2 with
      | Some a, Some b => FOk [a * 16 + b]
      | _, _ => FPanic
      end
  | _ => if starts_with [60; 48; 120] name then FPanic
         else FOk (replace_space (length name) space name)
  end.

(* special / added tokens: marker byte, then the name *)
Definition special_bytes (name : bytes) : bytes := 255 :: name.

(* ---------- tiktoken rank tables ---------- *)
Fixpoint set_nth {A} (l : list A) (i : nat) (x : A) (d : A) : list A :=
  match i, l with
  | O, [] => [x]
  | O, _ :: r => x :: r
  | S k, [] => d :: set_nth [] k x d
  | S k, y :: r => y :: set_nth r k x d
  end.

(* placeholder for an empty slot i: marker "<[" i "]>" *)
Definition placeholder (i : N) : bytes := 255 :: [60; 91] ++ dec_digits i ++ [93; 62].

Definition tiktoken_tokens (encoder : list (bytes * N)) (specials : list (bytes * N)) (n_override : option nat)
  : option (list bytes) :=
  let n0 := (length encoder + length specials)%nat in
  let t0 := repeat ([] : bytes) n0 in
  let t1 := fold_left (fun t (e : bytes * N) => set_nth t (N.to_nat (snd e)) (fst e) []) encoder t0 in
  let t2 := fold_left (fun t (e : bytes * N) => set_nth t (N.to_nat (snd e)) (special_bytes (fst e)) []) specials t1 in
  let sized := match n_override with
               | Some n => if Nat.ltb n (length t2) then None
                           else Some (t2 ++ repeat ([] : bytes) (n - length t2))
               | None => Some t2
               end in
  match sized with
  | None => None
  | Some t => Some (map (fun iw : N * bytes => match snd iw with [] => placeholder (fst iw) | w => w end)
                        (combine (seqN 0 (length t)) t))
  end.
