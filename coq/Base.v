(* Base.v — shared conventions for the llguidance model.
   byte := N (well-formed when < 256); bytes := list byte; token ids and data
   sizes are N; nat is used only for list indices, fuel and structural measures. *)
From Coq Require Export List NArith ZArith Bool Lia Arith.
Export ListNotations.
Open Scope N_scope.

Definition byte := N.
Definition bytes := list byte.
Definition tokid := N.

Definition byte_ok (b : byte) : bool := b <? 256.

(* result type used where the Rust code can panic (assert!/index/unwrap):
   the panic is an explicit value, never a totalisation *)
Inductive res (A : Type) : Type :=
| Ok (a : A)
| ErrInternal                (* assert!/index/unwrap failure in the code *)
| ErrLimit.                  (* documented resource-limit stop / out of fuel *)
Arguments Ok {A} a.
Arguments ErrInternal {A}.
Arguments ErrLimit {A}.

Definition res_bind {A B} (r : res A) (f : A -> res B) : res B :=
  match r with Ok a => f a | ErrInternal => ErrInternal | ErrLimit => ErrLimit end.

Definition is_ok {A} (r : res A) : bool := match r with Ok _ => true | _ => false end.

Fixpoint list_eqb {A} (eqb : A -> A -> bool) (a b : list A) : bool :=
  match a, b with
  | [], [] => true
  | x :: a', y :: b' => eqb x y && list_eqb eqb a' b'
  | _, _ => false
  end.

Definition bytes_eqb := list_eqb N.eqb.

Fixpoint is_prefix (p w : bytes) : bool :=
  match p, w with
  | [], _ => true
  | x :: p', y :: w' => (x =? y) && is_prefix p' w'
  | _ :: _, [] => false
  end.

(* nth on N-indexed lists *)
Definition nthN {A} (l : list A) (i : N) : option A := nth_error l (N.to_nat i).

Definition lenN {A} (l : list A) : N := N.of_nat (length l).

Fixpoint update_nth {A} (l : list A) (i : nat) (f : A -> A) : list A :=
  match l, i with
  | [], _ => []
  | x :: l', O => f x :: l'
  | x :: l', S i' => x :: update_nth l' i' f
  end.

Fixpoint seqN (start : N) (len : nat) : list N :=
  match len with O => [] | S k => start :: seqN (start + 1) k end.

Fixpoint optmap {A B} (f : A -> option B) (l : list A) : list B :=
  match l with
  | [] => []
  | x :: l' => match f x with Some y => y :: optmap f l' | None => optmap f l' end
  end.
