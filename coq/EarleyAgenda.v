(* EarleyAgenda.v — helper for EarleyProofs.v: specification of the single-pass
   agenda of Earley.v (membership, closure, minimality, allowed lexemes) and the
   fuel argument (item_bound suffices for duplicate-free in-range seeds). *)
From LLG Require Import Base Regex Lexer Earley.

(* ---------- small list facts ---------- *)
Lemma fold_left_ext_eq {A B} (f h : A -> B -> A) :
  (forall a b, f a b = h a b) -> forall l a, fold_left f l a = fold_left h l a.
Proof.
  intros Hfh l. induction l as [|y l IH]; intros a; simpl; auto.
  rewrite Hfh. apply IH.
Qed.

Lemma NoDup_snoc {A} (l : list A) (x : A) : NoDup l -> ~ In x l -> NoDup (l ++ [x]).
Proof.
  intros Hnd. induction Hnd as [|y l Hy Hnd IH]; intros Hx; simpl.
  - constructor; auto. constructor.
  - constructor.
    + rewrite in_app_iff. intros [H|H]; [auto|]. simpl in H. destruct H as [H|[]]. subst.
      apply Hx. left; reflexivity.
    + apply IH. intros H. apply Hx. right; exact H.
Qed.

Lemma In_seqN x s n : In x (seqN s n) <-> s <= x /\ x < s + N.of_nat n.
Proof.
  revert s. induction n as [|n IH]; intros s.
  - simpl. split; [intros []|lia].
  - cbn [seqN In]. rewrite IH. lia.
Qed.

Lemma length_seqN s n : length (seqN s n) = n.
Proof. revert s. induction n as [|n IH]; intros s; simpl; auto. Qed.

Lemma NoDup_seqN s n : NoDup (seqN s n).
Proof.
  revert s. induction n as [|n IH]; intros s; cbn [seqN]; constructor; auto.
  rewrite In_seqN. lia.
Qed.

Lemma length_flat_map_const {A B} (f : A -> list B) k l :
  (forall x, length (f x) = k) -> length (flat_map f l) = (length l * k)%nat.
Proof.
  intros Hf. induction l as [|x l IH]; simpl; auto.
  rewrite app_length, Hf, IH. reflexivity.
Qed.

Lemma insert_sorted_n_in x y l : In x (insert_sorted_n y l) <-> x = y \/ In x l.
Proof.
  induction l as [|z l IH]; simpl.
  - split; intros [H|H]; auto.
  - destruct (y <? z) eqn:E1.
    + simpl. split; intros H; destruct H as [H|H]; auto.
    + destruct (y =? z) eqn:E2.
      * apply N.eqb_eq in E2. subst z. simpl. split; intros H.
        -- right; exact H.
        -- destruct H as [H|H]; auto.
      * simpl. rewrite IH. split; intros H.
        -- destruct H as [H|[H|H]]; auto.
        -- destruct H as [H|[H|H]]; auto.
Qed.

(* ---------- items ---------- *)
Lemma item_eqb_eq a b : item_eqb a b = true <-> a = b.
Proof.
  unfold item_eqb. rewrite !andb_true_iff, !N.eqb_eq.
  destruct a, b; simpl. split.
  - intros [[[H1 H2] H3] H4]; subst; reflexivity.
  - intros H; inversion H; auto.
Qed.

Lemma existsb_item_eqb it its : existsb (item_eqb it) its = true <-> In it its.
Proof.
  rewrite existsb_exists. split.
  - intros [x [Hin He]]. apply item_eqb_eq in He. subst; auto.
  - intros H. exists it. split; auto. apply item_eqb_eq; auto.
Qed.

Lemma add_unique_in its it x : In x (add_unique its it) <-> In x its \/ x = it.
Proof.
  unfold add_unique. destruct (existsb (item_eqb it) its) eqn:E.
  - apply existsb_item_eqb in E. split; auto. intros [H|H]; subst; auto.
  - rewrite in_app_iff. simpl. split; intros [H|H]; auto.
    + destruct H as [H|[]]; auto.
Qed.

Lemma add_unique_ext its it : exists extra, add_unique its it = its ++ extra.
Proof.
  unfold add_unique. destruct (existsb (item_eqb it) its).
  - exists []. rewrite app_nil_r; reflexivity.
  - exists [it]. reflexivity.
Qed.

Lemma add_unique_nodup its it : NoDup its -> NoDup (add_unique its it).
Proof.
  intros Hnd. unfold add_unique. destruct (existsb (item_eqb it) its) eqn:E; auto.
  apply NoDup_snoc; auto. intros H. apply existsb_item_eqb in H. congruence.
Qed.

Definition cadd (o : option item) (acc : list item) : list item :=
  match o with Some y => add_unique acc y | None => acc end.

Lemma fold_cadd {A} (sel : A -> option item) l : forall its,
  let r := fold_left (fun acc y => cadd (sel y) acc) l its in
  (forall x, In x r <-> In x its \/ exists y, In y l /\ sel y = Some x) /\
  (exists extra, r = its ++ extra) /\
  (NoDup its -> NoDup r).
Proof.
  induction l as [|y l IH]; intros its; simpl.
  - split; [|split]; auto.
    + intros x. split; auto. intros [H|[y [[] _]]]; auto.
    + exists []. rewrite app_nil_r; reflexivity.
  - destruct (IH (cadd (sel y) its)) as [H1 [H2 H3]]. split; [|split].
    + intros x. rewrite H1. unfold cadd. destruct (sel y) as [z|] eqn:E.
      * rewrite add_unique_in. split.
        -- intros [[H|H]|[y' [Hy' Hs]]]; auto.
           ++ subst. right. exists y. auto.
           ++ right. exists y'. auto.
        -- intros [H|[y' [[Hy'|Hy'] Hs]]]; auto.
           ++ subst y'. left. right. congruence.
           ++ right. exists y'. auto.
      * split.
        -- intros [H|[y' [Hy' Hs]]]; auto. right. exists y'. auto.
        -- intros [H|[y' [[Hy'|Hy'] Hs]]]; auto.
           ++ subst y'. congruence.
           ++ right. exists y'. auto.
    + destruct H2 as [e2 H2]. rewrite H2. unfold cadd. destruct (sel y) as [z|].
      * destruct (add_unique_ext its z) as [e1 He1]. rewrite He1.
        exists (e1 ++ e2). rewrite app_assoc. reflexivity.
      * exists e2; auto.
    + intros Hnd. apply H3. unfold cadd. destruct (sel y); auto. apply add_unique_nodup; auto.
Qed.

(* ---------- one agenda step ---------- *)
Definition dummy_row := mk_row [] [] (MLSingle 0).
Definition src_row (rb : list row) (s : N) : list item := r_items (nth (N.to_nat s) rb dummy_row).

Definition csel (g : grammar) (nt : N) (it' : item) : option item :=
  match after_dot g it' with
  | Some (NT n) => if n =? nt then Some (advance_dot it') else None
  | _ => None
  end.

Definition astep (g : grammar) (nl : list bool) (rb : list row) (c : N)
           (its : list item) (it : item) (al : list lexidx) : list item * list lexidx :=
  match after_dot g it with
  | None =>
      if it_start it <? c then
        (fold_left (fun acc it' => cadd (csel g (it_nt it) it') acc) (src_row rb (it_start it)) its, al)
      else (its, al)
  | Some (TM lx) => (its, insert_sorted_n lx al)
  | Some (NT n) =>
      let its1 := fold_left (fun acc y => cadd (Some y) acc)
                            (initial_items n (length (nt_alts g n)) c) its in
      (if nth (N.to_nat n) nl false then add_unique its1 (advance_dot it) else its1, al)
  end.

Lemma agenda_S f g nl rb c its ptr al :
  agenda (S f) g nl rb c its ptr al =
  match nth_error its ptr with
  | None => (its, al)
  | Some it => agenda f g nl rb c (fst (astep g nl rb c its it al)) (S ptr) (snd (astep g nl rb c its it al))
  end.
Proof.
  cbn [agenda]. destruct (nth_error its ptr) as [it|]; auto.
  unfold astep. destruct (after_dot g it) as [[n|lx]|]; cbn [fst snd]; auto.
  destruct (it_start it <? c); cbn [fst snd]; auto.
  f_equal. unfold src_row, dummy_row. apply fold_left_ext_eq. intros a b. unfold cadd, csel.
  destruct (after_dot g b) as [[m|lx]|]; auto. destruct (m =? it_nt it); auto.
Qed.

Definition added (g : grammar) (nl : list bool) (rb : list row) (c : N) (it x : item) : Prop :=
  match after_dot g it with
  | None => it_start it < c /\
            exists it', In it' (src_row rb (it_start it)) /\
                        after_dot g it' = Some (NT (it_nt it)) /\ x = advance_dot it'
  | Some (TM _) => False
  | Some (NT n) => In x (initial_items n (length (nt_alts g n)) c) \/
                   (nth (N.to_nat n) nl false = true /\ x = advance_dot it)
  end.

Lemma csel_some g nt it' x :
  csel g nt it' = Some x <-> after_dot g it' = Some (NT nt) /\ x = advance_dot it'.
Proof.
  unfold csel. destruct (after_dot g it') as [[m|lx]|].
  - destruct (m =? nt) eqn:E.
    + apply N.eqb_eq in E. subst. split.
      * intros H; inversion H; auto.
      * intros [_ H]; subst; auto.
    + apply N.eqb_neq in E. split; [discriminate|]. intros [H _]. inversion H. congruence.
  - split; [discriminate|intros [H _]; discriminate].
  - split; [discriminate|intros [H _]; discriminate].
Qed.

Lemma astep_spec g nl rb c its it al :
  let r := astep g nl rb c its it al in
  (forall x, In x (fst r) <-> In x its \/ added g nl rb c it x) /\
  (exists extra, fst r = its ++ extra) /\
  (NoDup its -> NoDup (fst r)) /\
  (forall lx, In lx (snd r) <-> In lx al \/ after_dot g it = Some (TM lx)).
Proof.
  unfold astep, added. destruct (after_dot g it) as [[n|lx]|] eqn:Ead.
  - (* prediction *)
    pose proof (fold_cadd (fun y => Some y) (initial_items n (length (nt_alts g n)) c) its) as Hf.
    cbv zeta in Hf. destruct Hf as [H1 [H2 H3]].
    set (its1 := fold_left (fun acc y => cadd (Some y) acc) (initial_items n (length (nt_alts g n)) c) its) in *.
    assert (Hin1 : forall x, In x its1 <-> In x its \/ In x (initial_items n (length (nt_alts g n)) c)).
    { intros x. rewrite H1. split.
      - intros [H|[y [Hy Hs]]]; auto. inversion Hs; subst; auto.
      - intros [H|H]; auto. right. exists x. auto. }
    cbn [fst snd]. destruct (nth (N.to_nat n) nl false).
    + split; [|split; [|split]].
      * intros x. rewrite add_unique_in, Hin1. split.
        -- intros [[H|H]|H]; auto.
        -- intros [H|[H|[_ H]]]; auto.
      * destruct H2 as [e1 H2]. destruct (add_unique_ext its1 (advance_dot it)) as [e2 H4].
        exists (e1 ++ e2). rewrite H4, H2, app_assoc. reflexivity.
      * intros Hnd. apply add_unique_nodup; auto.
      * intros lx. split; auto. intros [H|H]; auto. discriminate.
    + split; [|split; [|split]]; auto.
      * intros x. rewrite Hin1. split.
        -- intros [H|H]; auto.
        -- intros [H|[H|[H _]]]; auto. discriminate.
      * intros lx. split; auto. intros [H|H]; auto. discriminate.
  - (* terminal *)
    cbn [fst snd]. split; [|split; [|split]]; auto.
    + intros x. split; auto. intros [H|[]]; auto.
    + exists []. rewrite app_nil_r; reflexivity.
    + intros lx'. rewrite insert_sorted_n_in. split.
      * intros [H|H]; auto. subst; auto.
      * intros [H|H]; auto. inversion H; auto.
  - (* complete *)
    destruct (it_start it <? c) eqn:Elt.
    + apply N.ltb_lt in Elt.
      pose proof (fold_cadd (csel g (it_nt it)) (src_row rb (it_start it)) its) as Hf.
      cbv zeta in Hf. destruct Hf as [H1 [H2 H3]]. cbn [fst snd].
      split; [|split; [|split]]; auto.
      * intros x. rewrite H1. split.
        -- intros [H|[y [Hy Hs]]]; auto. apply csel_some in Hs. right. split; auto. exists y. tauto.
        -- intros [H|[_ [y [Hy [Ha Hx]]]]]; auto. right. exists y. split; auto. apply csel_some. auto.
      * intros lx. split; auto. intros [H|H]; auto. discriminate.
    + apply N.ltb_ge in Elt. cbn [fst snd]. split; [|split; [|split]]; auto.
      * intros x. split; auto. intros [H|[H _]]; auto. lia.
      * exists []. rewrite app_nil_r; reflexivity.
      * intros lx. split; auto. intros [H|H]; auto. discriminate.
Qed.

(* generic invariant principle for the agenda *)
Lemma agenda_inv g nl rb c (R : list item -> nat -> list lexidx -> Prop) :
  (forall its ptr al it, R its ptr al -> nth_error its ptr = Some it ->
     R (fst (astep g nl rb c its it al)) (S ptr) (snd (astep g nl rb c its it al))) ->
  forall fuel its ptr al, R its ptr al ->
    exists ptr', R (fst (agenda fuel g nl rb c its ptr al)) ptr' (snd (agenda fuel g nl rb c its ptr al)) /\
      (nth_error (fst (agenda fuel g nl rb c its ptr al)) ptr' = None \/ ptr' = (fuel + ptr)%nat).
Proof.
  intros Hstep. induction fuel as [|f IH]; intros its ptr al HR.
  - exists ptr. simpl. split; auto.
  - rewrite agenda_S. destruct (nth_error its ptr) as [it|] eqn:E.
    + destruct (IH _ _ _ (Hstep _ _ _ _ HR E)) as [p' [H1 H2]]. exists p'. split; auto.
      destruct H2 as [H2|H2]; auto. right. lia.
    + exists ptr. simpl. auto.
Qed.

(* minimality: every item of the result is a seed or added from an item with P *)
Theorem agenda_min g nl rb c fuel seed ptr al (P : item -> Prop) :
  (forall x, In x seed -> P x) ->
  (forall it x, P it -> added g nl rb c it x -> P x) ->
  forall x, In x (fst (agenda fuel g nl rb c seed ptr al)) -> P x.
Proof.
  intros Hseed Hadd.
  destruct (agenda_inv g nl rb c (fun its _ _ => forall x, In x its -> P x)) with (fuel := fuel) (its := seed) (ptr := ptr) (al := al)
    as [p' [H _]]; auto.
  intros its p a it HR Hnth x Hx.
  destruct (astep_spec g nl rb c its it a) as [H1 _]. apply H1 in Hx. destruct Hx as [Hx|Hx]; auto.
  apply (Hadd it); auto. apply HR. eapply nth_error_In; eauto.
Qed.

Theorem agenda_incl g nl rb c fuel seed ptr al :
  incl seed (fst (agenda fuel g nl rb c seed ptr al)).
Proof.
  destruct (agenda_inv g nl rb c (fun its _ _ => incl seed its)) with (fuel := fuel) (its := seed) (ptr := ptr) (al := al)
    as [p' [H _]]; auto.
  - intros its p a it HR Hnth x Hx.
    destruct (astep_spec g nl rb c its it a) as [H1 _]. apply H1. left. apply HR; auto.
  - apply incl_refl.
Qed.

(* ---------- in-range items and their enumeration ---------- *)
Definition ok (g : grammar) (c : N) (it : item) : Prop :=
  (N.to_nat (it_alt it) < length (nt_alts g (it_nt it)))%nat /\
  (N.to_nat (it_dot it) <= length (item_rhs g it))%nat /\
  it_start it <= c.

Definition rb_ok (rb : list row) (c : N) : Prop :=
  forall r it, In r rb -> In it (r_items r) -> it_start it <= c.

Definition rhs_items (nt a : N) (rhs : list gsym) (c : nat) : list item :=
  flat_map (fun d => map (fun s => mk_item nt a d s) (seqN 0 (S c))) (seqN 0 (S (length rhs))).

Fixpoint alts_items (nt a : N) (alts : list (list gsym)) (c : nat) : list item :=
  match alts with
  | [] => []
  | rhs :: alts' => rhs_items nt a rhs c ++ alts_items nt (a + 1) alts' c
  end.

Fixpoint rules_items (nt : N) (rules : list (list (list gsym))) (c : nat) : list item :=
  match rules with
  | [] => []
  | alts :: rs => alts_items nt 0 alts c ++ rules_items (nt + 1) rs c
  end.

Definition alt_total (alts : list (list gsym)) : nat :=
  fold_left (fun a rhs => a + S (length rhs))%nat alts 0%nat.
Definition rules_total (rules : list (list (list gsym))) : nat :=
  fold_left (fun acc alts => acc + alt_total alts)%nat rules 0%nat.

Lemma fold_left_add_shift {A} (f : A -> nat) l acc :
  fold_left (fun a x => a + f x)%nat l acc = (acc + fold_left (fun a x => a + f x)%nat l 0)%nat.
Proof.
  revert acc. induction l as [|x l IH]; intros acc; simpl; [lia|].
  rewrite IH. rewrite (IH (f x)). lia.
Qed.

Lemma alt_total_cons rhs alts : alt_total (rhs :: alts) = (S (length rhs) + alt_total alts)%nat.
Proof.
  unfold alt_total. cbn [fold_left].
  rewrite (fold_left_add_shift (fun rhs => S (length rhs)) alts (0 + S (length rhs))). lia.
Qed.

Lemma rules_total_cons alts rules : rules_total (alts :: rules) = (alt_total alts + rules_total rules)%nat.
Proof.
  unfold rules_total. cbn [fold_left].
  rewrite (fold_left_add_shift alt_total rules (0 + alt_total alts)). lia.
Qed.

Lemma length_rhs_items nt a rhs c : length (rhs_items nt a rhs c) = (S (length rhs) * S c)%nat.
Proof.
  unfold rhs_items. rewrite (length_flat_map_const _ (S c)).
  - rewrite length_seqN. reflexivity.
  - intros x. rewrite map_length, length_seqN. reflexivity.
Qed.

Lemma length_alts_items nt a alts c : length (alts_items nt a alts c) = (alt_total alts * S c)%nat.
Proof.
  revert a. induction alts as [|rhs alts IH]; intros a; auto.
  cbn [alts_items]. rewrite app_length, length_rhs_items, IH, alt_total_cons.
  rewrite Nat.mul_add_distr_r. reflexivity.
Qed.

Lemma length_rules_items nt rules c : length (rules_items nt rules c) = (rules_total rules * S c)%nat.
Proof.
  revert nt. induction rules as [|alts rules IH]; intros nt; auto.
  cbn [rules_items]. rewrite app_length, length_alts_items, IH, rules_total_cons.
  rewrite Nat.mul_add_distr_r. reflexivity.
Qed.

Lemma item_bound_eq g c : item_bound g c = S (rules_total (g_rules g) * S (N.to_nat c)).
Proof. reflexivity. Qed.

Lemma in_rhs_items nt a rhs c d s :
  (N.to_nat d <= length rhs)%nat -> (N.to_nat s <= c)%nat -> In (mk_item nt a d s) (rhs_items nt a rhs c).
Proof.
  intros Hd Hs. unfold rhs_items. apply in_flat_map. exists d. split.
  - apply In_seqN. lia.
  - apply in_map_iff. exists s. split; auto. apply In_seqN. lia.
Qed.

Lemma in_alts_items nt c d s : forall alts a k rhs,
  nth_error alts k = Some rhs -> (N.to_nat d <= length rhs)%nat -> (N.to_nat s <= c)%nat ->
  In (mk_item nt (a + N.of_nat k) d s) (alts_items nt a alts c).
Proof.
  induction alts as [|r alts IH]; intros a k rhs Hk Hd Hs.
  - destruct k; discriminate.
  - cbn [alts_items]. apply in_app_iff. destruct k as [|k].
    + simpl in Hk. inversion Hk; subst. left. replace (a + N.of_nat 0) with a by lia.
      apply in_rhs_items; auto.
    + right. simpl in Hk. replace (a + N.of_nat (S k)) with ((a + 1) + N.of_nat k) by lia.
      eapply IH; eauto.
Qed.

Lemma in_rules_items c x : forall rules nt k alts,
  nth_error rules k = Some alts -> In x (alts_items (nt + N.of_nat k) 0 alts c) ->
  In x (rules_items nt rules c).
Proof.
  induction rules as [|r rules IH]; intros nt k alts Hk Hx.
  - destruct k; discriminate.
  - cbn [rules_items]. apply in_app_iff. destruct k as [|k].
    + simpl in Hk. inversion Hk; subst. left. replace (nt + N.of_nat 0) with nt in Hx by lia. exact Hx.
    + right. simpl in Hk. eapply IH; eauto.
      replace (nt + 1 + N.of_nat k) with (nt + N.of_nat (S k)) by lia. exact Hx.
Qed.

Lemma ok_in_enum g c it : ok g c it -> In it (rules_items 0 (g_rules g) (N.to_nat c)).
Proof.
  intros [Ha [Hd Hs]]. destruct it as [nt a d s]. unfold item_rhs in Hd. cbn [it_nt it_alt it_dot it_start] in *.
  assert (Hnt : (N.to_nat nt < length (g_rules g))%nat).
  { unfold nt_alts in Ha. destruct (Nat.lt_ge_cases (N.to_nat nt) (length (g_rules g))) as [H|H]; auto.
    rewrite nth_overflow in Ha by exact H. simpl in Ha. lia. }
  apply (in_rules_items _ _ _ 0 (N.to_nat nt) (nt_alts g nt)).
  - unfold nt_alts. apply nth_error_nth'. exact Hnt.
  - rewrite N2Nat.id. replace (0 + nt) with nt by lia.
    pose proof (in_alts_items nt (N.to_nat c) d s (nt_alts g nt) 0 (N.to_nat a)
                  (nth (N.to_nat a) (nt_alts g nt) [])) as H.
    rewrite N2Nat.id in H. replace (0 + a) with a in H by lia. apply H.
    + apply nth_error_nth'. exact Ha.
    + exact Hd.
    + lia.
Qed.

Lemma nodup_ok_length g c its :
  NoDup its -> (forall it, In it its -> ok g c it) ->
  (length its <= rules_total (g_rules g) * S (N.to_nat c))%nat.
Proof.
  intros Hnd Hok. rewrite <- (length_rules_items 0).
  apply NoDup_incl_length; auto. intros x Hx. apply ok_in_enum. auto.
Qed.

(* after_dot = Some _ forces the alternative and the dot to be in range *)
Lemma after_dot_some_ok g it s :
  after_dot g it = Some s ->
  (N.to_nat (it_alt it) < length (nt_alts g (it_nt it)))%nat /\
  (N.to_nat (it_dot it) < length (item_rhs g it))%nat.
Proof.
  unfold after_dot. intros H.
  assert (Hd : (N.to_nat (it_dot it) < length (item_rhs g it))%nat).
  { apply nth_error_Some. congruence. }
  split; auto. unfold item_rhs in Hd.
  destruct (Nat.lt_ge_cases (N.to_nat (it_alt it)) (length (nt_alts g (it_nt it)))) as [H1|H1]; auto.
  rewrite nth_overflow in Hd by exact H1. simpl in Hd. lia.
Qed.

Lemma item_rhs_advance g it : item_rhs g (advance_dot it) = item_rhs g it.
Proof. reflexivity. Qed.

Lemma advance_ok g c it s : after_dot g it = Some s -> it_start it <= c -> ok g c (advance_dot it).
Proof.
  intros Had Hs. destruct (after_dot_some_ok _ _ _ Had) as [H1 H2].
  unfold ok. rewrite item_rhs_advance. unfold advance_dot. cbn [it_nt it_alt it_dot it_start].
  split; [|split]; auto. lia.
Qed.

Lemma in_initial_items x n k c :
  In x (initial_items n k c) <-> exists a, (a < k)%nat /\ x = mk_item n (N.of_nat a) 0 c.
Proof.
  unfold initial_items. rewrite in_map_iff. split.
  - intros [a [Hx Ha]]. apply In_seqN in Ha. exists (N.to_nat a). split; [lia|].
    rewrite N2Nat.id. auto.
  - intros [a [Ha Hx]]. exists (N.of_nat a). split; auto. apply In_seqN. lia.
Qed.

Lemma src_row_in rb s it' : In it' (src_row rb s) -> exists r, In r rb /\ In it' (r_items r).
Proof.
  unfold src_row. intros H. destruct (nth_in_or_default (N.to_nat s) rb dummy_row) as [Hin|Hd].
  - eexists; split; eauto.
  - rewrite Hd in H. simpl in H. destruct H.
Qed.

Lemma added_ok g nl rb c it x : rb_ok rb c -> ok g c it -> added g nl rb c it x -> ok g c x.
Proof.
  intros Hrb Hok. unfold added. destruct (after_dot g it) as [[n|lx]|] eqn:Ead.
  - intros [H|[_ H]].
    + apply in_initial_items in H. destruct H as [a [Ha Hx]]. subst x. unfold ok, item_rhs.
      cbn [it_nt it_alt it_dot it_start]. rewrite Nat2N.id. split; [|split]; auto; lia.
    + subst x. eapply advance_ok; eauto. apply Hok.
  - intros [].
  - intros [Hlt [it' [Hin [Had Hx]]]]. subst x. eapply advance_ok; eauto.
    destruct (src_row_in _ _ _ Hin) as [r [Hr Hi]]. eapply Hrb; eauto.
Qed.

(* ---------- the agenda with sufficient fuel ---------- *)
Theorem agenda_spec g nl rb c seed itsF alF :
  NoDup seed -> (forall it, In it seed -> ok g c it) -> rb_ok rb c ->
  agenda (item_bound g c) g nl rb c seed 0 [] = (itsF, alF) ->
  NoDup itsF /\ (forall it, In it itsF -> ok g c it) /\
  (forall it x, In it itsF -> added g nl rb c it x -> In x itsF) /\
  (forall lx, In lx alF <-> exists it, In it itsF /\ after_dot g it = Some (TM lx)).
Proof.
  intros Hnd Hok Hrb Hag.
  set (R := fun (its : list item) (ptr : nat) (al : list lexidx) =>
              NoDup its /\ (forall it, In it its -> ok g c it) /\ (ptr <= length its)%nat /\
              (forall k it x, (k < ptr)%nat -> nth_error its k = Some it -> added g nl rb c it x -> In x its) /\
              (forall lx, In lx al <-> exists k it, (k < ptr)%nat /\ nth_error its k = Some it /\
                                                    after_dot g it = Some (TM lx))).
  destruct (agenda_inv g nl rb c R) with (fuel := item_bound g c) (its := seed) (ptr := 0%nat) (al := @nil lexidx)
    as [p' [HR Hend]].
  - (* step *)
    intros its ptr al it [R1 [R2 [R3 [R4 R5]]]] Hnth.
    destruct (astep_spec g nl rb c its it al) as [S1 [[extra S2] [S3 S4]]].
    assert (Hlt : (ptr < length its)%nat) by (apply nth_error_Some; congruence).
    assert (Hstable : forall k, (k < length its)%nat ->
                                nth_error (fst (astep g nl rb c its it al)) k = nth_error its k).
    { intros k Hk. rewrite S2. apply nth_error_app1. exact Hk. }
    unfold R. split; [|split; [|split; [|split]]].
    + auto.
    + intros y Hy. apply S1 in Hy. destruct Hy as [Hy|Hy]; auto.
      eapply added_ok; eauto. apply R2. eapply nth_error_In; eauto.
    + rewrite S2, app_length. lia.
    + intros k it0 x Hk Hn Hadd. apply S1.
      destruct (Nat.eq_dec k ptr) as [->|Hne].
      * rewrite Hstable in Hn by exact Hlt. rewrite Hnth in Hn. inversion Hn; subst it0. right; exact Hadd.
      * left. rewrite Hstable in Hn by lia. eapply R4; eauto. lia.
    + intros lx. rewrite S4, R5. split.
      * intros [[k [it0 [Hk [Hn Ha]]]]|Ha].
        -- exists k, it0. split; [lia|]. split; auto. rewrite Hstable by lia. exact Hn.
        -- exists ptr, it. split; [lia|]. split; auto. rewrite Hstable by lia. exact Hnth.
      * intros [k [it0 [Hk [Hn Ha]]]]. destruct (Nat.eq_dec k ptr) as [->|Hne].
        -- rewrite Hstable in Hn by exact Hlt. rewrite Hnth in Hn. inversion Hn; subst it0. right; exact Ha.
        -- left. exists k, it0. split; [lia|]. split; auto. rewrite Hstable in Hn by lia. exact Hn.
  - (* initial *)
    unfold R. split; [|split; [|split; [|split]]]; auto.
    + lia.
    + intros k it x Hk. lia.
    + intros lx. split; [intros []|]. intros [k [it [Hk _]]]. lia.
  - rewrite Hag in HR, Hend. cbn [fst snd] in HR, Hend.
    destruct HR as [R1 [R2 [R3 [R4 R5]]]].
    assert (Hlen : (length itsF <= p')%nat).
    { destruct Hend as [He|He].
      - apply nth_error_None. exact He.
      - pose proof (nodup_ok_length g c itsF R1 R2) as Hb. rewrite item_bound_eq in He. lia. }
    split; [|split; [|split]]; auto.
    + intros it x Hin Hadd. apply In_nth_error in Hin. destruct Hin as [k Hk].
      eapply R4; eauto. assert ((k < length itsF)%nat) by (apply nth_error_Some; congruence). lia.
    + intros lx. rewrite R5. split.
      * intros [k [it [Hk [Hn Ha]]]]. exists it. split; auto. eapply nth_error_In; eauto.
      * intros [it [Hin Ha]]. apply In_nth_error in Hin. destruct Hin as [k Hk].
        exists k, it. split; auto.
        assert ((k < length itsF)%nat) by (apply nth_error_Some; congruence). lia.
Qed.

(* ---------- close_row ---------- *)
Lemma close_row_items g nl rb seed lexeme r :
  close_row g nl rb seed lexeme = Some r ->
  r_items r = fst (agenda (item_bound g (lenN rb)) g nl rb (lenN rb) seed 0 []) /\
  r_allowed r = snd (agenda (item_bound g (lenN rb)) g nl rb (lenN rb) seed 0 []).
Proof.
  unfold close_row. destruct (agenda (item_bound g (lenN rb)) g nl rb (lenN rb) seed 0 []) as [its al].
  destruct its as [|i its]; [discriminate|]. intros H. inversion H; subst. auto.
Qed.

Lemma close_row_none g nl rb seed lexeme : close_row g nl rb seed lexeme = None -> seed = [].
Proof.
  unfold close_row. pose proof (agenda_incl g nl rb (lenN rb) (item_bound g (lenN rb)) seed 0 []) as Hi.
  destruct (agenda (item_bound g (lenN rb)) g nl rb (lenN rb) seed 0 []) as [its al].
  destruct its as [|i its]; [|discriminate]. intros _. cbn [fst] in Hi.
  destruct seed as [|x seed]; auto. destruct (Hi x). left; reflexivity.
Qed.

Lemma close_row_incl g nl rb seed lexeme r :
  close_row g nl rb seed lexeme = Some r -> incl seed (r_items r).
Proof.
  intros H. apply close_row_items in H. destruct H as [H _]. rewrite H. apply agenda_incl.
Qed.

Lemma close_row_min g nl rb seed lexeme r (P : item -> Prop) :
  close_row g nl rb seed lexeme = Some r ->
  (forall x, In x seed -> P x) ->
  (forall it x, P it -> added g nl rb (lenN rb) it x -> P x) ->
  forall x, In x (r_items r) -> P x.
Proof.
  intros H Hs Ha x Hx. apply close_row_items in H. destruct H as [H _]. rewrite H in Hx.
  eapply agenda_min; eauto.
Qed.

Theorem close_row_spec g nl rb seed lexeme r :
  NoDup seed -> (forall it, In it seed -> ok g (lenN rb) it) -> rb_ok rb (lenN rb) ->
  close_row g nl rb seed lexeme = Some r ->
  NoDup (r_items r) /\ (forall it, In it (r_items r) -> ok g (lenN rb) it) /\
  (forall it x, In it (r_items r) -> added g nl rb (lenN rb) it x -> In x (r_items r)) /\
  (forall lx, In lx (r_allowed r) <-> exists it, In it (r_items r) /\ after_dot g it = Some (TM lx)).
Proof.
  intros Hnd Hok Hrb H. apply close_row_items in H. destruct H as [H1 H2]. rewrite H1, H2.
  eapply agenda_spec; eauto. apply surjective_pairing.
Qed.
