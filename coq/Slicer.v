(* Slicer.v — model of the decision structure of parser/src/earley/slicer.rs
   (TokenizerSlice::apply and SlicedBiasComputer::compute_bias) at the level of
   token sets: a slice whose regex is contained in the prefixes of a live lexeme
   contributes its whole (pre-computed) token set; otherwise its children are
   tried and the rest is walked with the tries built for that purpose
   (trie_without_child / trie_without_children / the children's own tries).
   The containment test is external (derivre): an oracle `matches`, assumed sound.
   Definitions only. *)
From LLG Require Import Base.

Definition tset := tokid -> bool.
Definition ts_union (a b : tset) : tset := fun t => a t || b t.
Definition ts_minus (a b : tset) : tset := fun t => a t && negb (b t).

Inductive slice := Slice (idx : N) (toks : tset) (children : list slice).
Definition s_idx (s : slice) := match s with Slice i _ _ => i end.
Definition s_toks (s : slice) := match s with Slice _ t _ => t end.
Definition s_children (s : slice) := match s with Slice _ _ c => c end.

Section Apply.
  (* acc t: the recogniser accepts token t from the current state (what a trie walk
     over a trie containing t reports) *)
  Variable acc : tokid -> bool.
  (* matches i: check_subsume says slice i is contained in the prefixes of a live lexeme *)
  Variable matches : N -> bool.

  (* add_bias over a trie holding exactly the tokens of `set` *)
  Definition walk_set (set : tset) (trg : tset) : tset := fun t => trg t || (set t && acc t).

  Definition union_toks (cs : list slice) : tset := fun t => existsb (fun c => s_toks c t) cs.

  (* TokenizerSlice::apply: (did it set its bits?, target) *)
  Fixpoint apply (s : slice) (trg : tset) : bool * tset :=
    match s with
    | Slice idx toks children =>
        if matches idx then (true, ts_union trg toks)
        else
          (* try the children in order, remembering which ones applied *)
          let '(applied, trg1) :=
            (fix go (cs : list slice) (trg : tset) : list bool * tset :=
               match cs with
               | [] => ([], trg)
               | c :: cs' =>
                   let '(a, trg') := apply c trg in
                   let '(rest, trg'') := go cs' trg' in
                   (a :: rest, trg'')
               end) children trg in
          let num_applied := length (filter (fun b => b) applied) in
          match num_applied with
          | O => (false, trg1)
          | S O =>
              (* trie_without_child[first applied]: this slice minus that child *)
              let first := (fix find (l : list (bool * slice)) : tset :=
                              match l with
                              | [] => (fun _ : tokid => false)
                              | (true, c) :: _ => s_toks c
                              | (false, _) :: l' => find l'
                              end) (combine applied children) in
              (true, walk_set (ts_minus toks first) trg1)
          | _ =>
              (* walk the children that did not apply, then trie_without_children *)
              let trg2 := fold_left (fun (acc_trg : tset) (ac : bool * slice) =>
                                       if fst ac then acc_trg else walk_set (s_toks (snd ac)) acc_trg)
                                    (combine applied children) trg1 in
              (true, walk_set (ts_minus toks (union_toks children)) trg2)
          end
    end.

  (* SlicedBiasComputer::compute_bias for an empty start prefix *)
  Definition compute_bias_sliced (top : slice) (subsume_possible : bool) : tset :=
    let empty : tset := fun _ => false in
    match s_children top with
    | [] => walk_set (s_toks top) empty
    | _ =>
        if subsume_possible then
          let '(ok, trg) := apply top empty in
          if ok then trg else walk_set (s_toks top) empty
        else walk_set (s_toks top) empty
    end.

  Definition compute_bias_plain (top : slice) : tset := walk_set (s_toks top) (fun _ => false).
End Apply.

(* well-formed slice tree: a child's tokens are tokens of its parent *)
Fixpoint slice_wf (s : slice) : Prop :=
  match s with
  | Slice _ toks children =>
      (fix all (cs : list slice) : Prop :=
         match cs with
         | [] => True
         | c :: cs' => (forall t, s_toks c t = true -> toks t = true) /\ slice_wf c /\ all cs'
         end) children
  end.

(* the oracle is sound: a matching slice consists of tokens the recogniser accepts *)
Fixpoint oracle_sound (acc : tokid -> bool) (matches : N -> bool) (s : slice) : Prop :=
  match s with
  | Slice idx toks children =>
      (matches idx = true -> forall t, toks t = true -> acc t = true) /\
      (fix all (cs : list slice) : Prop :=
         match cs with
         | [] => True
         | c :: cs' => oracle_sound acc matches c /\ all cs'
         end) children
  end.
