(* RunEngine.v — executable runner for engine sessions (harness/src/eng.rs):
   grammar + lexemes + vocabulary + a list of Matcher operations. *)
From Coq Require Import String.
From LLG Require Import Base Sx Svob Trie WalkM Regex Substring Lexer Earley Engine TokParser.
Open Scope string_scope.
Open Scope N_scope.

Fixpoint rx_of_sx_fuel (fuel : nat) (x : sx) : regex :=
  match fuel with
  | O => Empty
  | S f =>
      let h := head_sym x in
      let a := tail_items x in
      let is s := bytes_eqb h (sym s) in
      if is "lit" then lit (as_bytes (nth_sx a 0))
      else if is "class" then
        Bytes (fold_left (fun acc r => match as_ns r with
                                       | [lo; hi] => bset_union acc (bset_range lo hi)
                                       | _ => acc end) a 0)
      else if is "bytes" then Bytes (as_n (nth_sx a 0))
      else if is "cat" then fold_right (fun y acc => Cat (rx_of_sx_fuel f y) acc) Eps a
      else if is "alt" then
        match a with
        | [] => Empty
        | y :: ys => fold_left (fun acc z => Alt acc (rx_of_sx_fuel f z)) ys (rx_of_sx_fuel f y)
        end
      else if is "and" then
        match a with
        | [] => Not Empty
        | y :: ys => fold_left (fun acc z => And acc (rx_of_sx_fuel f z)) ys (rx_of_sx_fuel f y)
        end
      else if is "not" then Not (rx_of_sx_fuel f (nth_sx a 0))
      else if is "rep" then
        let hi := as_z (nth_sx a 2) in
        Rep (rx_of_sx_fuel f (nth_sx a 0)) (as_n (nth_sx a 1))
            (if (hi <? 0)%Z then None else Some (Z.to_N hi))
      else if is "substr" then substring_rx (map as_bytes a)
      else if is "eps" then Eps
      else Empty
  end.
Definition rx_of_sx := rx_of_sx_fuel 60.

Definition gsym_of_sx (x : sx) : gsym :=
  if bytes_eqb (head_sym x) (sym "n") then NT (as_n (nth_sx (tail_items x) 0))
  else TM (as_n (nth_sx (tail_items x) 0)).

Definition grammar_of_sx (g : list sx) : grammar * lexspec :=
  let rules := map (fun alts => map (fun alt => map gsym_of_sx (as_list alt)) (as_list alts))
                   (field "rules" g) in
  let lexemes := map (fun r => mk_lexeme (rx_of_sx r) false false []) (field "lexemes" g) in
  (* the front end never lets the start symbol occur on a right-hand side:
     `start: n0` is a fresh wrapper (row_is_accepting relies on it) *)
  (mk_grammar (rules ++ [[[NT 0]]]) (lenN rules), lexemes).

Definition marker_token (tr : trie) : option tokid :=
  match greedy_tokenize tr [marker] with [t] => Some t | _ => None end.

Definition ctx_of_sx (args : list sx) (clears : bool) : ctx :=
  let '(g, sp) := grammar_of_sx (field "grammar" args) in
  let ws := map as_bytes (field "vocab" args) in
  let tr := trie_from ws in
  mk_ctx g (nullable_set g) sp tr (marker_token tr) (map as_n (field "eos" args)) clears 50000.

Definition stop_code (r : stop_reason) : N :=
  match r with
  | NotStopped => 0 | MaxTokensTotal => 1 | MaxTokensParser => 2 | NoExtension => 3
  | NoExtensionBias => 4 | EndOfSentence => 5 | InternalError => 6 | LexerTooComplex => 7
  | ParserTooComplex => 8
  end.

Definition serr : sx := tagged "err" [].
Definition sok (l : list sx) : sx := tagged "ok" l.

Definition run_op (cx : ctx) (t : tstate) (op : sx) : sx * tstate :=
  let h := head_sym op in
  let a := tail_items op in
  let is s := bytes_eqb h (sym s) in
  if is "mask" then
    let '(r, t') := m_compute_mask cx t in
    (match r with TOk v => sok [sns (iter_list v)] | TErr => serr end, t')
  else if is "maskoreos" then
    let '(r, t') := m_compute_mask_or_eos cx t in
    (match r with TOk v => sok [sns (iter_list v)] | TErr => serr end, t')
  else if is "commit" then
    let '(r, t') := m_consume_token cx t (as_n (nth_sx a 0)) in
    (match r with TOk _ => sok [] | TErr => serr end, t')
  else if is "validate" then
    let '(r, t') := m_validate cx t (map as_n a) in
    (match r with TOk n => sok [sn n] | TErr => serr end, t')
  else if is "accepting" then
    let '(r, t') := m_is_accepting cx t in
    (match r with TOk b => sok [sb b] | TErr => serr end, t')
  else if is "ffbytes" then
    let '(b, t') := m_ff_bytes cx t in (sok [SX b], t')
  else if is "fftokens" then
    let '(b, t') := m_ff_tokens cx t in (sok [sns b], t')
  else if is "rollback" then
    let '(r, t') := m_rollback cx t (N.to_nat (as_n (nth_sx a 0))) in
    (match r with TOk _ => sok [] | TErr => serr end, t')
  else if is "reset" then
    let '(r, t') := m_reset cx t in
    (match r with TOk _ => sok [] | TErr => serr end, t')
  else if is "invalidate" then (sok [], m_invalidate_cache t)
  else if is "stopped" then
    (tagged "stop" [sn (stop_code (m_stop_reason t)); sb (m_is_stopped t)], t)
  else (SL [SY (sym "unknown-op")], t).

Fixpoint run_ops (cx : ctx) (t : tstate) (ops : list sx) : list sx :=
  match ops with
  | [] => []
  | op :: ops' => let '(r, t') := run_op cx t op in r :: run_ops cx t' ops'
  end.

Definition run_session (clears : bool) (args : list sx) : sx :=
  let cx := ctx_of_sx args clears in
  match init_tstate cx (as_bool (field1 "canonical" args)) with
  | None => tagged "session" [SL [SY (sym "init-failed")]]
  | Some t => tagged "session" (run_ops cx t (field "ops" args))
  end.
