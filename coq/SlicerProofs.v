(* SlicerProofs.v — the slicing optimisation never changes a mask, given a sound
   containment oracle.  STATEMENTS MARKED (*FIXED*) MUST NOT CHANGE. *)
From LLG Require Import Base Slicer.

(* ---------- induction principle for the nested inductive ---------- *)
Fixpoint slice_ind' (P : slice -> Prop)
  (H : forall i t cs, Forall P cs -> P (Slice i t cs)) (s : slice) : P s :=
  match s with
  | Slice i t cs =>
      H i t cs ((fix f (cs : list slice) : Forall P cs :=
                   match cs with
                   | [] => Forall_nil P
                   | c :: cs' => Forall_cons c (slice_ind' P H c) (f cs')
                   end) cs)
  end.

Lemma slice_wf_unfold : forall i toks cs,
  slice_wf (Slice i toks cs) ->
  Forall (fun c => (forall t, s_toks c t = true -> toks t = true) /\ slice_wf c) cs.
Proof.
  intros i toks cs. simpl. induction cs as [|c cs IH]; intros H.
  - constructor.
  - destruct H as [H1 [H2 H3]]. constructor; [split; assumption | apply IH; exact H3].
Qed.

Lemma oracle_sound_unfold : forall acc matches i toks cs,
  oracle_sound acc matches (Slice i toks cs) ->
  (matches i = true -> forall t, toks t = true -> acc t = true) /\
  Forall (oracle_sound acc matches) cs.
Proof.
  intros acc matches i toks cs. simpl. intros [H0 H]. split; [exact H0|].
  clear H0. induction cs as [|c cs IH].
  - constructor.
  - destruct H as [H1 H2]. constructor; [exact H1 | apply IH; exact H2].
Qed.

Section P.
  Variable acc : tokid -> bool.
  Variable matches : N -> bool.

  Definition go :=
    fix go (cs : list slice) (trg : tset) : list bool * tset :=
      match cs with
      | [] => ([], trg)
      | c :: cs' =>
          let '(a, trg') := apply acc matches c trg in
          let '(rest, trg'') := go cs' trg' in
          (a :: rest, trg'')
      end.

  Definition findf :=
    fix find (l : list (bool * slice)) : tset :=
      match l with
      | [] => (fun _ : tokid => false)
      | (true, c) :: _ => s_toks c
      | (false, _) :: l' => find l'
      end.

  Definition walk_rest (l : list (bool * slice)) (trg1 : tset) : tset :=
    fold_left (fun (acc_trg : tset) (ac : bool * slice) =>
                 if fst ac then acc_trg else walk_set acc (s_toks (snd ac)) acc_trg)
              l trg1.

  Lemma apply_unfold : forall idx toks children trg,
    apply acc matches (Slice idx toks children) trg =
    if matches idx then (true, ts_union trg toks)
    else
      let '(applied, trg1) := go children trg in
      match length (filter (fun b => b) applied) with
      | O => (false, trg1)
      | S O => (true, walk_set acc (ts_minus toks (findf (combine applied children))) trg1)
      | _ => (true, walk_set acc (ts_minus toks (union_toks children))
                      (walk_rest (combine applied children) trg1))
      end.
  Proof. reflexivity. Qed.

  Lemma go_cons : forall c cs trg,
    go (c :: cs) trg =
    let '(a, trg') := apply acc matches c trg in
    let '(rest, trg'') := go cs trg' in
    (a :: rest, trg'').
  Proof. reflexivity. Qed.

  Definition contrib (t : tokid) (l : list (bool * slice)) : bool :=
    existsb (fun ac => fst ac && s_toks (snd ac) t && acc t) l.

  Definition nonapp (t : tokid) (l : list (bool * slice)) : bool :=
    existsb (fun ac => negb (fst ac) && s_toks (snd ac) t && acc t) l.

  Definition nA (l : list (bool * slice)) : nat :=
    length (filter (fun b : bool => b) (map fst l)).

  Definition ChildSpec (c : slice) : Prop :=
    forall trg ok trg',
      slice_wf c -> oracle_sound acc matches c ->
      apply acc matches c trg = (ok, trg') ->
      forall t, trg' t = if ok then trg t || (s_toks c t && acc t) else trg t.

  Lemma go_spec : forall cs,
    Forall ChildSpec cs -> Forall slice_wf cs -> Forall (oracle_sound acc matches) cs ->
    forall trg applied trg1, go cs trg = (applied, trg1) ->
      length applied = length cs /\
      forall t, trg1 t = trg t || contrib t (combine applied cs).
  Proof.
    induction cs as [|c cs IH]; intros HS HW HO trg applied trg1 Hgo.
    - simpl in Hgo. inversion Hgo; subst. split; [reflexivity|].
      intros t. simpl. rewrite orb_false_r. reflexivity.
    - rewrite go_cons in Hgo.
      destruct (apply acc matches c trg) as [a trg'] eqn:Ea.
      destruct (go cs trg') as [rest trg''] eqn:Eg.
      inversion Hgo; subst applied trg1.
      inversion HS as [|? ? HS1 HS2]; subst.
      inversion HW as [|? ? HW1 HW2]; subst.
      inversion HO as [|? ? HO1 HO2]; subst.
      destruct (IH HS2 HW2 HO2 _ _ _ Eg) as [Hl Ht].
      split; [simpl; rewrite Hl; reflexivity|].
      intros t. rewrite Ht. simpl.
      rewrite (HS1 _ _ _ HW1 HO1 Ea t).
      destruct a; simpl.
      + rewrite orb_assoc. reflexivity.
      + reflexivity.
  Qed.

  Lemma combine_fst_snd : forall (a : list bool) (b : list slice),
    length a = length b ->
    map fst (combine a b) = a /\ map snd (combine a b) = b.
  Proof.
    induction a as [|x a IH]; intros [|y b] H; simpl in *; try discriminate.
    - split; reflexivity.
    - injection H as H. destruct (IH b H) as [H1 H2]. rewrite H1, H2. split; reflexivity.
  Qed.

  Lemma contrib_zero : forall t l, nA l = O -> contrib t l = false.
  Proof.
    intros t. induction l as [|[a c] l IH]; intros H.
    - reflexivity.
    - unfold nA in *. simpl in *. destruct a; simpl in *.
      + discriminate.
      + apply IH. exact H.
  Qed.

  Lemma contrib_one : forall t l, nA l = 1%nat -> contrib t l = findf l t && acc t.
  Proof.
    intros t. induction l as [|[a c] l IH]; intros H.
    - unfold nA in H. simpl in H. discriminate.
    - destruct a.
      + unfold nA in H. simpl in H. injection H as H.
        simpl. fold (contrib t l). rewrite (contrib_zero t l H).
        rewrite orb_false_r. reflexivity.
      + simpl. fold (contrib t l). apply IH. exact H.
  Qed.

  Lemma findf_union : forall t l, findf l t = true -> union_toks (map snd l) t = true.
  Proof.
    intros t. induction l as [|[a c] l IH]; intros H.
    - simpl in H. discriminate.
    - unfold union_toks in *. destruct a; simpl in *.
      + rewrite H. reflexivity.
      + rewrite (IH H). apply orb_true_r.
  Qed.

  Lemma walk_rest_spec : forall t l trg1,
    walk_rest l trg1 t = trg1 t || nonapp t l.
  Proof.
    intros t. induction l as [|[a c] l IH]; intros trg1.
    - simpl. rewrite orb_false_r. reflexivity.
    - unfold walk_rest in *. simpl. rewrite IH. fold (nonapp t l).
      destruct a; simpl.
      + reflexivity.
      + unfold walk_set. rewrite orb_assoc. reflexivity.
  Qed.

  Lemma contrib_nonapp : forall t l,
    contrib t l || nonapp t l = union_toks (map snd l) t && acc t.
  Proof.
    intros t. induction l as [|[a c] l IH].
    - reflexivity.
    - unfold union_toks in *. simpl. fold (contrib t l). fold (nonapp t l).
      rewrite andb_orb_distrib_l. rewrite <- IH.
      destruct a, (s_toks c t), (acc t), (contrib t l), (nonapp t l); reflexivity.
  Qed.

  Lemma union_sub : forall toks cs t,
    Forall (fun c => (forall t, s_toks c t = true -> toks t = true) /\ slice_wf c) cs ->
    union_toks cs t = true -> toks t = true.
  Proof.
    intros toks cs t H. induction H as [|c cs [Hc _] _ IH]; intros Hu.
    - discriminate.
    - unfold union_toks in *. simpl in Hu. apply orb_true_iff in Hu. destruct Hu as [Hu|Hu].
      + apply Hc. exact Hu.
      + apply IH. exact Hu.
  Qed.

  Lemma apply_spec_aux : forall s, ChildSpec s.
  Proof.
    induction s as [i toks cs IH] using slice_ind'.
    intros trg ok trg' Hwf Hos Happ t.
    apply slice_wf_unfold in Hwf.
    apply oracle_sound_unfold in Hos. destruct Hos as [Hm Hos].
    rewrite apply_unfold in Happ.
    destruct (matches i) eqn:Em.
    - inversion Happ; subst. unfold ts_union. simpl.
      destruct (toks t) eqn:Et; simpl.
      + rewrite (Hm eq_refl t Et). reflexivity.
      + reflexivity.
    - destruct (go cs trg) as [applied trg1] eqn:Eg.
      assert (Hwf' : Forall slice_wf cs).
      { clear -Hwf. induction Hwf as [|c cs [_ H] _ IH']; constructor; assumption. }
      destruct (go_spec cs IH Hwf' Hos _ _ _ Eg) as [Hlen Htrg].
      destruct (combine_fst_snd applied cs Hlen) as [Hfst Hsnd].
      assert (Hsub : union_toks (map snd (combine applied cs)) t = true -> toks t = true).
      { rewrite Hsnd. apply union_sub. exact Hwf. }
      destruct (length (filter (fun b => b) applied)) as [|[|n]] eqn:En.
      + inversion Happ; subst. rewrite Htrg.
        rewrite contrib_zero.
        * apply orb_false_r.
        * unfold nA. rewrite Hfst. exact En.
      + inversion Happ; subst. simpl. unfold walk_set, ts_minus.
        rewrite Htrg. rewrite contrib_one.
        * pose proof (findf_union t (combine applied cs)) as Hf.
          destruct (findf (combine applied cs) t) eqn:Ef.
          -- rewrite (Hsub (Hf eq_refl)). simpl.
             destruct (trg t), (acc t); reflexivity.
          -- simpl. rewrite orb_false_r, andb_true_r. reflexivity.
        * unfold nA. rewrite Hfst. exact En.
      + inversion Happ; subst. simpl. unfold walk_set, ts_minus.
        rewrite walk_rest_spec. rewrite Htrg.
        rewrite <- (orb_assoc (trg t)). rewrite contrib_nonapp.
        rewrite <- Hsnd at 2.
        destruct (union_toks (map snd (combine applied cs)) t) eqn:Eu.
        * rewrite (Hsub eq_refl). simpl.
          destruct (trg t), (acc t); reflexivity.
        * simpl. rewrite andb_true_r, orb_false_r. reflexivity.
  Qed.
End P.

(*FIXED*) (* a slice that reports `true` has contributed exactly its accepted tokens;
   one that reports `false` has changed nothing *)
Theorem apply_spec : forall acc matches s trg ok trg',
  slice_wf s -> oracle_sound acc matches s ->
  apply acc matches s trg = (ok, trg') ->
  forall t, trg' t = if ok then trg t || (s_toks s t && acc t) else trg t.
Proof.
  intros acc matches s trg ok trg' Hwf Hos Happ.
  exact (apply_spec_aux acc matches s trg ok trg' Hwf Hos Happ).
Qed.

(*FIXED*) (* bit for bit the unsliced mask *)
Theorem slicer_transparent : forall acc matches top subsume_possible,
  slice_wf top -> oracle_sound acc matches top ->
  forall t, compute_bias_sliced acc matches top subsume_possible t = compute_bias_plain acc top t.
Proof.
  intros acc matches top sp Hwf Hos t.
  unfold compute_bias_sliced, compute_bias_plain.
  destruct (s_children top) as [|c cs]; [reflexivity|].
  destruct sp; [|reflexivity].
  destruct (apply acc matches top (fun _ => false)) as [ok trg] eqn:Ea.
  destruct ok; [|reflexivity].
  rewrite (apply_spec _ _ _ _ _ _ Hwf Hos Ea t).
  unfold walk_set. reflexivity.
Qed.

(*FIXED*) (* the soundness hypothesis is needed: an unsound oracle changes the mask *)
Theorem unsound_oracle_changes_mask :
  exists acc matches top, slice_wf top /\
    exists t, compute_bias_sliced acc matches top true t <> compute_bias_plain acc top t.
Proof.
  exists (fun _ => false).
  exists (fun i => N.eqb i 1).
  exists (Slice 0 (fun t => N.eqb t 5) [Slice 1 (fun t => N.eqb t 5) []]).
  split.
  - simpl. split; [intros t H; exact H | split; exact I].
  - exists 5. vm_compute. discriminate.
Qed.

Print Assumptions apply_spec.
Print Assumptions slicer_transparent.
Print Assumptions unsound_oracle_changes_mask.
