(* OptimizeProofs.v — the rule-inlining optimisation preserves the language of every
   symbol it keeps, and keeps every special symbol.
   STATEMENTS MARKED (*FIXED*) MUST NOT CHANGE. *)
From LLG Require Import Base Optimize.
Local Open Scope nat_scope.

(* well-formed input: symbols in range; terminals have no rules *)
Definition owf (g : ogrammar) (term : nat -> bool) : Prop :=
  (forall i rhs x, In rhs (o_rules (osym_at g i)) -> In x rhs -> x < length g) /\
  (forall i, term i = true -> o_rules (osym_at g i) = []) /\
  (forall i, term i = true -> i < length g).

(* a symbol the optimiser keeps (it is copied with its rules) *)
Definition kept (g : ogrammar) (i : nat) : Prop :=
  final_repl g (definitions g) (users g (definitions g)) i = None.

(*FIXED*) (* special symbols (start, captures, token limits, sub-grammar boundaries) are always kept *)
Theorem special_kept : forall g i,
  i < length g -> o_special (osym_at g i) = true -> kept g i /\
  o_special (osym_at (expand_shortcuts g) i) = true.
Proof. Admitted.

(*FIXED*) (* one pass: every kept non-terminal symbol derives exactly the same terminal sequences *)
Theorem expand_preserves : forall g term s w,
  owf g term -> s < length g -> kept g s ->
  (oderives (expand_shortcuts g) term s w <-> oderives g term s w).
Proof. Admitted.

(*FIXED*) (* the output of a pass is again well formed *)
Theorem expand_wf : forall g term, owf g term -> owf (expand_shortcuts g) term.
Proof. Admitted.

(*FIXED*) (* the optimisation as applied (two passes) preserves the language of every special symbol,
   in particular of the start symbol *)
Theorem optimize_preserves : forall g term s w,
  owf g term -> s < length g -> o_special (osym_at g s) = true ->
  (oderives (optimize g) term s w <-> oderives g term s w).
Proof. Admitted.

(*FIXED*) (* union-find: the root of an element is a fixed point, and compression does not change roots *)
Lemma uf_find_root : forall m e root m',
  uf_find m e = (root, m') -> root = uf_root (length m) m e.
Proof. Admitted.
